#!/venv/bin/python
"""tools/fixcommit.py <relfile> <old> <new> "<commit message>" : apply an exact single-occurrence replacement in /repo and commit it."""
import subprocess, sys
rel, old, new, msg = sys.argv[1:5]
p = "/repo/" + rel
s = open(p).read()
n = s.count(old)
if n != 1:
  print("pattern occurs %d times" % n); sys.exit(1)
open(p, "w").write(s.replace(old, new))
subprocess.run(["git", "-C", "/repo", "add", rel], check=True)
subprocess.run(["git", "-C", "/repo", "commit", "-q", "-m", msg], check=True)
print(subprocess.run(["git", "-C", "/repo", "log", "--oneline", "-1"], capture_output=True, text=True).stdout.strip())
