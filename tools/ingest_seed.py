#!/venv/bin/python
"""tools/ingest_seed.py <src_seed_dir> <dest_id> <property> "<caught_by text>" "<what ran>" """
import json, os, shutil, sys
src, did, prop, caught, ran = sys.argv[1:6]
dst = os.path.join("/verif/seeded", did)
os.makedirs(dst, exist_ok=True)
for f in ("patch.diff", "demo.py"):
  shutil.copy(os.path.join(src, f), os.path.join(dst, f))
meta = {}
mp = os.path.join(src, "meta.json")
if os.path.exists(mp):
  try: meta = json.load(open(mp))
  except Exception: meta = {"raw": open(mp).read()}
out = {"property": prop, "breaks": meta.get("summary", ""), "needs_to_manifest": meta.get("needs_to_manifest", ""),
       "files_changed": meta.get("files_changed", []), "author_verified": meta.get("verified", ""),
       "lead_ran": ran, "caught_by": caught}
json.dump(out, open(os.path.join(dst, "meta.json"), "w"), indent=1)
print("ingested", dst)
