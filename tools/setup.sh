#!/bin/bash
# Offline, idempotent. Installs hypothesis (and atheris for the C10 thorough
# tier) beside the repository's packages if they are missing.
set -u
cd "$(dirname "$0")/.."
mkdir -p .deps out evidence
export PIP_NO_INDEX=1
if ! PYTHONPATH=.deps /venv/bin/python -c "import hypothesis" 2>/dev/null; then
  /venv/bin/pip install --no-index --find-links /opt/veriftools/wheels --target .deps hypothesis >/dev/null 2>&1 \
    || { echo "setup: cannot install hypothesis"; exit 1; }
fi
if ! PYTHONPATH=.deps /venv/bin/python -c "import atheris" 2>/dev/null; then
  /venv/bin/pip install --no-index --find-links /opt/veriftools/wheels --target .deps atheris >/dev/null 2>&1 \
    || echo "setup: atheris not installable (C10 thorough falls back to Hypothesis only)"
fi
TF_USE_LEGACY_KERAS=1 TF_CPP_MIN_LOG_LEVEL=3 PYTHONPATH=/repo:.deps /venv/bin/python -W ignore -c "import qkeras, hypothesis; print('setup ok: qkeras', qkeras.__file__, 'hypothesis', hypothesis.__version__)" 2>/dev/null
