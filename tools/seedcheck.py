#!/venv/bin/python
"""Run checks against a seeded change without touching /repo.
usage: tools/seedcheck.py <seed_dir containing patch.diff [demo.py]> <ID>[,<ID>...] [--workers N] [--tier T] [--demo]
Copies /repo to a scratch dir, applies patch.diff, optionally runs demo.py (expects exit 1), runs the checks
with VERIF_REPO=<scratch>, prints exit codes + VIOLATION lines, removes the scratch dir."""
import os, shutil, subprocess, sys, tempfile
a = sys.argv[1:]
workers = "8"; tier = "quick"; demo = False
if "--workers" in a: i = a.index("--workers"); workers = a[i+1]; del a[i:i+2]
if "--tier" in a: i = a.index("--tier"); tier = a[i+1]; del a[i:i+2]
if "--demo" in a: a.remove("--demo"); demo = True
sd, ids = os.path.abspath(a[0]), a[1].split(",")
d = tempfile.mkdtemp(prefix="seed_", dir="/tmp")
try:
  subprocess.run("cd /repo && git archive HEAD | tar -x -C %s" % d, shell=True, check=True)
  r = subprocess.run(["git", "apply", "--unsafe-paths", "--directory", d, os.path.join(sd, "patch.diff")], cwd="/", capture_output=True, text=True)
  if r.returncode != 0:
    r = subprocess.run("patch -p1 < %s" % os.path.join(sd, "patch.diff"), cwd=d, shell=True, capture_output=True, text=True)
    if r.returncode != 0:
      print("SEEDCHECK: patch does not apply:", r.stdout[-300:], r.stderr[-300:]); sys.exit(3)
  env = dict(os.environ, TF_USE_LEGACY_KERAS="1", TF_CPP_MIN_LOG_LEVEL="3", PROTOCOL_BUFFERS_PYTHON_IMPLEMENTATION="python")
  if demo and os.path.exists(os.path.join(sd, "demo.py")):
    for label, root in (("patched", d), ("unchanged", "/repo")):
      r = subprocess.run(["/venv/bin/python", "-W", "ignore", os.path.join(sd, "demo.py")], cwd=root, env=dict(env, PYTHONPATH=root), capture_output=True, text=True)
      print("demo on %s tree: exit=%d %s" % (label, r.returncode, (r.stdout.strip().splitlines() or [""])[-1][:200]))
  for pid in ids:
    r = subprocess.run(["/verif/check", pid, "--tier", tier, "--workers", workers], env=dict(os.environ, VERIF_REPO=d), capture_output=True, text=True)
    lines = [l for l in r.stdout.splitlines() if l.startswith(("VIOLATION", "  sub_check", "  detail", "HARNESS", pid + " tier"))]
    print("== %s exit=%d" % (pid, r.returncode)); print("\n".join(lines[:9]))
finally:
  shutil.rmtree(d, ignore_errors=True)
