#!/venv/bin/python
"""Regenerates MANIFEST.json from the table below and validates it."""
import json, os, sys
HERE = os.path.dirname(os.path.dirname(os.path.abspath(__file__)))
sys.path.insert(0, HERE)
from tools.manifest_table import CHECKS, NOT_APPLICABLE, HOOK_COMMITS

BASELINE = json.load(open("/root/.vp/BASELINE.json"))["cmd"] if os.path.exists("/root/.vp/BASELINE.json") else \
    "cd /repo && /venv/bin/python -m pytest -ra -q -p no:cacheprovider --timeout=900 --continue-on-collection-errors --junitxml=<file>"

m = {
 "version": 1,
 "setup_cmd": "bash /verif/tools/setup.sh",
 "hooks": {
   "guard": "GOOGLE_QKERAS_VERIF",
   "enable": "no source hooks are needed: every observation point is a public return value or attribute; checks import /repo's working tree directly (pure Python, rebuild = import) with GOOGLE_QKERAS_VERIF=1 exported by ./check",
   "baseline_off_cmd": BASELINE.replace("--junitxml=<file>", "--junitxml=/tmp/qkeras_baseline.junit.xml"),
   "source_commits": HOOK_COMMITS,
   "add_only": True
 },
 "engines": [
   {"name": "vf", "path": "/verif/vf", "serves_properties": [c["id"] for c in CHECKS],
    "kind_free_text": "property-based testing harness: Hypothesis strategies + deterministic lattice/breakpoint enumeration, explicit reference oracles, collect-then-shrink failure bucketing, replay files"}
 ],
 "checks": [],
 "notes": "All checks run /venv/bin/python with TF_USE_LEGACY_KERAS=1 against the working tree of /repo (VERIF_REPO overrides, used only for sensitivity experiments). exit 2 = harness error. Known findings: /verif/known_findings.json.",
 "not_applicable": NOT_APPLICABLE,
}
for c in CHECKS:
  m["checks"].append({
    "property_id": c["id"],
    "quick_cmd": "./check %s --tier quick" % c["id"],
    "thorough_cmd": "./check %s --tier thorough" % c["id"],
    "evidence_file": "/verif/evidence/%s.json" % c["id"],
    "replay_cmd_template": "./check %s --replay {path}" % c["id"],
    "engine": "vf",
    "level_claimed": {"category": "exploration", "text": c["text"], "design_ref": c["design"]},
    "level_note": c["note"],
    "technique": c["technique"],
  })
json.dump(m, open(os.path.join(HERE, "MANIFEST.json"), "w"), indent=1)
try:
  import jsonschema
  jsonschema.validate(m, json.load(open("/root/.vp/MANIFEST.schema.json")))
  print("MANIFEST.json valid:", len(m["checks"]), "checks,", len(NOT_APPLICABLE), "not_applicable")
except ImportError:
  print("jsonschema not available; wrote MANIFEST.json unvalidated")
