#!/venv/bin/python
"""Merge known_findings.d/*.json into known_findings.json (by hand-run only), marking repaired ones as fixed."""
import json, glob, os, sys
HERE = os.path.dirname(os.path.dirname(os.path.abspath(__file__)))
FIXED = json.load(open(os.path.join(HERE, "tools", "fixed_map.json")))   # id -> {"commit":..., "note":...}
main = json.load(open(os.path.join(HERE, "known_findings.json")))
byid = {f["id"]: f for f in main["findings"]}
for fn in sorted(glob.glob(os.path.join(HERE, "known_findings.d", "*.json"))):
  for f in json.load(open(fn)).get("findings", []):
    byid[f["id"]] = f
out = []
fixed_lines = []
for fid in sorted(byid, key=lambda s: (s.split("-")[0], s)):
  f = byid[fid]
  if fid in FIXED:
    f["status"] = "fixed"; f["commit"] = FIXED[fid]["commit"]
    fixed_lines.append("fixed: property=%s %s %s" % (f["property"], FIXED[fid]["commit"], f["what"]))
  else:
    f.setdefault("status", "known")
  out.append(f)
main["findings"] = out
main["fixed"] = fixed_lines
json.dump(main, open(os.path.join(HERE, "known_findings.json"), "w"), indent=1)
print(len(out), "findings,", len(fixed_lines), "fixed")
