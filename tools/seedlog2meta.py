#!/venv/bin/python
"""tools/seedlog2meta.py <log>: parse a seedrun log (##### <seed id> sections produced by seedcheck.py) and update seeded/<id>/meta.json"""
import json, os, re, sys
cur = None; data = {}
for line in open(sys.argv[1]):
  line = line.rstrip("\n")
  m = re.match(r"^##### (\S+)", line)
  if m: cur = m.group(1); data[cur] = {"demo": [], "checks": {}, "subs": {}}; last = None; continue
  if cur is None: continue
  if line.startswith("demo on"): data[cur]["demo"].append(line[:160])
  m = re.match(r"^== (C\d+) exit=(\d+)", line)
  if m: last = m.group(1); data[cur]["checks"][last] = int(m.group(2)); data[cur]["subs"][last] = []; continue
  m = re.match(r"^  sub_check=(\S+) signature=(\{.*\}) count", line)
  if m and last: data[cur]["subs"][last].append(m.group(1))
for sid, d in data.items():
  p = os.path.join("/verif/seeded", sid, "meta.json")
  if not os.path.exists(p): print("no meta for", sid); continue
  meta = json.load(open(p))
  parts = []
  for c, rc in d["checks"].items():
    subs = sorted(set(d["subs"][c]))
    parts.append("%s quick: %s%s" % (c, "CAUGHT (exit 1)" if rc == 1 else ("not caught (exit %d)" % rc), (" via " + ", ".join(subs)) if subs else ""))
  meta["caught_by"] = "; ".join(parts)
  meta["lead_ran"] = "tools/seedcheck.py seeded/%s <IDs> --demo (patched scratch copy via VERIF_REPO; /repo untouched): %s" % (sid, " | ".join(d["demo"]))
  json.dump(meta, open(p, "w"), indent=1)
  print(sid, meta["caught_by"])
