#!/venv/bin/python
"""Prints a markdown table of the seeded changes and which check catches them (from seeded/*/meta.json)."""
import glob, json, os
rows = []
for d in sorted(glob.glob("/verif/seeded/*")):
  m = json.load(open(os.path.join(d, "meta.json")))
  sid = os.path.basename(d)
  br = (m.get("breaks") or "").replace("\n", " ").replace("|", "/")
  nd = (m.get("needs_to_manifest") or "").replace("\n", " ").replace("|", "/")
  cb = (m.get("caught_by") or "").replace("|", "/")
  rows.append("| %s | %s | %s | %s |" % (sid, br[:150] + ("…" if len(br) > 150 else ""), nd[:170] + ("…" if len(nd) > 170 else ""), cb[:140]))
print("| seed | change | needs to manifest | result (quick tier) |\n|---|---|---|---|")
print("\n".join(rows))
