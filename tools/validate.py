"""python3-vt tools/validate.py : validates MANIFEST.json and evidence/*.json against the schemas."""
import glob, json, sys, jsonschema
ok = True
def v(path, schema):
  global ok
  try:
    jsonschema.validate(json.load(open(path)), json.load(open(schema)))
    print("valid  ", path)
  except Exception as e:
    ok = False
    print("INVALID", path, str(e)[:300])
v("/verif/MANIFEST.json", "/root/.vp/MANIFEST.schema.json")
for p in sorted(glob.glob("/verif/evidence/*.json")):
  v(p, "/root/.vp/EVIDENCE.schema.json")
sys.exit(0 if ok else 1)
