HOOK_COMMITS = []
_PENDING = "check not built yet in this session (design in DESIGN.md section 5); will be claimed once its check is registered"
CHECKS = [
 {"id": "C01", "design": "DESIGN.md 5/C01",
  "technique": "property-based testing: exhaustive config-lattice x breakpoint-walk enumeration + Hypothesis random tensors against an exact code-lattice membership oracle",
  "text": "Every configuration of the fixed-point option lattice (bits<=8 quick, <=16 thorough) is run over its complete breakpoint walk (every code and every rounding breakpoint +-2 ulp, saturation edges, zeros/denormals, large magnitudes) plus Hypothesis tensors of rank 0..4; each output is tested exactly for lattice membership, code range, min()/max() enclosure, and on the full walk reachability of every code and range()==reachable set. Search, not proof: between breakpoints correctness rests on the piecewise-constant structure.",
  "note": "Trusts TensorFlow eager float32 kernels and numpy float64 (exact for power-of-two units). Inputs limited to |x|<2^22 steps; constant alpha limited to powers of two."},
 {"id": "C02", "design": "DESIGN.md 5/C02",
  "technique": "property-based testing: config-lattice x sorted breakpoint-walk enumeration + Hypothesis random tensors against an exact nearest-code reference (float64 on float32 data), monotonicity and idempotence relations",
  "text": "For every configuration of the fixed-point lattice the full sorted breakpoint walk and Hypothesis tensors are compared element-wise with a reference projection: |y - clip(s(x))| <= step/2 (exact for linear/ReLU/leaky-ReLU surrogates, +4 float32 ulp for tanh/sigmoid surrogates evaluated in float64), outputs non-decreasing along sorted inputs, and q(q(x)) == q(x) for linear and plain-ReLU formats. Search at every breakpoint neighbourhood, not a proof.",
  "note": "Trusts numpy float64 tanh/exp as the surrogate reference and TF eager kernels. quantized_relu(use_sigmoid=1) and 1-bit sign modes are only checked for monotonicity. Legacy quantized_bits with constant alpha != 1 is a recorded known finding (C02-KF1); its unscaled projection is still checked."},
]
_claimed = {c["id"] for c in CHECKS}
NOT_APPLICABLE = [{"property_id": "C%02d" % i, "reason": _PENDING} for i in range(1, 21) if "C%02d" % i not in _claimed]
