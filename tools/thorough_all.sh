#!/bin/bash
# tools/thorough_all.sh ID... : run thorough tier of each, one line summary each
cd "$(dirname "$0")/.."
for id in "$@"; do
  t0=$(date +%s); out=$(./check $id --tier thorough 2>/dev/null); rc=$?; t1=$(date +%s)
  echo "$id rc=$rc $((t1-t0))s | $(echo "$out" | grep "^$id tier" | cut -c1-140)"
  echo "$out" | grep -E "^VIOLATION|^  sub_check|^  detail|^HARNESS" | cut -c1-400
done
