#!/bin/bash
# tools/run_all.sh [tier] [seed...] : runs every registered check, prints one line per check.
cd "$(dirname "$0")/.."
TIER="${1:-quick}"; shift
SEEDS="${@:-1}"
IDS=$(/venv/bin/python -c "import json;print(' '.join(c['property_id'] for c in json.load(open('MANIFEST.json'))['checks']))")
for s in $SEEDS; do for id in $IDS; do
  t0=$(date +%s); out=$(VERIF_SEED=$s ./check $id --tier $TIER 2>/dev/null); rc=$?; t1=$(date +%s)
  echo "seed=$s $id rc=$rc $((t1-t0))s $(echo "$out" | grep -c '^VIOLATION') violations, $(echo "$out" | grep -c '^KNOWN-FINDING') known | $(echo "$out" | grep "^$id tier" | cut -c1-120)"
done; done
