#!/venv/bin/python
"""Sensitivity helper: apply ONE textual mutation to a scratch copy of qkeras and run checks against it.
usage: tools/mutate.py <relfile> <old> <new> <ID>[,<ID>...] [--workers N] [--occurrence K]
Prints per check: exit code and VIOLATION lines. Scratch copy is removed afterwards."""
import os, shutil, subprocess, sys, tempfile
def main():
  a = sys.argv[1:]
  workers = "8"; occ = None
  if "--workers" in a:
    i = a.index("--workers"); workers = a[i+1]; del a[i:i+2]
  if "--occurrence" in a:
    i = a.index("--occurrence"); occ = int(a[i+1]); del a[i:i+2]
  rel, old, new, ids = a[0], a[1], a[2], a[3].split(",")
  d = tempfile.mkdtemp(prefix="mut_", dir="/tmp")
  try:
    shutil.copytree("/repo/qkeras", os.path.join(d, "qkeras"))
    p = os.path.join(d, rel)
    s = open(p).read()
    n = s.count(old)
    if n == 0: print("MUTATE: pattern not found"); return 3
    if n > 1 and occ is None: print("MUTATE: pattern occurs %d times; give --occurrence" % n); return 3
    if occ is None: s = s.replace(old, new)
    else:
      parts = s.split(old); s = old.join(parts[:occ+1]) + new + old.join(parts[occ+1:])
    open(p, "w").write(s)
    rc_all = 0
    for pid in ids:
      env = dict(os.environ, VERIF_REPO=d)
      r = subprocess.run(["/verif/check", pid, "--tier", "quick", "--workers", workers], env=env, capture_output=True, text=True)
      lines = [l for l in r.stdout.splitlines() if l.startswith(("VIOLATION", "  sub_check", "  detail", "HARNESS", pid+" tier"))]
      print("== %s exit=%d" % (pid, r.returncode)); print("\n".join(lines[:12]))
  finally:
    shutil.rmtree(d, ignore_errors=True)
main()
