"""Reference converter for `model_quantize` (property C12).

An independent restatement of the documented conversion rules (docstring of
`qkeras.utils.model_quantize`, its per-class comments, DESIGN.md 5/C12).  It
works on the *model description* of vf/gen/kmodels.py and the dictionary, never
on the library's JSON rewriting, and never calls `model_quantize`.

`plan(desc, qdict, activation_bits, prefer_adaptive)` returns, per layer name,
what the converted layer must be:

  {"src_cls": ..., "cls": expected class name, "selected": bool,
   "by": "name" | "class" | None        (which entry decided),
   "roles": {constructor keyword: quantizer string or None},
   "activation": ("configured"|"auto"|"untouched", value),
   "recurrent_activation": (...)  (LSTM / GRU only),
   "inner": plan of the wrapped layer (Bidirectional only)}

`ref_layer(ld, p)` then builds the expected layer by calling the target Q-layer
class *directly* with the configured strings; the expected quantizer strings
are whatever that object prints.

Rules.  `lookup(name, Q, key)`: the entry under the layer's name if the name is
a key of the dictionary, otherwise the entry under the class key Q; then the
role `key` inside that entry (a name entry therefore hides the class entry
completely).
  Dense / Conv1D / Conv2D    -> Q<C> iff kernel_quantizer is found.
  DepthwiseConv2D            -> QDepthwiseConv2D iff depthwise_quantizer found.
  SeparableConv1D / 2D       -> QSeparableConv* iff depthwise_quantizer and
                                pointwise_quantizer found.
  SimpleRNN / LSTM / GRU     -> Q<C> iff kernel_quantizer found; recurrent,
                                bias, state roles; LSTM/GRU also
                                recurrent_activation_quantizer.
  Bidirectional              -> QBidirectional iff the entry of the wrapper
                                (its name, else "QBidirectional") has
                                kernel_quantizer; that entry is used for both
                                directions, also for an explicitly supplied
                                backward_layer (own name, maybe own class).
  bias role                  -> None when use_bias is False.
  activation of those layers -> activation_quantizer if found, else
                                relu/tanh/sigmoid ->
                                quantized_relu|tanh|sigmoid(activation_bits),
                                anything else untouched (exact names only:
                                hard_sigmoid, leaky_relu, relu6 ... stay).
  Activation                 -> QActivation / QAdaptiveActivation iff the entry
                                is a string or a map containing the layer's
                                activation.  The entry is looked up for the
                                preferred class first (QActivation unless
                                prefer_qadaptiveactivation), then for the other.
  ReLU / LeakyReLU           -> QActivation iff the "QActivation" lookup is a
                                string or a map with key "leakyrelu" (negative
                                slope > 0) / "relu".
  BatchNormalization         -> QBatchNormalization iff its name or
                                "QBatchNormalization" is a key; gamma / beta /
                                mean / variance roles.
  AveragePooling2D, GlobalAveragePooling2D -> Q<C> iff average_quantizer found.
  everything else, and every layer without a deciding entry: unchanged.
"""
import re

Q_OF = {
    "Dense": "QDense", "Conv1D": "QConv1D", "Conv2D": "QConv2D",
    "DepthwiseConv2D": "QDepthwiseConv2D",
    "SeparableConv1D": "QSeparableConv1D",
    "SeparableConv2D": "QSeparableConv2D",
    "SimpleRNN": "QSimpleRNN", "LSTM": "QLSTM", "GRU": "QGRU",
    "Bidirectional": "QBidirectional",
    "BatchNormalization": "QBatchNormalization",
    "AveragePooling2D": "QAveragePooling2D",
    "GlobalAveragePooling2D": "QGlobalAveragePooling2D",
}

AUTO = {"relu": "quantized_relu", "tanh": "quantized_tanh",
        "sigmoid": "quantized_sigmoid"}


def find_entry(qd, name, qcls):
  """(entry, 'name'|'class'|None)."""
  if name in qd:
    return qd[name], "name"
  if qcls in qd:
    return qd[qcls], "class"
  return None, None


def _role(entry, key):
  if entry is None:
    return None
  return entry.get(key)


def _activation(entry, src_act, bits):
  """Expected activation of a converted weight layer."""
  conf = _role(entry, "activation_quantizer")
  if conf:
    return ("configured", conf)
  if src_act in AUTO:
    return ("auto", "%s(%d)" % (AUTO[src_act], bits))
  return ("untouched", src_act)


def _unchanged(ld):
  return {"src_cls": ld["cls"], "cls": ld["cls"], "selected": False,
          "by": None, "roles": {}}


def _plan_rnn(ld, entry, by, bits):
  cls, kw = ld["cls"], ld["kw"]
  if not _role(entry, "kernel_quantizer"):
    return _unchanged(ld)
  roles = {"kernel_quantizer": entry["kernel_quantizer"],
           "recurrent_quantizer": _role(entry, "recurrent_quantizer"),
           "bias_quantizer": (_role(entry, "bias_quantizer")
                              if kw.get("use_bias", True) else None),
           "state_quantizer": _role(entry, "state_quantizer")}
  p = {"src_cls": cls, "cls": Q_OF[cls], "selected": True, "by": by,
       "roles": roles,
       "activation": _activation(entry, kw.get("activation", "tanh"), bits)}
  if cls in ("LSTM", "GRU"):
    ra = _role(entry, "recurrent_activation_quantizer")
    p["recurrent_activation"] = (
        ("configured", ra) if ra else
        ("untouched", kw.get("recurrent_activation", "sigmoid")))
  return p


def plan_layer(ld, qd, bits, prefer_adaptive=False):
  cls, kw, name = ld["cls"], ld["kw"], ld["name"]

  if cls in ("Dense", "Conv1D", "Conv2D", "DepthwiseConv2D"):
    entry, by = find_entry(qd, name, Q_OF[cls])
    main = "depthwise_quantizer" if cls == "DepthwiseConv2D" else (
        "kernel_quantizer")
    if not _role(entry, main):
      return _unchanged(ld)
    roles = {main: entry[main],
             "bias_quantizer": (_role(entry, "bias_quantizer")
                                if kw.get("use_bias", True) else None)}
    return {"src_cls": cls, "cls": Q_OF[cls], "selected": True, "by": by,
            "roles": roles,
            "activation": _activation(entry, kw.get("activation"), bits)}

  if cls in ("SeparableConv1D", "SeparableConv2D"):
    entry, by = find_entry(qd, name, Q_OF[cls])
    if not (_role(entry, "depthwise_quantizer") and
            _role(entry, "pointwise_quantizer")):
      return _unchanged(ld)
    roles = {"depthwise_quantizer": entry["depthwise_quantizer"],
             "pointwise_quantizer": entry["pointwise_quantizer"],
             "bias_quantizer": (_role(entry, "bias_quantizer")
                                if kw.get("use_bias", True) else None)}
    return {"src_cls": cls, "cls": Q_OF[cls], "selected": True, "by": by,
            "roles": roles,
            "activation": _activation(entry, kw.get("activation"), bits)}

  if cls in ("SimpleRNN", "LSTM", "GRU"):
    entry, by = find_entry(qd, name, Q_OF[cls])
    return _plan_rnn(ld, entry, by, bits)

  if cls == "Bidirectional":
    entry, by = find_entry(qd, name, "QBidirectional")
    inner = _plan_rnn(kw["layer"], entry, by, bits)
    if not inner["selected"]:
      return _unchanged(ld)
    p = {"src_cls": cls, "cls": "QBidirectional", "selected": True,
         "by": by, "roles": {}, "inner": inner}
    if kw.get("backward_layer"):
      # an explicit backward layer is converted with the same entry
      p["inner_bw"] = _plan_rnn(kw["backward_layer"], entry, by, bits)
    return p

  if cls == "Activation":
    order = ["QActivation", "QAdaptiveActivation"]
    if prefer_adaptive:
      order.reverse()
    entry, by, target = None, None, None
    for qcls in order:
      entry, by = find_entry(qd, name, qcls)
      if entry is not None:
        target = qcls
        break
    if entry is None:
      return _unchanged(ld)
    act = kw["activation"]
    if isinstance(entry, dict):
      q = entry.get(act)
      if not q:
        return _unchanged(ld)
    else:
      q = entry
    p = {"src_cls": cls, "cls": target, "selected": True, "by": by,
         "roles": {}, "quantizer": q}
    if target == "QAdaptiveActivation":
      m = re.match(r"^\s*(\w+)\s*\(\s*(\d+)\s*\)\s*$", q)
      if not m:
        raise ValueError("QAdaptiveActivation entry outside the documented "
                         "form <name>(<bits>): %r" % q)
      p["adaptive"] = (m.group(1), int(m.group(2)))
    return p

  if cls in ("ReLU", "LeakyReLU"):
    entry, by = find_entry(qd, name, "QActivation")
    if entry is None:
      return _unchanged(ld)
    if cls == "LeakyReLU":
      slope = kw.get("alpha", 0.3)
    else:
      slope = kw.get("negative_slope", 0.0)
    key = "leakyrelu" if slope > 0 else "relu"
    if isinstance(entry, dict):
      q = entry.get(key)
      if not q:
        return _unchanged(ld)
    else:
      q = entry
    return {"src_cls": cls, "cls": "QActivation", "selected": True, "by": by,
            "roles": {}, "quantizer": q, "relu_key": key}

  if cls == "BatchNormalization":
    entry, by = find_entry(qd, name, "QBatchNormalization")
    if entry is None:
      return _unchanged(ld)
    roles = {k: _role(entry, k) for k in (
        "gamma_quantizer", "beta_quantizer", "mean_quantizer",
        "variance_quantizer")}
    return {"src_cls": cls, "cls": "QBatchNormalization", "selected": True,
            "by": by, "roles": roles}

  if cls in ("AveragePooling2D", "GlobalAveragePooling2D"):
    entry, by = find_entry(qd, name, Q_OF[cls])
    if not _role(entry, "average_quantizer"):
      return _unchanged(ld)
    conf = _role(entry, "activation_quantizer")
    return {"src_cls": cls, "cls": Q_OF[cls], "selected": True, "by": by,
            "roles": {"average_quantizer": entry["average_quantizer"]},
            "activation": (("configured", conf) if conf else
                           ("untouched", None))}

  return _unchanged(ld)


def plan(desc, qd, bits, prefer_adaptive=False):
  return {ld["name"]: plan_layer(ld, qd, bits, prefer_adaptive)
          for ld in desc["layers"]}


def contested(ld, qd):
  """True when the layer has a name entry AND a differing class entry, i.e.
  the precedence rule decides the outcome."""
  name = ld["name"]
  if name not in qd:
    return False
  if ld["cls"] in Q_OF:
    keys = [Q_OF[ld["cls"]]]
  elif ld["cls"] == "Activation":
    keys = ["QActivation", "QAdaptiveActivation"]
  elif ld["cls"] in ("ReLU", "LeakyReLU"):
    keys = ["QActivation"]
  else:
    return False
  return any(k in qd and qd[k] != qd[name] for k in keys)


# --------------------------------------------------------------------------
# expected layer objects, built directly from the target classes


def _tuples(kw):
  out = {}
  for k, v in kw.items():
    if k in ("kernel_size", "strides", "dilation_rate", "pool_size") and (
        isinstance(v, list)):
      v = tuple(v)
    out[k] = v
  return out


DERIVED_SUFFIX = ("_initializer", "_regularizer", "_constraint")


def _carry(args, src_cfg):
  """Initializers / regularizers / constraints are hyper-parameters of the
  source layer (its Keras-class defaults differ from the Q-class defaults);
  the Q class may wrap them (Clip, QInitializer), so the reference layer is
  given the source values and asked what it makes of them."""
  if not src_cfg:
    return
  for k, v in src_cfg.items():
    if k.endswith(DERIVED_SUFFIX) and k not in args:
      args[k] = v


def _ref_rnn(ld, p, name, src_cfg=None):
  import qkeras  # pylint: disable=g-import-not-at-top
  kw = _tuples(ld["kw"])
  kw.pop("activation", None)
  kw.pop("recurrent_activation", None)
  args = dict(kw)
  args.update(p["roles"])
  args["activation"] = p["activation"][1]
  if "recurrent_activation" in p:
    args["recurrent_activation"] = p["recurrent_activation"][1]
  _carry(args, src_cfg)
  return getattr(qkeras, p["cls"])(name=name, **args)


def ref_layer(ld, p, src_cfg=None, inner_src_cfg=None, input_shape=None,
              bw_src_cfg=None):
  """The layer the documented rules ask for, constructed from the target
  class with the configured strings (never through model_quantize).

  src_cfg: get_config() of the *source* layer, used only for its
  initializer / regularizer / constraint hyper-parameters."""
  import qkeras  # pylint: disable=g-import-not-at-top
  assert p["selected"]
  cls = p["cls"]
  name = ld["name"]
  if cls in ("QActivation",):
    return qkeras.QActivation(p["quantizer"], name=name)
  if cls == "QAdaptiveActivation":
    lay = qkeras.QAdaptiveActivation(p["adaptive"][0],
                                     total_bits=p["adaptive"][1], name=name)
    if input_shape is not None:
      lay.build(tuple(input_shape))   # the quantizer gets its bits in build()
    return lay
  if cls == "QBidirectional":
    inner_ld = ld["kw"]["layer"]
    inner = _ref_rnn(inner_ld, p["inner"], inner_ld["name"], inner_src_cfg)
    kw = {k: v for k, v in ld["kw"].items()
          if k not in ("layer", "backward_layer")}
    if "inner_bw" in p:
      bw_ld = ld["kw"]["backward_layer"]
      kw["backward_layer"] = _ref_rnn(bw_ld, p["inner_bw"], bw_ld["name"],
                                      bw_src_cfg)
    return qkeras.QBidirectional(inner, name=name, **kw)
  if cls in ("QSimpleRNN", "QLSTM", "QGRU"):
    return _ref_rnn(ld, p, name, src_cfg)
  kw = _tuples(ld["kw"])
  kw.pop("activation", None)
  args = dict(kw)
  args.update(p["roles"])
  if "activation" in p:
    args["activation"] = p["activation"][1]
  _carry(args, src_cfg)
  return getattr(qkeras, cls)(name=name, **args)
