"""Exact value lattices of the qtools data types (shared by C16 and C17).

Everything here is exact: values are `fractions.Fraction`s (every value of
every type is a dyadic rational) or Python integers scaled by a power of two.
Nothing in this file calls qtools arithmetic: the lattices are re-derived from
the documentation of the types

  fixed point    k * 2^-(bits - sign - int_bits), k a two's-complement code of
                 `bits` bits (signed) or an unsigned code of `bits` bits
  power of two   +-2^e; the exponent uses bits - sign bits, one of which is the
                 exponent's own sign: e in [-2^(n-1), 2^(n-1) - 1]  (docstring of
                 multiplier_impl.Shifter); `max_val_po2` caps the magnitude
  ternary        {-1, 0, +1};   binary {-1, +1};   binary(use_01) {0, 1}
  floating point every real that matters here (membership is never denied)

A *type description* (JSON, the thing cases are made of) is one of

  {"k": "fixed",  "bits": b, "int": i, "signed": 0|1, "via": ..., ["q": name]}
  {"k": "po2",    "bits": b, "signed": 0|1, "max": null | c, ["mv": v], "via": ...}
        max = null  -> max_val_po2 = -1 (no cap);  c -> max_val_po2 = 2.0**c;
        mv = v (with max = null) -> max_val_po2 = v, a number that is NOT a
        power of two; the type then holds magnitudes up to 2^round(log2 v)
        (the qkeras quantizers clip |x| to max_value and then round log2)
  {"k": "ternary", "via": ..., ["q": "ternary"|"stochastic_ternary"]}
  {"k": "binary",  "via": ..., ["q": "binary"|"stochastic_binary"]}
  {"k": "binary01","via": ..., ["q": "binary"|"bernoulli"]}
  {"k": "float",  "bits": 32|16, "via": ...}

"via" = "impl": the quantizer_impl class is constructed and its fields set
directly;  "via" = "factory": a qkeras quantizer object (or factory string) is
converted by QuantizerFactory().make_quantizer (so convert_qkeras_quantizer is
part of the code under test).  "q" names the qkeras class used by the factory
route when there is a choice.
"""
from fractions import Fraction as Fr
import math

ONE = Fr(1)


def p2(e):
  """2**e as a Fraction, any integer e."""
  e = int(e)
  return Fr(2 ** e) if e >= 0 else Fr(1, 2 ** (-e))


def is_pow2(v):
  """True iff Fraction v > 0 is an integer power of two."""
  if v <= 0:
    return False
  n, d = v.numerator, v.denominator
  return (n & (n - 1)) == 0 and (d & (d - 1)) == 0 and (n == 1 or d == 1)


def log2_exact(v):
  assert is_pow2(v)
  return (v.numerator.bit_length() - 1) - (v.denominator.bit_length() - 1)


def floor_log2(v):
  """largest e with 2^e <= v (v > 0 Fraction)."""
  e = v.numerator.bit_length() - v.denominator.bit_length()
  while p2(e) > v:
    e -= 1
  while p2(e + 1) <= v:
    e += 1
  return e


def ceil_log2(v):
  """smallest e with 2^e >= v (v > 0 Fraction)."""
  e = floor_log2(v)
  return e if p2(e) == v else e + 1


def round_log2(v):
  """round-to-nearest of log2(v) for a positive Fraction, decided exactly:
  frac(log2 v) >= 1/2  <=>  v^2 >= 2^(2*floor+1)  (equality is impossible for
  a rational v).  This is how quantized_po2 / quantized_relu_po2 apply a
  max_value: |x| is clipped to max_value, then log2 is rounded."""
  f = floor_log2(v)
  return f + 1 if v * v >= p2(2 * f + 1) else f


def dyadic_gcd(vals):
  """gcd of a list of dyadic Fractions (largest g with every v/g integer)."""
  vals = [abs(v) for v in vals if v != 0]
  if not vals:
    return None
  den = 1
  for v in vals:
    den = max(den, v.denominator)
  g = 0
  for v in vals:
    g = math.gcd(g, int(v * den))
  return Fr(g, den)


# --------------------------------------------------------------------------
# lattices


class Lat(object):
  kind = "?"
  finite = True

  def contains(self, v):
    raise NotImplementedError

  def why_not(self, v):
    """clause name describing why v is not a member (None if it is)."""
    raise NotImplementedError

  def contains_scaled(self, p, sc):
    """membership of the integer p * 2^-sc (fast path of the brute force)."""
    return self.contains(Fr(p, 1 << sc) if sc >= 0 else Fr(p * (1 << -sc)))


class FixedLat(Lat):
  kind = "fixed"

  def __init__(self, bits, int_bits, signed):
    bits, int_bits, signed = int(bits), int(int_bits), int(bool(signed))
    if bits < 1:
      raise ValueError("fixed type with bits < 1: %r" % bits)
    self.bits, self.int_bits, self.signed = bits, int_bits, signed
    self.frac = bits - signed - int_bits
    self.step = p2(-self.frac)
    if signed:
      self.kmin, self.kmax = -(1 << (bits - 1)), (1 << (bits - 1)) - 1
    else:
      self.kmin, self.kmax = 0, (1 << bits) - 1
    self.vmin, self.vmax = self.kmin * self.step, self.kmax * self.step
    self.gran = self.step     # kmax > kmin always (bits >= 1)
    self.size = self.kmax - self.kmin + 1

  def contains(self, v):
    q = v / self.step
    return q.denominator == 1 and self.kmin <= q <= self.kmax

  def why_not(self, v):
    q = v / self.step
    if q.denominator != 1:
      return "off_grid"
    if q < self.kmin:
      return "below_min"
    if q > self.kmax:
      return "above_max"
    return None

  def contains_scaled(self, p, sc):
    sh = sc - self.frac        # p*2^-sc / 2^-frac = p * 2^(frac-sc)
    if sh > 0:
      if p & ((1 << sh) - 1):
        return False
      k = p >> sh
    else:
      k = p << (-sh)
    return self.kmin <= k <= self.kmax

  def values(self):
    return [k * self.step for k in range(self.kmin, self.kmax + 1)]

  def extremes(self):
    ks = {self.kmin, self.kmin + 1, self.kmax, self.kmax - 1, 0, 1, -1,
          (self.kmin + self.kmax) // 2}
    return sorted(k * self.step for k in ks if self.kmin <= k <= self.kmax)

  def most_negative(self):
    return self.vmin if self.signed else None

  def describe(self):
    return "fixed(bits=%d,int=%d,%s) step=%s [%s,%s]" % (
        self.bits, self.int_bits, "s" if self.signed else "u", self.step,
        self.vmin, self.vmax)


class Po2Lat(Lat):
  """+-2^e, e in [emin, emax]; `zero` = zero counts as a member (convention
  used for *output* types only, see DESIGN C16 decision (ii))."""
  kind = "po2"

  def __init__(self, signed, emin, emax, zero=False):
    self.signed, self.emin, self.emax, self.zero = int(bool(signed)), int(emin), int(emax), zero
    if self.emax < self.emin:
      raise ValueError("empty po2 lattice")
    self.vmax = p2(self.emax)
    self.vmin = -self.vmax if self.signed else p2(self.emin)
    n = self.emax - self.emin + 1
    self.size = n * (2 if self.signed else 1)
    if self.size == 1:
      self.gran = None
    else:
      self.gran = p2(self.emin) if n > 1 else 2 * p2(self.emin)

  def contains(self, v):
    return self.why_not(v) is None

  def why_not(self, v):
    if v == 0:
      return None if self.zero else "zero"
    if v < 0 and not self.signed:
      return "sign"
    a = abs(v)
    if not is_pow2(a):
      return "not_po2"
    e = log2_exact(a)
    if e < self.emin:
      return "exp_below"
    if e > self.emax:
      return "exp_above"
    return None

  def contains_scaled(self, p, sc):
    if p == 0:
      return self.zero
    if p < 0:
      if not self.signed:
        return False
      p = -p
    if p & (p - 1):
      return False
    e = p.bit_length() - 1 - sc
    return self.emin <= e <= self.emax

  def values(self):
    pos = [p2(e) for e in range(self.emin, self.emax + 1)]
    return ([-v for v in reversed(pos)] if self.signed else []) + pos

  def extremes(self):
    es = {self.emin, self.emin + 1, self.emax, self.emax - 1, 0}
    pos = [p2(e) for e in sorted(es) if self.emin <= e <= self.emax]
    return ([-v for v in reversed(pos)] if self.signed else []) + pos

  def most_negative(self):
    return self.vmin if self.signed else None

  def describe(self):
    return "po2(%s) e in [%d,%d]%s" % ("s" if self.signed else "u", self.emin,
                                       self.emax, " +0" if self.zero else "")


class SetLat(Lat):
  def __init__(self, kind, vals):
    self.kind = kind
    self.vals = sorted(Fr(v) for v in vals)
    self.vset = set(self.vals)
    self.vmin, self.vmax = self.vals[0], self.vals[-1]
    self.signed = int(self.vmin < 0)
    self.size = len(self.vals)
    self.gran = dyadic_gcd([b - a for a, b in zip(self.vals, self.vals[1:])])

  def contains(self, v):
    return v in self.vset

  def why_not(self, v):
    return None if v in self.vset else "not_in_set"

  def values(self):
    return list(self.vals)

  def extremes(self):
    return list(self.vals)

  def most_negative(self):
    return self.vmin if self.vmin < 0 else None

  def describe(self):
    return "%s{%s}" % (self.kind, ",".join(str(v) for v in self.vals))


class FloatLat(Lat):
  kind = "float"
  finite = False

  def __init__(self, bits=32):
    self.bits = bits

  def contains(self, v):
    return True

  def why_not(self, v):
    return None

  def contains_scaled(self, p, sc):
    return True

  def describe(self):
    return "float%s" % self.bits


def ternary_lat():
  return SetLat("ternary", [-1, 0, 1])


def binary_lat(use_01=False, with_zero=False):
  if use_01:
    return SetLat("binary01", [0, 1])
  return SetLat("binary", [-1, 0, 1] if with_zero else [-1, 1])


def po2_exponent_bits(bits, signed):
  n = int(bits) - int(bool(signed))
  if n < 1:
    raise ValueError("po2 type without exponent bits")
  return n


def po2_operand_lat(bits, signed, max_val):
  """Values a po2 type can hold: exponent field range cut at max_val
  (max_val: None / -1 = no cap, else a positive Fraction)."""
  n = po2_exponent_bits(bits, signed)
  emin, emax = -(1 << (n - 1)), (1 << (n - 1)) - 1
  if max_val is not None and max_val != -1:
    if max_val <= 0:
      raise ValueError("po2 cap <= 0 holds no value")
    # clip-then-round: the largest magnitude is 2^round(log2(max_val)); for a
    # power-of-two cap this is the cap itself (decision (i))
    emax = min(emax, round_log2(Fr(max_val)))
  return Po2Lat(signed, emin, emax)


def po2_output_lat(bits, signed, max_val):
  """Exponent interval that the reported fields (bits, is_signed,
  max_val_po2) of an *output* type encode: the exponent field range, the cap
  rounded up to the next power of two and never below 2^0 (qtools sizes
  integer bits from it); zero counts as representable."""
  n = po2_exponent_bits(bits, signed)
  emin, emax = -(1 << (n - 1)), (1 << (n - 1)) - 1
  if max_val is not None and max_val != -1:
    cap = 0 if max_val <= 0 else ceil_log2(Fr(max_val))
    emax = max(0, min(emax, cap))
  return Po2Lat(signed, emin, emax, zero=True)


# --------------------------------------------------------------------------
# lattice of a type description (operand role, independent of the code)


def desc_lat(d):
  k = d["k"]
  if k == "fixed":
    return FixedLat(d["bits"], d["int"], d["signed"])
  if k == "po2":
    return po2_operand_lat(d["bits"], d["signed"], desc_cap(d))
  if k == "ternary":
    return ternary_lat()
  if k == "binary":
    return binary_lat(False)
  if k == "binary01":
    return binary_lat(True)
  if k == "float":
    return FloatLat(d.get("bits", 32))
  raise ValueError("unknown type kind %r" % (k,))


def desc_cap(d):
  """max_val_po2 of a po2 description as a Fraction, None = no cap.
  "max": c -> 2^c;  "mv": v -> the (non power-of-two) number v."""
  if d.get("mv") is not None:
    return Fr(d["mv"])
  return None if d.get("max") is None else p2(d["max"])


def desc_kind(d):
  """Operand kind in the sense of the make_multiplier table."""
  return d["k"]


def desc_sign(d):
  k = d["k"]
  if k in ("fixed", "po2"):
    return int(d["signed"])
  return {"ternary": 1, "binary": 1, "binary01": 0, "float": 1}[k]


def desc_label(d):
  k = d["k"]
  if k in ("fixed", "po2"):
    k += "_s" if d["signed"] else "_u"
  q = d.get("q")
  if (k == "fixed_u" and d["bits"] == 1 and d["int"] == 1 and
      d.get("via") == "factory" and q in (None, "quantized_relu")):
    return "fixed_u:relu11"     # the factory routes it as binary(0,1)
  if q and q not in ("quantized_bits", "quantized_relu", "quantized_po2",
                     "quantized_relu_po2", "ternary", "binary"):
    k += ":" + q
  return k


def desc_bits(d):
  return int(d.get("bits", {"ternary": 2, "binary": 1, "binary01": 1}.get(d["k"], 0)))


# --------------------------------------------------------------------------
# building the qtools objects from a description (code under test from here)


def build(d):
  """type description -> quantizer_impl.IQuantizer."""
  from qkeras.qtools.quantized_operators import quantizer_impl as QI  # pylint: disable=g-import-not-at-top
  via = d.get("via", "impl")
  k = d["k"]
  if via == "impl":
    if k == "fixed":
      if d["signed"]:
        q = QI.QuantizedBits()
      else:
        q = QI.QuantizedRelu()
        q.mode = 0
      q.bits, q.int_bits, q.is_signed = int(d["bits"]), int(d["int"]), int(d["signed"])
      return q
    if k == "po2":
      q = QI.PowerOfTwo(is_signed=True) if d["signed"] else QI.ReluPowerOfTwo()
      q.bits = q.int_bits = int(d["bits"])
      cap = desc_cap(d)
      q.max_val_po2 = -1 if cap is None else float(cap)
      return q
    if k == "ternary":
      return QI.Ternary()
    if k == "binary":
      return QI.Binary(use_01=False)
    if k == "binary01":
      return QI.Binary(use_01=True)
    if k == "float":
      return QI.FloatingPoint(bits=int(d.get("bits", 32)))
    raise ValueError(k)

  # factory route
  from qkeras import quantizers as Q  # pylint: disable=g-import-not-at-top
  from qkeras.qtools.quantized_operators import quantizer_factory  # pylint: disable=g-import-not-at-top
  qn = d.get("q")
  if k == "fixed":
    b, i, s = int(d["bits"]), int(d["int"]), int(d["signed"])
    qn = qn or ("quantized_bits" if s else "quantized_relu")
    if qn == "quantized_bits":
      src = Q.quantized_bits(b, i, keep_negative=bool(s),
                             symmetric=int(d.get("symmetric", 0)))
    elif qn == "quantized_relu":
      assert not s
      src = Q.quantized_relu(b, i)
    elif qn == "quantized_relu_leaky":
      assert s
      src = Q.quantized_relu(b, i, negative_slope=0.25)
    elif qn == "quantized_ulaw":
      assert s
      src = Q.quantized_ulaw(b, i)
    elif qn == "quantized_tanh":
      assert s and i == 0
      src = Q.quantized_tanh(b)
    elif qn in ("int8", "int16"):
      src = qn
    else:
      raise ValueError(qn)
  elif k == "po2":
    mv = None if desc_cap(d) is None else float(desc_cap(d))
    if d["signed"]:
      src = Q.quantized_po2(int(d["bits"]), max_value=mv)
    else:
      src = Q.quantized_relu_po2(int(d["bits"]), max_value=mv)
  elif k == "ternary":
    src = Q.stochastic_ternary() if qn == "stochastic_ternary" else Q.ternary()
  elif k == "binary":
    src = Q.stochastic_binary() if qn == "stochastic_binary" else Q.binary(use_01=False)
  elif k == "binary01":
    src = Q.bernoulli() if qn == "bernoulli" else Q.binary(use_01=True)
  elif k == "float":
    src = "fp16" if int(d.get("bits", 32)) == 16 else "fp32"
  else:
    raise ValueError(k)
  return quantizer_factory.QuantizerFactory().make_quantizer(src)


# --------------------------------------------------------------------------
# lattice encoded by the *reported fields* of a qtools quantizer object


def fields(q):
  """JSON-able snapshot of the fields that define a qtools type."""
  mv = getattr(q, "max_val_po2", -1)
  try:
    mv = float(mv)
  except Exception:  # pylint: disable=broad-except
    mv = repr(mv)
  return {"cls": type(q).__name__, "name": q.name, "mode": int(q.mode),
          "bits": _num(q.bits), "int_bits": _num(q.int_bits),
          "is_signed": int(bool(q.is_signed)),
          "is_po2": int(bool(getattr(q, "is_po2", 0))),
          "is_fp": int(bool(q.is_floating_point)), "max_val_po2": mv}


def _num(v):
  try:
    f = float(v)
    return int(f) if f == int(f) else f
  except Exception:  # pylint: disable=broad-except
    return repr(v)


def obj_kind(q):
  """Kind of a reported type, by the fields downstream qtools code dispatches
  on (is_floating_point, is_po2 / mode)."""
  if q.is_floating_point:
    return "float"
  if getattr(q, "is_po2", 0) or q.mode == 1:
    return "po2"
  return {0: "fixed", 2: "ternary", 3: "binary", 4: "binary01",
          5: "float"}.get(q.mode, "fixed")


def obj_lat(q, role):
  """Value lattice encoded by the reported fields of `q`.

  role "output":  membership test for a result type (po2: exponent interval
                  the fields encode, zero allowed);
  role "operand": the values the type can hold when it is fed into the next
                  operator (po2: cut at max_val_po2).
  Ternary / binary kinds are judged by their value set (decision (iii)).
  """
  k = obj_kind(q)
  if k == "float":
    return FloatLat(q.bits)
  if k == "po2":
    mv = Fr(float(q.max_val_po2))
    mv = None if mv == -1 else mv
    if role == "output":
      return po2_output_lat(q.bits, q.is_signed, mv)
    if mv is not None and mv <= 0:
      mv = None
    return po2_operand_lat(q.bits, q.is_signed, mv)
  if k == "ternary":
    return ternary_lat()
  if k == "binary":
    return binary_lat(False, with_zero=(role == "output"))
  if k == "binary01":
    if type(q).__name__ in ("Binary", "Bernoulli"):
      return binary_lat(True)
    return FixedLat(q.bits, q.int_bits, q.is_signed)
  return FixedLat(q.bits, q.int_bits, q.is_signed)


# --------------------------------------------------------------------------
# operand objects with a HISTORY (C16 part H): a qtools type object is created
# as one type, looked at through the public read-only API, re-sized to another
# type, possibly looked at again, and only then handed to an operator factory.
#
# history description (JSON):
#   {"start": <type description of the same kind family>,
#    "pre":  [op, ...], "post": [op, ...],          observation ops, see OPS
#    "resize": "assign" | "convert" | "update",
#    "upd": {"neg": 0|1, "e": int, "reset": 0|1}}   only for "update"
# resize routes
#   assign   the public fields (bits, int_bits, is_signed, max_val_po2, name,
#            mode / use_01) are re-assigned directly (what qtools itself does to
#            operator output types before they become the next operand)
#   convert  obj.convert_qkeras_quantizer(<qkeras quantizer of the target>)
#   update   PowerOfTwo.update_quantizer(+-2^e, reset): the target type is then
#            whatever the reported fields say afterwards (desc_from_fields)

OPS = ("exp", "acc", "qk", "mul", "clone", "copy", "inf", "fields")


def apply_ops(q, ops):
  """observation ops of the public API; "clone"/"copy" continue with the copy."""
  import copy  # pylint: disable=g-import-not-at-top
  import numpy as np  # pylint: disable=g-import-not-at-top
  from qkeras.qtools.quantized_operators import accumulator_impl  # pylint: disable=g-import-not-at-top
  from qkeras.qtools.quantized_operators import multiplier_factory  # pylint: disable=g-import-not-at-top
  from qkeras.qtools.quantized_operators import quantizer_factory  # pylint: disable=g-import-not-at-top
  from qkeras.qtools.quantized_operators import quantizer_impl as QI  # pylint: disable=g-import-not-at-top
  for op in ops:
    if op == "exp":
      if hasattr(q, "get_min_max_exp"):
        q.get_min_max_exp()
    elif op == "acc":
      if hasattr(q, "get_min_max_exp"):
        accumulator_impl.po2_to_qbits(q)
    elif op == "qk":
      if not q.is_floating_point:
        q.convert_to_qkeras_quantizer()
    elif op == "mul":
      p = QI.QuantizedBits()
      p.bits, p.int_bits, p.is_signed = 4, 1, 1
      mf = multiplier_factory.MultiplierFactory()
      mf.make_multiplier(q, p)
      mf.make_multiplier(p, q)
    elif op == "clone":
      q = quantizer_factory.QuantizerFactory().make_quantizer(q)
    elif op == "copy":
      q = copy.deepcopy(q)
    elif op == "inf":
      if hasattr(q, "update_inference_values"):
        q.update_inference_values(np.array([[0.5, 1.0], [1.0, 2.0]]))
    elif op == "fields":
      fields(q)
    else:
      raise ValueError("unknown history op %r" % (op,))
  return q


def history_ok(start, target, resize):
  """is the re-size route applicable (class of the start object accepts it)?"""
  ks, kt = start["k"], target["k"]
  fam = lambda k: "bin" if k in ("binary", "binary01") else k
  if fam(ks) != fam(kt) or fam(kt) not in ("fixed", "po2", "bin"):
    return False
  if target.get("q") or start.get("q") not in (None, "quantized_bits"):
    return False
  if resize == "update":
    return kt == "po2"
  if resize == "convert" and kt in ("fixed", "po2"):
    # QuantizedRelu / ReluPowerOfTwo only convert their own (unsigned)
    # quantizer; QuantizedBits (signed start, or an unsigned quantized_bits
    # through the factory) and PowerOfTwo convert both signs
    return bool(start["signed"]) or start.get("q") == "quantized_bits" or not target["signed"]
  return resize in ("assign", "convert")


def desc_from_fields(q):
  """type description encoded by the reported fields of a po2 object, None if
  the fields do not describe a well-formed type (cap <= 0 other than the
  documented -1 = no cap, cap below the smallest magnitude, or no exponent
  bit)."""
  if obj_kind(q) != "po2":
    raise ValueError("desc_from_fields: po2 only")
  bits, signed = int(q.bits), int(bool(q.is_signed))
  if bits != q.bits or bits - signed < 1:
    return None
  mv = float(q.max_val_po2)
  d = {"k": "po2", "bits": bits, "signed": signed, "max": None, "via": "impl"}
  if mv == -1:
    return d
  if mv <= 0:
    return None
  f = Fr(mv)
  if is_pow2(f):
    d["max"] = log2_exact(f)
  else:
    d["mv"] = mv
  if round_log2(f) < -(1 << (bits - signed - 1)):
    return None          # cap below the smallest exponent: no value left
  return d


def apply_history(target, hist):
  """-> (object, final target description or None when an "update" leaves the
  domain of well-formed types).  The "post" observations are NOT applied here
  (the caller first looks at the re-sized object, then calls apply_ops)."""
  start, resize = hist["start"], hist["resize"]
  q = apply_ops(build(start), hist.get("pre", ()))
  k = target["k"]
  if resize == "update":
    u = hist["upd"]
    val = float(p2(u["e"])) * (-1.0 if u["neg"] else 1.0)
    q.update_quantizer(val, reset=bool(u["reset"]))
    final = desc_from_fields(q)
  elif resize == "assign":
    if k == "fixed":
      q.bits, q.int_bits, q.is_signed = int(target["bits"]), int(target["int"]), int(target["signed"])
      q.mode = 0
    elif k == "po2":
      q.bits = q.int_bits = int(target["bits"])
      cap = desc_cap(target)
      q.max_val_po2 = -1 if cap is None else float(cap)
      q.is_signed = int(target["signed"])
      q.name = "quantized_po2" if target["signed"] else "quantized_relu_po2"
    else:
      u01 = k == "binary01"
      q.use_01, q.mode, q.is_signed = u01, (4 if u01 else 3), (0 if u01 else 1)
    final = dict(target, via="impl")
  elif resize == "convert":
    from qkeras import quantizers as Q  # pylint: disable=g-import-not-at-top
    if k == "fixed":
      b, i, s = int(target["bits"]), int(target["int"]), int(target["signed"])
      if type(q).__name__ == "QuantizedRelu":
        src = Q.quantized_relu(b, i)
      else:
        src = Q.quantized_bits(b, i, keep_negative=bool(s))
    elif k == "po2":
      mv = None if desc_cap(target) is None else float(desc_cap(target))
      src = (Q.quantized_po2 if target["signed"] else Q.quantized_relu_po2)(int(target["bits"]), max_value=mv)
    else:
      src = Q.binary(use_01=(k == "binary01"))
    q.convert_qkeras_quantizer(src)
    final = dict(target, via="factory")
  else:
    raise ValueError("unknown resize route %r" % (resize,))
  return q, final
