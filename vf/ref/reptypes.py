"""Value sets of the types that qtools *reports* (entries of
QTools._output_dict, i.e. the JSON a user gets), written from the documentation
of the report format:

  fixed point ("quantized_bits"/"quantized_relu"/... with bits, int_bits,
    is_signed): `bits` total bits, `int_bits` integer bits INCLUDING the sign
    bit (interface.populate_quantizer adds is_signed), so
    fraction bits f = bits - int_bits, values k * 2^-f with two's complement k:
    signed  k in [-2^(bits-1), 2^(bits-1)-1], unsigned k in [0, 2^bits-1].
  po2 (bits, is_signed, max_value): +-2^e; the exponent uses
    bits - is_signed bits of which one is the exponent sign, so
    e in [-2^(n-1), 2^(n-1)-1] (Shifter docstring), additionally
    e <= ceil(log2(max_value)) when max_value != -1 (quantized_po2 clips to
    max_value and then ROUNDS log2, so max_value=6 stores 8; get_exp documents
    the same ceil).  0 is accepted (no zero code exists, the library encodes 0
    with the smallest code).
  "values": explicit list (binary / ternary).
  floating point: everything fits.
"""
import numpy as np


def describe(rep):
  if rep is None:
    return "none"
  keys = ("quantizer_type", "bits", "int_bits", "is_signed", "max_value", "values")
  return ",".join("%s=%s" % (k, rep[k]) for k in keys if k in rep)


def kind(rep):
  if "values" in rep:
    return "values"
  if "max_value" in rep:
    return "po2"
  if "int_bits" in rep:
    return "fixed"
  return "float"


def fixed_params(rep):
  bits = int(rep["bits"])
  signed = int(bool(rep["is_signed"]))
  frac = bits - int(rep["int_bits"])
  if signed:
    kmin, kmax = -(2 ** (bits - 1)), 2 ** (bits - 1) - 1
  else:
    kmin, kmax = 0, 2 ** bits - 1
  return frac, kmin, kmax


def po2_params(rep):
  bits = int(rep["bits"])
  signed = int(bool(rep["is_signed"]))
  n = bits - signed
  emin, emax = -(2 ** (n - 1)), 2 ** (n - 1) - 1
  mv = rep.get("max_value", -1)
  return signed, emin, emax, (None if mv in (-1, None) else float(mv))


def violations(rep, values):
  """values: float64 array of exact values.  Returns list of
  (clause, flat_index, text); clause in {"step", "above", "below", "sign",
  "not_po2", "exp_low", "exp_high", "not_in_values"}; one entry per clause (the
  smallest offending |value| first)."""
  v = np.asarray(values, dtype=np.float64).reshape(-1)
  out = []
  if v.size == 0:
    return out
  k = kind(rep)

  def add(mask, clause, fmt):
    if mask.any():
      idx = np.nonzero(mask)[0]
      i = int(idx[np.argmin(np.abs(v[idx]))])
      out.append((clause, i, fmt(v[i]) + " n=%d" % int(mask.sum())))

  if k == "float":
    return out
  if k == "values":
    allowed = np.asarray(rep["values"], dtype=np.float64)
    bad = ~np.isin(v, allowed)
    add(bad, "not_in_values", lambda x: "value %r not in %r" % (x, rep["values"]))
    return out
  if k == "fixed":
    frac, kmin, kmax = fixed_params(rep)
    codes = np.ldexp(v, frac)          # exact scaling by a power of two
    off = codes != np.round(codes)
    add(off, "step", lambda x: "value %r is not a multiple of 2^-%d" % (x, frac))
    add(codes > kmax, "above",
        lambda x: "value %r > max %r" % (x, kmax * 2.0 ** -frac))
    add(codes < kmin, "below",
        lambda x: "value %r < min %r" % (x, kmin * 2.0 ** -frac))
    return out
  # po2
  signed, emin, emax, mv = po2_params(rep)
  nz = v != 0
  m, e = np.frexp(np.abs(v))
  ispo2 = (m == 0.5) | ~nz
  add(~ispo2, "not_po2", lambda x: "value %r is not a power of two" % x)
  ee = e - 1
  good = ispo2 & nz
  if not signed:
    add(good & (v < 0), "sign", lambda x: "negative value %r in unsigned po2" % x)
  add(good & (ee < emin), "exp_low",
      lambda x: "value %r = 2^%d below smallest exponent %d" %
      (x, int(np.log2(abs(x))), emin))
  hi = good & (ee > emax)
  if mv is not None and mv > 0:
    hi |= good & (ee > int(np.ceil(np.log2(mv))))
  add(hi, "exp_high", lambda x: "value %r above largest exponent %d / max_value %r"
      % (x, emax, mv))
  return out


def lowbit_exponent(values):
  """Smallest e such that every value is a multiple of 2^e (None if all 0)."""
  v = np.asarray(values, dtype=np.float64).reshape(-1)
  v = v[v != 0]
  if v.size == 0:
    return None
  m, e = np.frexp(np.abs(v))
  mant = np.round(np.ldexp(m, 53)).astype(np.int64)   # exact: 53-bit mantissa
  low = mant & -mant
  tz = np.round(np.log2(low.astype(np.float64))).astype(np.int64)
  return int(np.min(e - 53 + tz))
