"""Exact reference for the power-of-two quantizers (C03).

Everything here is re-derived from the class docstrings of `quantized_po2` /
`quantized_relu_po2` and the property statement, not from the implementation:

* `bits` holds the exponent magnitude, the exponent sign (needed iff
  max_value is None or > 1) and - signed variant only - the sign of x.  With
  `eb` exponent-magnitude bits a two's-complement exponent covers
  [-2^eb, 2^eb - 1]; a power-of-two max_value = 2^K caps it at K.
* |x| below the Keras epsilon (1e-7, compared in float32) maps to the smallest
  magnitude; |x| >= max_value is clamped to max_value first.
* the exponent is round-to-nearest (resp. floor) of log2 of that value, clipped
  to the interval.  It is computed exactly: every float32 is m*2^E with
  m in [0.5, 1) (frexp), floor(log2 v) = E - 1 and log2 v >= E - 1/2 iff
  (2m)^2 >= 2, where (2m)^2 is exact in float64 (24 x 24 significant bits).

All arithmetic is float64 on float32 inputs (exact); numpy's frexp is the
vectorised math.frexp.
"""
import math

import numpy as np

F32 = np.float32
EPS32 = float(F32(1e-7))          # K.epsilon() as the float32 the library sees
TINY = 2.0 ** -126                # smallest normal float32
# Width (in float32 ulps of the log2 value) of the band around a rounding
# breakpoint inside which the neighbouring exponent is accepted as well.
# Measured on the unchanged tree (all breakpoints k = -22..126, +-300 ulp,
# vectorised and scalar Eigen paths): worst deviation 1.76 ulp.
BAND_ULPS = 4.0


def fmt(cfg):
  """Exponent interval and options of a configuration."""
  cls, kw = cfg["cls"], cfg["kw"]
  bits = int(kw.get("bits", 8))
  mv = kw.get("max_value", None)
  relu = cls == "quantized_relu_po2"
  value_sign = 0 if relu else 1
  need = 1 if (mv is None or mv > 1) else 0
  eb = bits - value_sign - need
  if eb < 0:
    raise ValueError("no exponent bits left: %r" % (cfg,))
  lo, hi = -(2 ** eb), 2 ** eb - 1
  top = hi
  kmax = None
  if mv is not None:
    m, e = math.frexp(float(mv))
    if m != 0.5:
      raise ValueError("max_value must be a power of two in this domain")
    kmax = e - 1
    top = min(hi, kmax)
  slope = float(kw.get("negative_slope", 0.0)) if relu else 0.0
  if slope:
    ms, es = math.frexp(slope)
    if ms != 0.5:
      raise ValueError("negative_slope must be a power of two")
  return {"cls": cls, "relu": relu, "bits": bits, "max_value": mv, "kmax": kmax,
          "lo": lo, "hi": hi, "top": top, "slope": slope,
          "mode": kw.get("log2_rounding", "rnd"),
          "use_ste": bool(kw.get("use_ste", True))}


def _ulp32(a):
  return np.spacing(np.maximum(np.abs(a), 1.0).astype(F32)).astype(np.float64)


REGIONS = ("subnormal_input", "zero", "eps_floor", "clamped_to_max_value",
           "saturated_low", "saturated_high", "exact_power_of_two",
           "breakpoint_band", "interior")


def reference(f, xs):
  """Per-element expectation.

  Returns dict of arrays:
    s       surrogate the straight-through expression starts from (float64):
            x (signed variant; ReLU variant for 0 <= x <= max_value),
            slope*x (leaky side), max_value (ReLU variant, x > max_value);
            skind = 0 / 1 / 2 names which one
    sign    +1 / -1 expected sign, 0 = either accepted (subnormal input, which
            TF's denormals-are-zero mode cannot distinguish from +-0)
    e       expected exponent, alt: second accepted exponent (== e if none)
    region  index into REGIONS
    cancel  element lies in the float32 cancellation regime of
            s + (xq - s):  |s| >= 2^24 * |xq|
    nearbp  element is inside the tolerance band of rounding breakpoint `bp`
            (floor mode: or sits exactly on it)
    subcode expected code is below the smallest normal float32
  """
  x = np.asarray(xs, dtype=F32).astype(np.float64).reshape(-1)
  n = x.size
  lo, hi = f["lo"], f["hi"]
  mv = f["max_value"]
  ax = np.abs(x)
  subn = (ax > 0) & (ax < TINY)
  if f["relu"]:
    sl = f["slope"]
    neg = x < 0
    # value whose exponent is taken (float32 product by a power of two is
    # exact unless it underflows; then it is below epsilon anyway)
    a = np.where(neg, ax * sl, ax)
    a = np.where(neg, (a.astype(F32)).astype(np.float64), a)
    sign = np.where(neg & (sl != 0.0), -1, 1)
    sign = np.where(subn & neg & (sl != 0.0), 0, sign)
    s = np.where(neg, x * sl, x)
    # surrogate kind: 0 = x, 1 = slope*x, 2 = max_value (x above the clamp)
    skind = np.where(neg & (sl != 0.0), 1, 0)
    if mv is not None:
      s = np.where(x <= mv, s, mv)
      skind = np.where(x <= mv, skind, 2)
  else:
    a = ax
    sign = np.where(x < 0, -1, 1)
    sign = np.where(subn, 0, sign)
    s = x
    skind = np.zeros(n, dtype=np.int64)
  below = a < EPS32
  clamp = np.zeros(n, dtype=bool)
  v = np.where(below, 1.0, a)
  if mv is not None:
    clamp = (~below) & (a >= mv)
    v = np.where(clamp, mv, v)
  m, E = np.frexp(v)
  ef = (E - 1).astype(np.int64)
  m2 = 2.0 * m
  t = np.log2(m2)                       # in [0, 1), float64
  exact = (m2 == 1.0)
  if f["mode"] == "rnd":
    up = (m2 * m2) > 2.0                # exact, never equal
    e0 = ef + up
    band = np.abs(t - 0.5) <= BAND_ULPS * _ulp32(ef + 0.5)
    alt = np.where(band, np.where(up, ef, ef + 1), e0)
    nearbp = band
    bp = ef.copy()
  elif f["mode"] == "floor":
    e0 = ef.copy()
    near_lo = (~exact) & (t <= BAND_ULPS * _ulp32(ef.astype(np.float64)))
    near_hi = (1.0 - t) <= BAND_ULPS * _ulp32(ef + 1.0)
    band = near_lo | near_hi
    alt = np.where(near_lo, ef - 1, np.where(near_hi, ef + 1, e0))
    nearbp = band | exact
    bp = np.where(near_hi, ef + 1, ef)
  else:
    raise ValueError(f["mode"])
  e0 = np.where(below, lo, e0)
  alt = np.where(below, lo, alt)
  band = band & ~below
  nearbp = nearbp & ~below & ~clamp
  exact = exact & ~below
  sat_lo = (~below) & (e0 < lo)
  sat_hi = (~below) & (e0 > hi)
  e = np.clip(e0, lo, hi)
  alt = np.clip(alt, lo, hi)
  region = np.full(n, REGIONS.index("interior"))
  region[band] = REGIONS.index("breakpoint_band")
  region[exact] = REGIONS.index("exact_power_of_two")
  region[sat_hi] = REGIONS.index("saturated_high")
  region[sat_lo] = REGIONS.index("saturated_low")
  region[clamp] = REGIONS.index("clamped_to_max_value")
  region[below] = REGIONS.index("eps_floor")
  region[a == 0] = REGIONS.index("zero")
  region[subn] = REGIONS.index("subnormal_input")
  mag = np.ldexp(1.0, np.minimum(e, alt).astype(np.int64))
  cancel = np.zeros(n, dtype=bool)
  if f["use_ste"]:
    cancel = np.abs(s) >= mag * 2.0 ** 24
    if mv is not None and mv >= 2.0 ** (24 + f["top"]):
      raise ValueError("max_value itself would be absorbed: outside the domain")
    # above the clamp the documented surrogate is the constant max_value
    # (< 2^24 * 2^top in this domain): never the cancellation regime, the
    # result must be exact for every finite input
    cancel &= (skind != 2)
  subcode = np.minimum(e, alt) < -126
  return {"x": x, "s": s, "sign": sign, "e": e, "alt": alt, "region": region,
          "cancel": cancel, "subcode": subcode, "band": band, "skind": skind,
          "saturated": sat_lo | sat_hi | clamp, "below": below, "exact": exact,
          "nearbp": nearbp, "bp": bp}


def exponent_of(y):
  """(is_power_of_two, exponent) of |y| for a float array (exact)."""
  ay = np.abs(np.asarray(y, dtype=np.float64))
  m, E = np.frexp(ay)
  ok = (m == 0.5)
  return ok, (E - 1).astype(np.int64)
