"""C06 reference: closed-form derivative of the documented straight-through
surrogate of every quantizer, written in numpy float64 from the docstrings of
qkeras/quantizers.py and the statement of property C06.  Nothing here imports
qkeras or TensorFlow.

A *config* is
  {"cls": name, "kw": {...constructor kwargs, JSON...}, "sigmoid": "hard"|
   "smooth"|"real", "phase": 0|1, "tf_seed": int}

`reference(cfg, x, qscale)` returns a dict
  kind      "table" | "finite_only"
  d         expected d out / d in per element (inclusive clip-edge convention,
            i.e. TensorFlow's clip_by_value: the gradient passes at the edge)
  near      bool mask: element is closer to a kink of the surrogate derivative
            than the stated margin -> any value in `alts` is accepted there
  alts      list of arrays: admissible one-sided values for `near` elements
  region    int array, names in `region_names` (which branch of the surrogate)
  clipped   bool mask: region in which the documentation promises a zero (or
            (1-f)-damped) gradient because the surrogate itself is clipped
  pinned    bool mask (quantized_linear alpha='auto' only): element is the
            channel extremum that 'auto' places exactly on the clip edge
Margins: 8 float32 ulps of the kink location (16 for transcendental
surrogates) and at least 1e-3 of the quantization step.
"""
import numpy as np

EPS32 = 2.0 ** -23          # relative spacing bound of float32
FINITE_ONLY = ("quantized_ulaw", "bernoulli")


# ---------------------------------------------------------------------------
# small helpers


def _f(kw, default=1.0):
  v = kw.get("qnoise_factor", default)
  return float(v)


def _ste_factor(kw, has_use_ste=True):
  """Multiplier of the surrogate derivative: 1 with the straight-through
  expression s + stop_gradient(f*(xq - s)); (1-f) with the documented non-STE
  expression (1-f)*s + stop_gradient(f*xq)."""
  if has_use_ste and not kw.get("use_ste", True):
    return 1.0 - _f(kw)
  return 1.0


def _sig_params(mode):
  """Piecewise-linear sigmoid approximations: (slope, corner |x|)."""
  if mode == "hard":
    return 0.5, 1.0
  if mode == "smooth":
    return 0.1875, 0.5 / 0.1875
  return None, None


def _sigmoid(x):
  return 1.0 / (1.0 + np.exp(-x))


def channel_extreme(x, scale_axis, use_abs):
  """Per-channel max(|x|) (or max(x)) broadcast back to x's shape.  Channel =
  last axis (channels_last) or `scale_axis`; a rank-1 tensor has one channel
  per element (docstring of quantized_linear.scale_axis)."""
  a = np.abs(x) if use_abs else x
  if x.ndim <= 1:
    return a + 0.0
  keep = (x.ndim - 1) if scale_axis is None else int(scale_axis)
  axes = tuple(i for i in range(x.ndim) if i != keep)
  return np.broadcast_to(a.max(axis=axes, keepdims=True), x.shape)


# ---------------------------------------------------------------------------
# per-class tables


def _res(x, d, near=None, alts=None, region=None, names=("all",),
         clipped=None, pinned=None, skip=None, band=None):
  z = np.zeros(x.shape, dtype=bool)
  return {"kind": "table", "d": np.asarray(d, dtype=np.float64) + np.zeros(x.shape),
          # skip: elements whose gradient carries an undocumented extra term
          # (only finiteness is checked); band: (lo, hi) interval of admissible
          # derivatives where the surrogate is evaluated at a randomly rounded point
          "skip": z if skip is None else skip,
          "band": band,
          "near": z if near is None else near,
          "alts": [] if alts is None else [np.asarray(a, dtype=np.float64) + np.zeros(x.shape) for a in alts],
          "region": np.zeros(x.shape, dtype=np.int64) if region is None else region.astype(np.int64),
          "region_names": list(names),
          "clipped": z if clipped is None else clipped,
          "pinned": z if pinned is None else pinned}


def _two_sided(D, x, near, m):
  """One-sided values of a piecewise function around the kinks."""
  return [D(x - 2.0 * m), D(x + 2.0 * m)]


def linear_bounds(kw):
  bits = kw.get("bits", 8)
  kn = 1 if kw.get("keep_negative", True) else 0
  s = int(kw.get("symmetric", 1))
  if bits == 1 and kn:
    return -0.5, 0.5
  ub = bits - kn
  return float(kn * (-(2.0 ** ub) + s)), float(2.0 ** ub - 1.0)


def linear_static_scale(kw, shape):
  """quantization_scale for alpha None / constant (docstring: alpha times the
  data type scale 2^(integer - bits + keep_negative))."""
  bits, integer = kw.get("bits", 8), kw.get("integer", 0)
  kn = 1 if kw.get("keep_negative", True) else 0
  a = kw.get("alpha", None)
  dts = 2.0 ** (integer - bits + kn)
  if a is None:
    return np.full(shape, dts)
  a = np.asarray(a, dtype=np.float32).astype(np.float64)
  return np.broadcast_to(a * dts, shape) + 0.0


def _quantized_linear(cfg, x, qscale):
  kw = cfg["kw"]
  f = _f(kw)
  lo, hi = linear_bounds(kw)
  a = kw.get("alpha", None)
  if isinstance(a, str):
    if qscale is None:
      raise ValueError("quantized_linear with a data-dependent scale needs the exposed quantization_scale")
    qs = np.broadcast_to(np.asarray(qscale, dtype=np.float64), x.shape)
  else:
    qs = linear_static_scale(kw, x.shape)
  z = x / qs
  ind = (z >= lo) & (z <= hi)
  d = (1.0 - f) + f * ind
  mlo = max(1e-3, 8 * EPS32 * abs(lo))
  mhi = max(1e-3, 8 * EPS32 * abs(hi))
  near = (np.abs(z - lo) < mlo) | (np.abs(z - hi) < mhi)
  region = np.where(z < lo, 0, np.where(z > hi, 2, 1))
  pinned = np.zeros(x.shape, dtype=bool)
  if a == "auto":
    kn = kw.get("keep_negative", True)
    sym = int(kw.get("symmetric", 1))
    ext = channel_extreme(x, kw.get("scale_axis", None), use_abs=bool(kn))
    if kn:
      # 2*max|x|/(hi-lo) puts +-max on +-hi only for a symmetric clip range
      on_edge = sym == 1 or (kw.get("bits", 8) == 1)
      pinned = (np.abs(x) == ext) & (ext > 0) & on_edge
    else:
      pinned = (x == ext) & (ext > 0)
    pinned &= near           # not pinned when the scale sits on the epsilon floor
    # "the minimum floating point scale per-channel that does not clip the max
    # of x": the pinned extremum is inside the (closed) clip interval
    ind = ind | pinned
    d = (1.0 - f) + f * ind
    region = np.where(pinned, 1, region)
  return _res(x, d, near, [np.ones(x.shape), np.full(x.shape, 1.0 - f)], region,
              ("below_clip", "inside_clip", "above_clip"), clipped=~ind, pinned=pinned)


def _bits_regions(kw, x):
  """Forward saturation of quantized_bits (only used to describe cases)."""
  bits, integer = kw.get("bits", 8), kw.get("integer", 0)
  kn = 1 if kw.get("keep_negative", True) else 0
  s = int(kw.get("symmetric", 0))
  a = kw.get("alpha", None)
  ub = bits - kn
  if ub <= 0 or isinstance(a, str):
    return np.where(x < 0, 0, 1), ("negative", "non_negative")
  p = x / 2.0 ** (integer - ub)
  lo = -(2.0 ** ub - s) if kn else 0.0
  sat = (p > 2.0 ** ub - 0.5) | (p < lo - 0.5)
  return np.where(sat, 1, 0), ("unsaturated", "saturated")


def _quantized_bits(cfg, x, qscale):
  kw = cfg["kw"]
  c = _ste_factor(kw)
  region, names = _bits_regions(kw, x)
  return _res(x, c, region=region, names=names)


def relu_upper(kw):
  if kw.get("is_quantized_clip", True):
    bits, integer = kw.get("bits", 8), kw.get("integer", 0)
    nsb = bits - (1 if kw.get("negative_slope", 0.0) != 0.0 else 0)
    return 2.0 ** integer - 2.0 ** (integer - nsb)
  ub = kw.get("relu_upper_bound", None)
  return np.inf if ub is None else float(ub)


def relu_step(kw):
  bits, integer = kw.get("bits", 8), kw.get("integer", 0)
  nsb = bits - (1 if kw.get("negative_slope", 0.0) != 0.0 else 0)
  return 2.0 ** (integer - nsb)


def _relu_family(x, slope, ub, c, m0, mub):
  def D(t):
    return c * np.where(t > ub, 0.0, np.where(t > 0, 1.0, slope))
  near0 = np.abs(x) < m0
  nearu = np.abs(x - ub) < mub if np.isfinite(ub) else np.zeros(x.shape, dtype=bool)
  near = near0 | nearu
  m = np.where(nearu, mub, m0)
  region = np.where(x > ub, 2, np.where(x > 0, 1, 0))
  return _res(x, D(x), near, _two_sided(D, x, near, m), region,
              ("negative", "active", "above_upper_bound"), clipped=(x > ub) | ((x <= 0) & (slope == 0.0)))


def _quantized_relu(cfg, x, qscale):
  kw = cfg["kw"]
  ub = relu_upper(kw)
  u = relu_step(kw)
  mub = max(8 * EPS32 * abs(ub), 1e-3 * u) if np.isfinite(ub) else 0.0
  return _relu_family(x, float(kw.get("negative_slope", 0.0)), ub, _ste_factor(kw),
                      1e-3 * u, mub)


def _quantized_relu_po2(cfg, x, qscale):
  kw = cfg["kw"]
  mv = kw.get("max_value", None)
  ub = np.inf if mv is None else float(mv)
  mub = max(8 * EPS32 * abs(ub), 1e-3 * ub) if np.isfinite(ub) else 0.0
  return _relu_family(x, float(kw.get("negative_slope", 0)), ub, _ste_factor(kw),
                      1e-36, mub)


def _quantized_po2(cfg, x, qscale):
  kw = cfg["kw"]
  mv = kw.get("max_value", None)
  if mv is None:
    region, names = np.where(x < 0, 0, 1), ("negative", "non_negative")
  else:
    region, names = np.where(np.abs(x) >= mv, 1, 0), ("below_max_value", "saturated")
  return _res(x, _ste_factor(kw), region=region, names=names)


def _sign_family(cfg, x, ternary):
  kw = cfg["kw"]
  a = kw.get("alpha", None)
  stochastic = cfg["cls"].startswith("stochastic_")
  if stochastic and cfg.get("phase", 0) == 1:
    d = np.ones(x.shape)               # "sign with stochastic sampling with straight through gradient"
  elif a is None:
    d = 1.0 - np.tanh(x) ** 2          # tanh(x) is the differentiable version
  else:
    d = np.ones(x.shape)               # constant / data-dependent scale: identity
  skip = band = None
  if (not ternary and not stochastic and kw.get("use_stochastic_rounding", False)
      and cfg.get("phase", 0) == 1):
    # binary(use_stochastic_rounding=True), training phase: x is first replaced
    # by f*round_through(x/f) with f = 2*min(max|x| per channel, 1) and the
    # rounding to multiples of 1/8 treated as identity (straight through), then
    # the documented surrogate applies.  Consequences for the oracle:
    #  * constant / data-dependent alpha: identity;
    #  * alpha None: tanh' evaluated at the randomly rounded point, which lies
    #    within f/8 <= 0.25 of x -> any value of 1-tanh^2 on that interval;
    #  * f itself depends on the channel maximum when it is <= 1: the maximal
    #    element(s) of such a channel get an extra, undocumented term
    #    f'*sum(cotangent*rounding residual) -> finiteness only there.
    ax = tuple(range(x.ndim - 1)) if x.ndim > 1 else None
    mx = np.broadcast_to(np.max(np.abs(x), axis=ax, keepdims=True), x.shape)
    skip = (np.abs(x) == mx) & (mx <= 1.0)
    if a is None:
      w = 0.25 * np.minimum(mx, 1.0) * (1.0 + 1e-6) + 1e-6
      lo_abs = np.maximum(np.abs(x) - w, 0.0)      # point of the interval nearest to 0
      hi_abs = np.abs(x) + w
      band = (1.0 - np.tanh(hi_abs) ** 2, 1.0 - np.tanh(lo_abs) ** 2)
  if ternary and not isinstance(a, str):
    t = kw.get("threshold", None)
    t = 0.33 if t is None else float(t)
    region, names = np.where(np.abs(x) >= t, 1, 0), ("dead_band", "signed")
  else:
    region, names = np.where(x < 0, 0, 1), ("negative", "non_negative")
  return _res(x, d, region=region, names=names, skip=skip, band=band)


def _binary(cfg, x, qscale):
  return _sign_family(cfg, x, False)


def _ternary(cfg, x, qscale):
  return _sign_family(cfg, x, True)


def _squash(cfg, x, kind):
  """quantized_tanh / quantized_sigmoid: clip(round(p(x)*m)/m, lo, hi) with the
  rounding treated as identity: p'(x) where the *rounded* value lies inside
  [lo, hi] (inclusive), 0 where it is clipped."""
  kw = cfg["kw"]
  bits = kw.get("bits", 8)
  s = int(bool(kw.get("symmetric", False)))
  mode = cfg.get("sigmoid", "hard")
  if kind == "tanh":
    m = 2.0 ** (bits - 1)
    clo, chi = -m + s, m - 1
    if kw.get("use_real_tanh", False):
      p = np.tanh(x); dp = 1.0 - p ** 2; corner = None
    elif mode == "real":
      p = 2.0 * _sigmoid(x) - 1.0; dp = 0.5 * (1.0 - p ** 2); corner = None
    else:
      sl, corner = _sig_params(mode)
      p = np.clip(2.0 * sl * x, -1.0, 1.0); dp_in = 2.0 * sl
  else:
    m = 2.0 ** bits
    clo, chi = s, m - 1
    if kw.get("use_real_sigmoid", False) or mode == "real":
      p = _sigmoid(x); dp = p * (1.0 - p); corner = None
    else:
      sl, corner = _sig_params(mode)
      p = np.clip(sl * x + 0.5, 0.0, 1.0); dp_in = sl
  if corner is not None:
    inside = np.abs(x) <= corner
    dp = np.where(inside, dp_in, 0.0)
    near_corner = np.abs(np.abs(x) - corner) < 16 * EPS32 * corner
    dp_alt = np.full(x.shape, dp_in)
  else:
    inside = np.ones(x.shape, dtype=bool)
    near_corner = np.zeros(x.shape, dtype=bool)
    dp_alt = dp
  cc = p * m
  c = np.rint(cc)
  ind = (c >= clo) & (c <= chi)
  delta = max(1e-3, 16 * EPS32 * m)
  near_round = np.abs(cc - (chi + 0.5)) < delta
  near_round |= np.abs(cc - (clo - 0.5)) < delta
  d = dp * ind
  region = np.where(~inside, np.where(x < 0, 0, 3), np.where(ind, 1, 2))
  return _res(x, d, near_corner | near_round, [dp_alt, np.zeros(x.shape)], region,
              ("flat_low", "passing", "rounded_value_clipped", "flat_high"),
              clipped=(~ind) | (~inside))


def _quantized_tanh(cfg, x, qscale):
  return _squash(cfg, x, "tanh")


def _quantized_sigmoid(cfg, x, qscale):
  return _squash(cfg, x, "sigmoid")


def _quantized_hswish(cfg, x, qscale):
  kw = cfg["kw"]
  sh = float(kw.get("relu_shift", 3))
  ub = float(kw.get("relu_upper_bound", 6))

  def D(t):
    return np.where(t < -sh, 0.0, np.where(t <= ub - sh, (2.0 * t + sh) / ub, 1.0))
  k1, k2 = -sh, ub - sh
  m1 = 16 * EPS32 * max(sh, 1.0)
  m2 = 16 * EPS32 * max(abs(k2), ub, 1.0)
  n1 = np.abs(x - k1) < m1
  n2 = np.abs(x - k2) < m2
  near = n1 | n2
  m = np.where(n2, m2, m1)
  region = np.where(x < k1, 0, np.where(x <= k2, 1, 2))
  return _res(x, D(x), near, _two_sided(D, x, near, m), region,
              ("zero_branch", "parabolic", "identity_branch"), clipped=x < k1)


_TABLE = {
    "quantized_linear": _quantized_linear,
    "quantized_bits": _quantized_bits,
    "quantized_relu": _quantized_relu,
    "quantized_po2": _quantized_po2,
    "quantized_relu_po2": _quantized_relu_po2,
    "binary": _binary,
    "stochastic_binary": _binary,
    "ternary": _ternary,
    "stochastic_ternary": _ternary,
    "quantized_tanh": _quantized_tanh,
    "quantized_sigmoid": _quantized_sigmoid,
    "quantized_hswish": _quantized_hswish,
}


TRAINABLE = ("binary", "ternary", "stochastic_binary", "stochastic_ternary", "bernoulli",
             "quantized_bits", "quantized_linear")


def effective(cfg):
  """Configuration the object documents after the post-construction mutation
  cfg["mutation"] in {"none", "trainable", "qdense"}: `_set_trainable_parameter()`
  (called directly, or by every Q* layer on its kernel quantizer) turns
  alpha=None into alpha='auto_po2' (and symmetric=True for the fixed-point
  classes); a quantizer built with any other alpha is left alone."""
  if cfg.get("mutation", "none") == "none" or cfg["cls"] not in TRAINABLE:
    return cfg
  kw = dict(cfg["kw"])
  if kw.get("alpha", None) is None:
    kw["alpha"] = "auto_po2"
    if cfg["cls"] in ("quantized_bits", "quantized_linear"):
      kw["symmetric"] = 1
  return dict(cfg, kw=kw)


def reference(cfg, x, qscale=None):
  x = np.asarray(x, dtype=np.float64)
  if cfg["cls"] in FINITE_ONLY:
    r = _res(x, np.zeros(x.shape))
    r["kind"] = "finite_only"
    return r
  return _TABLE[cfg["cls"]](cfg, x, qscale)


# ---------------------------------------------------------------------------
# static kinks (used by the generator to place points on both sides, at a
# distance of at least the margin, by construction)


def static_kinks(cfg):
  """List of (location, margin, step) in input space for configurations whose
  kinks do not depend on the data."""
  cls, kw = cfg["cls"], cfg["kw"]
  out = []
  if cls == "quantized_linear":
    a = kw.get("alpha", None)
    if isinstance(a, str):
      return out
    lo, hi = linear_bounds(kw)
    ch = 1 if not isinstance(a, (list, tuple)) else len(a)
    qs = linear_static_scale(kw, (ch,))
    for q in sorted(set(float(v) for v in qs)):
      out.append((q * lo, q * max(1e-3, 8 * EPS32 * abs(lo)), q))
      out.append((q * hi, q * max(1e-3, 8 * EPS32 * abs(hi)), q))
  elif cls == "quantized_relu":
    u = relu_step(kw)
    ub = relu_upper(kw)
    out.append((0.0, 1e-3 * u, u))
    if np.isfinite(ub):
      out.append((ub, max(8 * EPS32 * abs(ub), 1e-3 * u), u))
  elif cls == "quantized_relu_po2":
    mv = kw.get("max_value", None)
    out.append((0.0, 1e-6, 0.25))
    if mv is not None:
      out.append((float(mv), max(8 * EPS32 * mv, 1e-3 * mv), 0.25 * mv))
  elif cls == "quantized_hswish":
    sh = float(kw.get("relu_shift", 3)); ub = float(kw.get("relu_upper_bound", 6))
    out.append((-sh, 16 * EPS32 * max(sh, 1.0), 0.25))
    out.append((ub - sh, 16 * EPS32 * max(abs(ub - sh), ub, 1.0), 0.25))
  elif cls in ("quantized_tanh", "quantized_sigmoid"):
    bits = kw.get("bits", 8)
    s = int(bool(kw.get("symmetric", False)))
    mode = cfg.get("sigmoid", "hard")
    tanh = cls == "quantized_tanh"
    m = 2.0 ** (bits - 1) if tanh else 2.0 ** bits
    clo, chi = ((-m + s, m - 1) if tanh else (s, m - 1))
    own_real = kw.get("use_real_tanh", False) if tanh else kw.get("use_real_sigmoid", False)
    delta = max(1e-3, 16 * EPS32 * m)
    targets = [(chi + 0.5) / m, (clo - 0.5) / m]        # value of p at the rounding kinks

    def inv(p):
      if tanh:
        if not -1 < p < 1:
          return None, None
        if own_real:
          return np.arctanh(p), 1.0 - p * p
        if mode == "real":
          return 2 * np.arctanh(p), 0.5 * (1.0 - p * p)
        sl, _ = _sig_params(mode)
        return p / (2 * sl), 2 * sl
      if not 0 < p < 1:
        return None, None
      if own_real or mode == "real":
        return np.log(p / (1 - p)), p * (1 - p)
      sl, _ = _sig_params(mode)
      return (p - 0.5) / sl, sl
    for p in targets:
      xk, dp = inv(p)
      if xk is not None:
        out.append((float(xk), 2.0 * delta / (m * dp), 1.0 / (m * dp)))
    if not own_real and mode != "real":
      _, corner = _sig_params(mode)
      out.append((corner, 16 * EPS32 * corner, 1.0 / m))
      out.append((-corner, 16 * EPS32 * corner, 1.0 / m))
  return out
