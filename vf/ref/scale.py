"""References for data-dependent scales (C04, C05), written from the docstrings
of binary / ternary / quantized_bits / quantized_linear and from the group
model in DESIGN.md (section 5, C04).  numpy float64 only - nothing here imports
the code under test.

Group model
  scale axes  = [last axis] when scale_axis is None (channels_last),
                [a] for an int, the (ascending) list otherwise;
  group(idx)  = tuple(idx[a] // eps_a for a in scale axes), eps_a = 1 when
                elements_per_scale is None (an int is used for every axis);
  rank 1      = every element is its own group for the least-squares scale;
                the max-based 'auto' scale of quantized_bits uses the whole
                vector, the one of quantized_linear every element.
"""
import math

import numpy as np

EPS = 1e-7   # tf.keras.backend.epsilon() default; asserted by the callers


def scale_axes(rank, scale_axis):
  if scale_axis is None:
    return [rank - 1]
  if isinstance(scale_axis, (list, tuple)):
    return [int(a) for a in scale_axis]
  return [int(scale_axis)]


def _eps_list(axes, elements_per_scale):
  if elements_per_scale is None:
    return [1] * len(axes)
  if isinstance(elements_per_scale, (list, tuple)):
    assert len(elements_per_scale) == len(axes)
    return [int(e) for e in elements_per_scale]
  return [int(elements_per_scale)] * len(axes)


def group_ids(shape, scale_axis=None, elements_per_scale=None, rank1="element"):
  """int64 array of `shape`: group number of every element.

  rank1: "element" (each entry its own group) or "all" (one group)."""
  shape = [int(s) for s in shape]
  rank = len(shape)
  n = int(np.prod(shape)) if shape else 1
  if rank <= 1:
    if rank1 == "all":
      return np.zeros(shape, dtype=np.int64)
    return np.arange(n, dtype=np.int64).reshape(shape)
  axes = scale_axes(rank, scale_axis)
  eps = _eps_list(axes, elements_per_scale)
  idx = np.indices(shape)
  gid = np.zeros(shape, dtype=np.int64)
  for a, e in zip(axes, eps):
    assert shape[a] % e == 0
    gid = gid * (shape[a] // e) + idx[a] // e
  return gid


def n_groups(gid):
  return int(gid.max()) + 1 if gid.size else 0


def gsum(gid, vals, ng=None):
  ng = ng or n_groups(gid)
  return np.bincount(gid.reshape(-1), weights=np.asarray(
      vals, dtype=np.float64).reshape(-1), minlength=ng)


def gmax(gid, vals, ng=None):
  ng = ng or n_groups(gid)
  out = np.full(ng, -np.inf)
  np.maximum.at(out, gid.reshape(-1), np.asarray(vals, np.float64).reshape(-1))
  return out


def gmin(gid, vals, ng=None):
  return -gmax(gid, -np.asarray(vals, np.float64), ng)


def ls_parts(x, c, gid):
  """Per group: sum(x*c), sum(c*c), element count (float64)."""
  x = np.asarray(x, np.float64)
  c = np.asarray(c, np.float64)
  ng = n_groups(gid)
  return gsum(gid, x * c, ng), gsum(gid, c * c, ng), gsum(gid, np.ones_like(x), ng)


def is_po2(v):
  """Elementwise: v is exactly +2^e (finite, > 0)."""
  v = np.asarray(v, np.float64)
  ok = np.isfinite(v) & (v > 0)
  m, _ = np.frexp(np.where(ok, v, 1.0))
  return ok & (m == 0.5)


def po2_exponent(v):
  """Exact exponent of values already known to be powers of two."""
  _, e = np.frexp(np.asarray(v, np.float64))
  return e - 1


def ulp32(v):
  """float32 spacing at |v| as float64 (>= smallest subnormal)."""
  a = np.abs(np.asarray(v, np.float64)).astype(np.float32)
  return np.spacing(a).astype(np.float64)


# ---------------------------------------------------------------------------
# binary / ternary code rules (statement of C04)


def binary_codes(x, use_01):
  """sign with zero (and -0.0) counted as positive; {0,1} in 0/1 mode."""
  x = np.asarray(x, np.float64)
  c = np.where(x < 0, -1.0, 1.0)
  if use_01:
    c = (c + 1.0) / 2.0
  return c


def ternary_codes_const(x, threshold):
  """code 0 iff |x| < threshold (threshold compared as float32)."""
  x = np.asarray(x, np.float64)
  t = float(np.float32(threshold))
  return np.where(np.abs(x) >= t, np.sign(x), 0.0)


def _po2_snap(s, flags, margin=1e-3):
  """2^round(log2(s)) per entry; flags['tie'] when the rounding is not robust
  (within `margin` of a half-integer, or decided by the epsilon term)."""
  s = np.asarray(s, np.float64)
  with np.errstate(divide="ignore", invalid="ignore"):
    t1 = np.log2(s + EPS)
    t0 = np.log2(np.where(s > 0, s, np.nan))
  r1 = np.round(t1)
  if np.any(np.abs(np.abs(t1 - np.floor(t1)) - 0.5) < margin):
    flags["tie"] = True
  pos = s > 0
  if np.any(pos & (np.round(np.where(pos, t0, 0.0)) != r1)):
    flags["eps"] = True
  if np.any(~pos):
    flags["floor"] = True
  if np.any(pos & (s < 1024 * EPS)):
    flags["floor"] = True
  return np.exp2(r1)


def ternary_auto_trace(x, shape, po2, unrolls, margin=1e-5):
  """float64 replay of the documented iteration of ternary(alpha='auto*'):
  m = per-channel max |x|; scale = 2m/3 (snapped to a power of two in po2
  mode); repeat: threshold = scale/2, code = sign(x) where x/scale rounds
  to a non-zero integer, scale = least-squares scale of that code.

  Returns (codes, scale_per_element, last_threshold_per_element, flags);
  flags['tie'/'eps'] mean that float32 may legitimately take another path.
  """
  x = np.asarray(x, np.float64).reshape(shape)
  rank = len(shape)
  flags = {}
  g_ls = group_ids(shape, None, None, rank1="element")
  g_m = group_ids(shape, None, None, rank1="all")
  m = gmax(g_m, np.abs(x))[g_m]
  s = 2.0 * m / 3.0
  if po2:
    s = _po2_snap(s, flags)
  c = np.zeros_like(x)
  thr = s / 2.0
  for _ in range(int(unrolls)):
    thr = s / 2.0
    with np.errstate(divide="ignore", invalid="ignore"):
      r = np.where(s > 0, np.abs(x) / np.where(s > 0, s, 1.0), 0.0)
    # round-half-even of |x|/s is non-zero iff |x|/s > 0.5
    if np.any((s > 0) & (np.abs(r - 0.5) <= margin * 0.5)):
      flags["tie"] = True
    c = np.where(r > 0.5, np.sign(x), 0.0)
    num, den, _ = ls_parts(x, c, g_ls)
    with np.errstate(divide="ignore", invalid="ignore"):
      sg = np.where(den > 0, num / np.where(den > 0, den, 1.0), 0.0)
    s = sg[g_ls]
    if po2:
      s = _po2_snap(s, flags)
  del rank
  return c, s, thr, flags


# ---------------------------------------------------------------------------
# tie detectors for the power-of-two equivariance clause of C05.  They replay
# the documented refinement (max-based start, <= 5 least-squares rounds, each
# snapped to a power of two) in float64 and report whether any rounding on the
# way is too close to call; they are used ONLY to decide whether exact
# equivariance is a sound expectation for a given input, never as the oracle.


def qbits_po2_trace(x, shape, bits, integer, scale_axis, elements_per_scale):
  """Internal scale (relative to x / 2^integer) per element + flags."""
  x = np.asarray(x, np.float64).reshape(shape) / 2.0 ** integer
  flags = {}
  L = 2.0 ** (bits - 1) - 1.0
  g0 = group_ids(shape, scale_axis, None, rank1="all")
  g1 = group_ids(shape, scale_axis, elements_per_scale, rank1="element")
  s = (gmax(g0, np.abs(x))[g0] * 2.0) / (2.0 * L)
  s = _po2_snap(s, flags)
  for _ in range(5):
    v = np.floor(np.abs(x) / s + 0.5)
    z = np.sign(x) * np.minimum(v, L)
    num, den, cnt = ls_parts(x, z, g1)
    with np.errstate(divide="ignore", invalid="ignore"):
      sg = (num / cnt) / (den / cnt + EPS)
    s = _po2_snap(sg[g1], flags)
  return s, flags


def qlinear_po2_trace(x, shape, bits, keep_negative, symmetric, scale_axis):
  """quantization_scale per element + flags."""
  x = np.asarray(x, np.float64).reshape(shape)
  flags = {}
  ub = bits - (1 if keep_negative else 0)
  cmax = 2.0 ** ub - 1.0
  cmin = -(2.0 ** ub - (1 if symmetric else 0)) if keep_negative else 0.0
  g0 = group_ids(shape, scale_axis, None, rank1="element")
  if keep_negative:
    s = gmax(g0, np.abs(x))[g0] * 2.0 / (cmax - cmin)
  else:
    s = gmax(g0, x)[g0] / (cmax - cmin)
  if np.any(s < 1024 * EPS):
    flags["floor"] = True
  s = np.maximum(s, EPS)
  s = _po2_snap(s, flags)
  for _ in range(5):
    q = np.round(np.clip(x / s, cmin, cmax))     # numpy rounds half to even
    num, den, cnt = ls_parts(x, q, g0)
    with np.errstate(divide="ignore", invalid="ignore"):
      sg = (num / cnt) / (den / cnt + EPS)
    s = _po2_snap(sg[g0], flags)
  return s, flags


def f32(v):
  return float(np.float32(v))


def log2_int(v):
  """exact integer log2 of a positive power of two python float"""
  m, e = math.frexp(v)
  assert m == 0.5
  return e - 1
