"""Independent restatement of the qtools energy model (C19), written from the
comments/docstrings of qtools/qenergy/qenergy.py, the "horowitz" table of
qtools/config_public.py and the gate_factor / gate_bits documentation in
quantized_operators/multiplier_impl.py and merge_factory.py.

Everything is a function of
  * the REPORTED types (bits, op_type) in QTools._output_dict,
  * the reported operation_count,
  * the REAL tensor sizes of the model (input/output/kernel/bias element counts),
  * the pe() options.

Units: pJ.  All per-bit costs are clamped at 0 ("max(poly(x), 0)").
"""
import itertools
import math

# horowitz process (config_public.config_settings["horowitz"])
FPM_ADD = (0.003125, 0.0)                       # per add of b bits: 0.003125*b
FPM_MUL = (0.002994791667, 0.001041666667, 0.0)  # a*b^2 + c*b
FP_ADD = {16: 0.4, 32: 0.9}
FP_MUL = {16: 1.1, 32: 3.7}
SRAM_RD = (9.02427321e-04, -2.68847858e-02, 2.08900804e-01, 0.0)
DRAM_RD = (20.3125, 0.0)
SRAM_MUL_FACTOR = 1.0 / 64.0


def _poly(c, x):
  r = 0.0
  for a in c:
    r = r * x + a
  return r


def _pos(v):
  return v if v > 0 else 0.0


def sram_access(log2_bits):          # read and write cost the same polynomial
  return _pos(_poly(SRAM_RD, log2_bits))


def dram_access(bits):
  return _pos(_poly(DRAM_RD, bits))


def _sram_part(total_bits, min_sram_size):
  lg = math.log2(max(total_bits, min_sram_size))
  return math.ceil(total_bits * SRAM_MUL_FACTOR) * sram_access(lg)


def mem_read(n_elems, bits, mode, min_sram_size, rd_wr_on_io, is_model_input=False):
  """Energy to bring a tensor of n_elems x bits to the compute unit.
  dram: DRAM read (+ SRAM write when rd_wr_on_io: SRAM is a cache for DRAM);
  sram: SRAM read; fixed (weights only): free.  Model inputs live in DRAM when
  rd_wr_on_io else in SRAM, whatever `mode` says."""
  if is_model_input:
    mode = "dram" if rd_wr_on_io else "sram"
  total = n_elems * bits
  if mode == "dram":
    e = dram_access(total)
    if rd_wr_on_io:
      e += _sram_part(total, min_sram_size)
    return e
  if mode == "sram":
    return _sram_part(total, min_sram_size)
  return 0.0


def mem_write(n_elems, bits, mode, min_sram_size, rd_wr_on_io, is_model_output=False):
  if is_model_output:
    mode = "dram" if rd_wr_on_io else "sram"
  total = n_elems * bits
  if mode == "dram":
    e = dram_access(total)
    if rd_wr_on_io:
      e += _sram_part(total, min_sram_size)
    return e
  if mode == "sram":
    return _sram_part(total, min_sram_size)
  return 0.0


def add_cost(rep):
  """One accumulation in the reported accumulator type."""
  if "int_bits" not in rep and "max_value" not in rep and "values" not in rep:
    return FP_ADD[int(rep["bits"])]
  return _pos(_poly(FPM_ADD, rep["bits"]))


def _is_float(rep):
  return not any(k in rep for k in ("int_bits", "max_value", "values"))


def _kind(rep):
  if _is_float(rep):
    return "float"
  if "values" in rep:
    return "ternary" if len(rep["values"]) == 3 else "binary"
  if "max_value" in rep:
    return "po2"
  return "fixed"


def unit_kind(rep):
  """fp16 / fp32 / fixed / po2 / binary / ternary (labels only)."""
  k = _kind(rep)
  return "fp%d" % int(rep["bits"]) if k == "float" else k


def multiplier_cost(op_type, w_rep, x_rep, out_rep):
  """gate_factor * per-op energy of ONE multiplication, or None when the
  combination is not modelled here (not-inference mode: no per-value shifter
  tables)."""
  kw, kx = _kind(w_rep), _kind(x_rep)
  if op_type == "mul":
    if _is_float(out_rep):
      return FP_MUL.get(int(out_rep["bits"]))
    if kw == "float" or kx == "float":
      # floating-point operand(s) but a fixed-point product type (QTools
      # options keras_quantizer=fp*, keras_accumulator=int*): the multiplier
      # width is that of the widest floating-point operand (documented in
      # FloatingPointMultiplier), costed in the unit of the product type
      b = max(int(r["bits"]) for r, k in ((w_rep, kw), (x_rep, kx)) if k == "float")
      return 1.0 * _pos(_poly(FPM_MUL, b))
    if kw == "fixed" and kx == "fixed":
      b = math.sqrt(x_rep["bits"] * w_rep["bits"])
      return 1.0 * _pos(_poly(FPM_MUL, b))
    return None
  if op_type == "shifter":
    if {kw, kx} != {"po2", "fixed"}:
      return None
    po2, fx = (w_rep, x_rep) if kw == "po2" else (x_rep, w_rep)
    b = math.sqrt(2 ** po2["bits"] * fx["bits"])
    return 1.0 * _pos(_poly(FPM_ADD, b * math.log10(b)))
  if op_type == "mux":
    if kw in ("binary", "ternary"):
      gf = 0.3 if kw == "binary" else 0.6
      return gf * _pos(_poly(FPM_ADD, x_rep["bits"]))
    if kx in ("binary", "ternary"):
      gf = 0.3 if kx == "binary" else 0.6
      return gf * _pos(_poly(FPM_ADD, w_rep["bits"]))
    return None
  if op_type == "and":
    return 0.1 * _pos(_poly(FPM_ADD, out_rep["bits"]))
  if op_type == "xor":
    return 0.3 * _pos(_poly(FPM_ADD, 1))
  if op_type == "add":                    # po2 x po2
    if kw == "po2" and kx == "po2":
      return 1.0 * _pos(_poly(FPM_ADD, out_rep["bits"]))
    return None
  return None


def mac_op_cost(count, mult_cost, acc_rep):
  return count * (mult_cost + add_cost(acc_rep))


def auto_add_bits(in_reps):
  """Width of the adder that merge_factory.Add derives from its input types:
  widest floating-point input, else widest fixed-point input + 1 carry bit
  (None: not restated, e.g. power-of-two inputs)."""
  kinds = [_kind(r) for r in in_reps]
  if "float" in kinds:
    return max(int(r["bits"]) for r, k in zip(in_reps, kinds) if k == "float")
  if all(k == "fixed" for k in kinds):
    return max(int(r["bits"]) for r in in_reps) + 1
  return None


def merge_op_cost(kind, count, n_inputs, merge_rep, in_reps, reference=False):
  """Add/Subtract: (n-1) element-wise adds in the output type.
  Multiply: (n-1) multiplications (only the last pair defines the gate).
  reference=True (QTools for_reference): the reported merge type is the forced
  reference type; the adder width documented for that mode stays the one
  derived from the inputs, the unit (float / fixed) is that of the forced type."""
  if kind == "Add":
    if _is_float(merge_rep):
      return (n_inputs - 1) * count * FP_ADD[int(merge_rep["bits"])]
    bits = merge_rep["bits"]
    if reference:
      bits = auto_add_bits(in_reps)
      if bits is None:
        return None
    return (n_inputs - 1) * count * _pos(_poly(FPM_ADD, bits))
  if kind == "Multiply":
    if n_inputs != 2:
      return None
    c = multiplier_cost(merge_rep.get("op_type"), in_reps[0], in_reps[1], merge_rep)
    if c is None:
      return None
    return (n_inputs - 1) * count * c
  return 0.0


def pairings(sizes, bits):
  """All values of sum(size_i * bits_p(i)) over assignments of reported input
  types to inputs (the report does not say which type belongs to which input
  of a merge layer)."""
  out = set()
  for perm in itertools.permutations(range(len(bits))):
    out.add(tuple((sizes[i], bits[perm[i]]) for i in range(len(sizes))))
  return out


def rounded(v):
  return float("{0:.2f}".format(v))
