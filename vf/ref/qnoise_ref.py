"""C07 references.

interp_ref: the interpolation identity of the property statement,
  q_f(x) = surrogate(x) + f * (quantized(x) - surrogate(x)),
evaluated in float64 on float32 inputs with the float32 value of f (the code
multiplies float32 tensors; a python float factor is converted to float32).

Tolerance (derivation): the library evaluates either
  fl(s + fl(f * fl(xq - s)))                       (straight-through form) or
  fl(fl(fl(1 - f) * s) + fl(f * xq))               (use_ste=False form)
in float32.  With M = max(|s|, |xq|) and ulp(M) the float32 spacing at M, the
first form is off by at most 0.5ulp(xq-s)*f + 0.5ulp + 0.5ulp <= 2 ulp(M); the
second by rounding (1-f) [<= 2^-24*|s| < ulp(M)], two products [0.5 ulp(M)
each], f itself [python double vs float32: <= 2^-25*|xq|] and the sum
[0.5 ulp] <= 3.5 ulp(M).  TOL_ULP = 4 covers both; measured worst on the
unchanged tree is recorded by the 'A:err<=..ulp' labels (about 1 ulp).

sched_ref: the schedule as documented: QNoiseScheduler docstring (start =
step/epoch to start the gradual training, finish = step/epoch to finish it,
update_freq = updating frequency, initial_step_or_epoch = step or epoch at
which training starts, exponent = exponent of the calculation), the cited
paper's blending schedule (arXiv 1903.01061: 1 - ((T1 - t)/(T1 - T0))^3) and
the property statement (0 before start, 1 from finish on).
"""
import numpy as np

F32 = np.float32
TOL_ULP = 4.0


def ulp32(v):
  v = np.maximum(np.abs(np.asarray(v, dtype=np.float64)), 1e-37).astype(F32)
  return np.spacing(v).astype(np.float64)


def interp_ref(s, xq, f):
  s = np.asarray(s, dtype=np.float64)
  xq = np.asarray(xq, dtype=np.float64)
  f32 = float(F32(f))
  return s + f32 * (xq - s)


def interp_err_ulp(y, s, xq, f):
  """Elementwise |y - ref| in units of ulp32(max(|s|,|xq|)); nan where the
  references are not finite."""
  y = np.asarray(y, dtype=np.float64)
  s = np.asarray(s, dtype=np.float64)
  xq = np.asarray(xq, dtype=np.float64)
  ref = interp_ref(s, xq, f)
  m = np.maximum(np.abs(s), np.abs(xq))
  err = np.abs(y - ref) / ulp32(m)
  ok = np.isfinite(s) & np.isfinite(xq)
  return np.where(ok, err, np.nan), ref


def sched_ref(start, finish, exponent, p):
  """Documented factor at position p (step or epoch number)."""
  if p < start:
    return 0.0
  if p >= finish:
    return 1.0
  val = float(finish - p) / float(finish - start)
  return 1.0 - val ** float(exponent)


def same_factor(observed, expected):
  """A stored factor equals `expected` either exactly (python float storage)
  or after float32 rounding (tf.Variable / tensor / np.float32 storage)."""
  o = float(observed)
  e = float(expected)
  return o == e or o == float(F32(e)) or float(F32(o)) == float(F32(e))
