"""Reference for C11: the stock tf.keras layer run on weights that were
quantized beforehand.

`reference(case, ws, x, qlist, act, ract)`:
  ws     role -> float32 ndarray (raw weights)
  qlist  role -> callable | None   (the quantizer applied to that role)
  act    activation callable | None (applied after the stock layer; inside the
         cell for recurrent layers, where the recurrence needs it)
returns (y float32 ndarray, info dict).

Nothing here calls a QKeras *layer*: only tf.keras layers, the quantizer
callables handed in, numpy.
"""
import numpy as np

from vf.gen import layers as G

F32 = np.float32


class StockUnsupported(Exception):
  """The stock Keras layer itself cannot run this configuration here."""


def quantize(q, w):
  import tensorflow as tf  # pylint: disable=g-import-not-at-top
  if q is None:
    return np.asarray(w, dtype=F32)
  return np.asarray(q(tf.constant(np.asarray(w, dtype=F32))).numpy(), dtype=F32)


def apply_act(act, y):
  import tensorflow as tf  # pylint: disable=g-import-not-at-top
  if act is None:
    return np.asarray(y, dtype=F32)
  return np.asarray(act(tf.constant(np.asarray(y, dtype=F32))).numpy(),
                    dtype=F32)


def _to_last(x):
  r = x.ndim
  return np.transpose(x, [0] + list(range(2, r)) + [1])


def _to_first(y):
  r = y.ndim
  return np.transpose(y, [0, r - 1] + list(range(1, r - 1)))


def _run_stock(layer, x, weights, dtype=F32):
  import tensorflow as tf  # pylint: disable=g-import-not-at-top
  x = np.asarray(x, dtype=dtype)
  weights = [np.asarray(w, dtype=dtype) for w in weights]
  layer.build(tuple(x.shape))
  have = [tuple(w.shape) for w in layer.get_weights()]
  want = [tuple(w.shape) for w in weights]
  if have != want:
    raise AssertionError("stock layer weight shapes %r != drawn %r" %
                         (have, want))
  if weights:
    layer.set_weights(weights)
  return np.asarray(layer(tf.constant(x), training=False).numpy(), dtype=dtype)


def _stock_forward(case, x, qw, info, dtype=F32):
  """Stock layer of the case (activation=None) on weights qw; channels_first
  falls back to the transposed channels_last layer when the CPU kernel
  rejects NCHW."""
  cf = case["kw"].get("data_format") == "channels_first"
  dt = None if dtype == F32 else "float64"
  try:
    return _run_stock(G.build_stock(case, dtype=dt), x, qw, dtype)
  except AssertionError:
    raise
  except Exception as e:  # pylint: disable=broad-except
    if not cf:
      raise StockUnsupported("%s: %s" % (type(e).__name__, str(e)[:200]))
    # The CPU kernels of the stock layer do not take NCHW: same stock layer in
    # channels_last on the transposed input (weight layouts do not depend on
    # data_format).
    info["cf_transposed_ref"] = True
    try:
      return _to_first(_run_stock(
          G.build_stock(case, data_format="channels_last", dtype=dt),
          _to_last(np.asarray(x)), qw, dtype))
    except AssertionError:
      raise
    except Exception as e2:  # pylint: disable=broad-except
      raise StockUnsupported("%s: %s" % (type(e2).__name__, str(e2)[:200]))


def paths_differ(case):
  """Configurations where the QKeras layer and the stock layer are known to run
  *different* float32 convolution code: QConv1D calls tf.keras.backend.conv1d
  (plain TF kernel) while the stock Conv1D with groups > 1 goes through its
  XLA-compiled `_jit_compiled_convolution_op`, whose use of fused
  multiply-adds depends on the input shape.  Everywhere else both sides reach
  the same TF op with the same arguments (QConv2D with groups compiles the
  same function itself)."""
  return case["layer"] == "QConv1D" and case["kw"].get("groups", 1) > 1


def conv_ref64(case, ws, x, qlist):
  """float64 value of the stock layer on the pre-quantized weights (no
  activation) and the float32 evaluation-error bound of ANY order of
  evaluation of that convolution:
     (n_terms + 3) * 2^-23 * (sum |w_i x_i| + |b|)  (+ denormal floor),
  n_terms = kernel taps * input channels per group."""
  roles = G.weight_roles(case)
  qw = [quantize(qlist.get(r), ws[r]) for r in roles]
  info = {}
  ref = _stock_forward(case, x, qw, info, dtype=np.float64)
  mag = _stock_forward(case, np.abs(x), [np.abs(w) for w in qw], info,
                       dtype=np.float64)
  k = ws[roles[0]]
  n_terms = int(np.prod(k.shape[:-1]))
  return ref, (n_terms + 3) * 2.0 ** -23 * mag + 1e-37, qw
def feedforward(case, ws, x, qlist, act, mask_first=False):
  """Dense / Conv / Depthwise / Separable / ScaleShift.

  QConv2D `mask` ("mask for kernel weights", shape kh x kw, broadcast over
  channels and filters): the stock layer gets q(kernel) * mask - the mask is
  applied to the weights the quantizer produced, so a masked tap contributes
  nothing whatever q(0) is.  mask_first=True is only the diagnostic variant
  q(kernel * mask)."""
  import tensorflow as tf  # pylint: disable=g-import-not-at-top
  info = {}
  roles = G.weight_roles(case)
  ws = dict(ws)
  mask = None
  if case.get("mask") is not None:
    mask = np.asarray(case["mask"], dtype=F32)[:, :, None, None]
    if mask_first:
      ws["kernel"] = tf.multiply(tf.constant(ws["kernel"]),
                                 tf.constant(mask)).numpy()
  qw = [quantize(qlist.get(r), ws[r]) for r in roles]
  if mask is not None and not mask_first:
    qw[0] = tf.multiply(tf.constant(qw[0]), tf.constant(mask)).numpy()
  if case["layer"] == "QScaleShift":
    # documented: output = scale * x + bias (one float32 multiply, one add;
    # done with TF ops so that denormals are flushed as in every TF kernel)
    y = tf.multiply(tf.constant(x), tf.constant(qw[0]))
    if len(qw) > 1:
      y = tf.add(tf.constant(qw[1]), y)
    return apply_act(act, y.numpy()), info
  y = _stock_forward(case, x, qw, info)
  info["pre_activation"] = y
  return apply_act(act, y), info


def recurrent(case, ws, x, qlist, act, ract, mode="loop"):
  """mode "loop": time loop over the stock *cell* fed with
  state_quantizer(state) (the only way to express a state quantizer with stock
  parts).  mode "layer": the stock recurrent layer itself (no state quantizer
  possible)."""
  import tensorflow as tf  # pylint: disable=g-import-not-at-top
  info = {}
  kw = case["kw"]
  roles = G.weight_roles(case)
  qw = [quantize(qlist.get(r), ws[r]) for r in roles]
  sq = qlist.get("state")
  if mode == "layer":
    if sq is not None:
      raise ValueError("a stock recurrent layer has no state quantizer")
    lay = G.build_stock_rnn(case, act, ract, cell=False)
    try:
      y = _run_stock(lay, x, qw)
    except AssertionError:
      raise
    except Exception as e:  # pylint: disable=broad-except
      raise StockUnsupported("%s: %s" % (type(e).__name__, str(e)[:200]))
    info["rnn_ref"] = "stock_layer"
    return y, info
  cell = G.build_stock_rnn(case, act, ract, cell=True)
  cell.build((None, x.shape[-1]))
  have = [tuple(w.shape) for w in cell.get_weights()]
  if have != [tuple(w.shape) for w in qw]:
    raise AssertionError("stock cell weight shapes %r" % (have,))
  cell.set_weights(qw)
  b, t = x.shape[0], x.shape[1]
  u = kw["units"]
  ns = 2 if case["layer"] == "QLSTM" else 1
  states = [tf.zeros((b, u), dtype=tf.float32) for _ in range(ns)]
  order = list(range(t))
  if kw.get("go_backwards"):
    order.reverse()
  outs = []
  xt = tf.constant(x)
  for i in order:
    st = [sq(s) if sq is not None else s for s in states]
    o, new = cell(xt[:, i, :], st, training=False)
    states = list(new) if isinstance(new, (list, tuple)) else [new]
    outs.append(o)
  if kw.get("return_sequences"):
    y = tf.stack(outs, axis=1).numpy()
  else:
    y = outs[-1].numpy()
  info["rnn_ref"] = "cell_loop"
  return np.asarray(y, dtype=F32), info


def fused_kernel_possible(case):
  """tf_keras' LSTM/GRU (v2) switch to their fused standard_lstm/standard_gru
  routine - a different order of float32 operations than the cell - when the
  activations are the plain tanh / sigmoid."""
  return (case["layer"] in ("QLSTM", "QGRU") and case.get("act") == "tanh" and
          case.get("ract") == "sigmoid")


def pooling(case, x, qlist):
  """Pre-activation reference in float64 and its error bound.

  mean64 = stock pooling layer run in float64 (exact window means up to
  float64 rounding); documented result = mean * pool_area * q(1/pool_area).
  The layer works in float32: x*area (1 rounding), a float32 average over
  n <= area terms (n roundings + division), the final product (1 rounding);
  bound = (area + 4) * 2^-23 * mean(|x|) * area * |q|  (+ denormal floor).
  Returns (ref64, tol64, qfactor) or (ref32, None, None) without quantizer.
  """
  import tensorflow as tf  # pylint: disable=g-import-not-at-top
  kw = case["kw"]
  q = qlist.get("average")
  if q is None:
    lay = G.build_stock(case)
    return _run_stock(lay, x, []), None, None
  cf = kw.get("data_format") == "channels_first"
  hw = case["in_shape"][2:4] if cf else case["in_shape"][1:3]
  if case["layer"] == "QAveragePooling2D":
    area = int(np.prod(kw["pool_size"]))
  else:
    area = int(hw[0] * hw[1])
  lay = G.build_stock(case, dtype="float64")
  x64 = tf.constant(x.astype(np.float64))
  m = np.asarray(lay(x64).numpy(), dtype=np.float64)
  ma = np.asarray(G.build_stock(case, dtype="float64")(tf.abs(x64)).numpy(),
                  dtype=np.float64)
  qf = float(np.asarray(q(tf.constant(1.0 / area, dtype=tf.float32))).reshape(
      -1)[0])
  ref = m * area * qf
  tol = (area + 4) * 2.0 ** -23 * ma * area * abs(qf) + 1e-37
  return ref, tol, qf


def reference(case, ws, x, qlist, act, ract=None, mode="loop",
              mask_first=False):
  fam = G.FAMILY[case["layer"]]
  if fam == "ff":
    return feedforward(case, ws, x, qlist, act, mask_first=mask_first)
  if fam == "rnn":
    return recurrent(case, ws, x, qlist, act, ract, mode=mode)
  raise ValueError(fam)
