"""C20 reference: an independent re-statement of the documented AutoQKeras
search-limit semantics and of the forgiving-factor / bit-size formulas.

Sources (documentation, not the implementation):
  * AutoQKHyperModel docstring + constructor comment: limit format
      {"Conv2D":[weight,bias,activation], "RNN":[weight,bias,recurrent,activation],
       "Dense":[weight,bias,activation], "Activation":[activation], "default": v}
    "default replaces missing values"; layers whose name/class is not in the
    limit are ignored; `layer_indexes`: only these layers are quantized.
  * notebook/AutoQKeras.ipynb: "at most N bits", regular-expression keys group
    layers so that they "use the same choice", an entry may be a list of
    quantizers from quantization_config instead of a number of bits;
    tune_filters layer/block/none, tune_filters_exceptions.
  * header comment of autoqkeras_internal.py + notebook: the forgiving factor
    delta = delta_x * log_rate(reference / trial).
Nothing in this file imports qkeras.autoqkeras.
"""
import math
import re

WEIGHT_CLASSES = ["Dense", "Conv1D", "Conv2D", "DepthwiseConv2D",
                  "SeparableConv1D", "SeparableConv2D",
                  "SimpleRNN", "LSTM", "GRU", "Bidirectional"]
RNN_CLASSES = ["SimpleRNN", "LSTM", "GRU", "Bidirectional"]
# classes that have a `filters` / `units` count the tuner may scale
SCALABLE = {"Dense": "units", "Conv1D": "filters", "Conv2D": "filters",
            "SeparableConv1D": "filters", "SeparableConv2D": "filters"}
FILTER_FACTORS = [0.5, 0.75, 1.0, 1.5, 2.0]

DEFAULT_QCONFIG = {   # notebook cell / quantization_config.py (documented)
    "kernel": [["binary", 1], ["stochastic_binary", 1], ["ternary", 2],
               ["stochastic_ternary", 2],
               ["quantized_bits(2,1,1,alpha=1.0)", 2],
               ["quantized_bits(4,0,1)", 4], ["quantized_bits(8,0,1)", 8],
               ["quantized_po2(4,1)", 4]],
    "bias": [["quantized_bits(4,0,1)", 4], ["quantized_bits(8,3,1)", 8],
             ["quantized_po2(4,8)", 4]],
    "activation": [["binary", 1], ["binary(alpha='auto_po2')", 1],
                   ["ternary", 2], ["quantized_relu(3,1)", 3],
                   ["quantized_relu(4,2)", 4], ["quantized_relu(8,2)", 8],
                   ["quantized_relu(8,4)", 8], ["quantized_relu(16,8)", 16],
                   ["quantized_relu_po2(4,4)", 4]],
    "linear": [["binary", 1], ["ternary", 2], ["quantized_bits(4,1)", 4],
               ["quantized_bits(8,2)", 8], ["quantized_bits(16,10)", 16],
               ["quantized_po2(6,4)", 6]],
}


def qconfig_pairs(spec):
  """section -> list of [string, bits] (ordered)."""
  qc = spec.get("qconfig", "default")
  if qc == "default":
    return {k: [list(p) for p in v] for k, v in DEFAULT_QCONFIG.items()}
  return {k: [list(p) for p in v] for k, v in qc.items()}


ROLES_PLAIN = ["kernel", "bias", "activation"]            # [kernel, bias, activation]
ROLES_RNN = ["kernel", "bias", "recurrent", "activation"]   # recurrent layers


def default_by_role(default):
  """'default' is one number for every role, or a list with the documented
  shape of a limit list: [kernel, bias, activation] or
  [kernel, bias, recurrent, activation].  Returns role -> entry."""
  if default is None:
    default = 8
  if not isinstance(default, list):
    return {r: default for r in ROLES_RNN}
  if len(default) == 4:
    return dict(zip(ROLES_RNN, default))
  if len(default) == 3:
    return dict(zip(ROLES_PLAIN, default))      # no recurrent default
  raise ValueError("default must be a number or a list of 3 or 4 entries")


def adjusted_limit(limit_pairs):
  """'default replaces missing values': a class limit list that is shorter than
  its documented shape is completed role by role from 'default' (regular-
  expression keys are not completed, they are always written in full)."""
  keys = [k for k, _ in limit_pairs]
  lim = {k: (list(v) if isinstance(v, list) else v) for k, v in limit_pairs}
  by_role = default_by_role(lim.get("default", None))
  for name in keys:
    if name not in WEIGHT_CLASSES:
      continue
    roles = ROLES_RNN if name in RNN_CLASSES else ROLES_PLAIN
    cur = list(lim[name])
    for role in roles[len(cur):]:
      cur.append(by_role[role])     # KeyError: recurrent layer + 3-entry default
    lim[name] = cur
  return keys, lim


def pattern_keys(keys):
  """Keys that are regular expressions on layer names (everything that is not
  'default' and not a Keras class name)."""
  return [k for k in keys if k != "default" and
          not re.fullmatch(r"[A-Z][A-Za-z0-9]*", k)]


def match_key(keys, name, cls):
  """First regular-expression key (in dictionary order) matching the layer
  name wins; otherwise the class name.  Returns (key, 'pattern'|'class') or
  (None, None)."""
  for k in pattern_keys(keys):
    if re.match(k, name):
      return k, "pattern"
  if cls in keys:
    return cls, "class"
  return None, None


def role_entry(entry_list, role):
  """Limit entry of a role inside [weight, bias, (recurrent,) activation]."""
  if role in ("kernel", "pointwise"):
    return entry_list[0]
  if role == "bias":
    return entry_list[1]
  if role == "recurrent":
    # "RNN":[weight,bias,recurrent,activation]
    return entry_list[2] if len(entry_list) >= 4 else entry_list[0]
  # activation, linear, recurrent_activation: the last entry
  return entry_list[-1]


ROLE_SECTION = {"kernel": "kernel", "pointwise": "kernel",
                "recurrent": "kernel", "bias": "bias",
                "activation": "activation", "linear": "linear",
                "recurrent_activation": "recurrent_activation"}


def allowed_strings(section_pairs, entry):
  """Strings of a configuration section admitted by a limit entry."""
  if isinstance(entry, list):
    names = [s for s, _ in section_pairs]
    return [s for s in entry if s in names]
  return [s for s, b in section_pairs if b <= entry]


def is_nonquant_activation(act):
  return act in (None, "linear", "softmax")


def scaled(n, f):
  return max(int(n * f), 1)


# ---------------------------------------------------------------------------
# forgiving factor


def delta_formula(delta_p, delta_n, rate, reference, trial):
  """delta = (delta_x/100) * log(reference/trial) / log(rate); delta_p when the
  trial is smaller than the reference, delta_n otherwise (float64)."""
  i = math.log(float(reference) / float(trial)) / math.log(float(rate))
  return (delta_p if trial < reference else delta_n) / 100.0 * i


# ---------------------------------------------------------------------------
# independent bit-size model of a small chain model description
# (vf.gen.autoqk size specs): own shape propagation, no Keras involved.


def _conv_out(n, k, padding):
  return n if padding == "same" else n - k + 1


def size_model(spec):
  """Returns (per_layer, out_shapes): per_layer[name] = (parameters, activations)
  for dense/conv/activation layers; bits = quantizer bits, reference width
  where no quantizer is applied."""
  t = spec["ref_bits"]
  o = spec["output_bits"]
  shape = list(spec["input"])
  per = {}
  shapes = {}
  for l in spec["layers"]:
    k = l["k"]
    base = k[1:] if k.startswith("Q") else k
    params = acts = None
    if base in ("Dense", "Conv2D", "Conv1D", "DepthwiseConv2D"):
      cin = shape[-1]
      if base == "Dense":
        wshapes = [cin * l["units"]]
        shape = shape[:-1] + [l["units"]]
        nb = l["units"]
      elif base == "Conv2D":
        wshapes = [l["ks"] * l["ks"] * cin * l["filters"]]
        shape = [_conv_out(shape[0], l["ks"], l["padding"]),
                 _conv_out(shape[1], l["ks"], l["padding"]), l["filters"]]
        nb = l["filters"]
      elif base == "Conv1D":
        wshapes = [l["ks"] * cin * l["filters"]]
        shape = [_conv_out(shape[0], l["ks"], l["padding"]), l["filters"]]
        nb = l["filters"]
      else:
        wshapes = [l["ks"] * l["ks"] * cin]
        shape = [_conv_out(shape[0], l["ks"], l["padding"]),
                 _conv_out(shape[1], l["ks"], l["padding"]), cin]
        nb = cin
      wbits = [l.get("kq_bits") or t]
      if l.get("use_bias", True):
        wshapes.append(nb)
        wbits.append(l.get("bq_bits") or t)
      params = sum(n * b for n, b in zip(wshapes, wbits))
      numel = 1
      for d in shape:
        numel *= d
      a = l.get("act")
      if a in (None, "linear"):
        acts = 0
      elif a == "softmax":
        acts = o * numel
      elif l.get("act_bits"):
        acts = l["act_bits"] * numel
      else:
        acts = t * numel
    elif base == "Activation":
      numel = 1
      for d in shape:
        numel *= d
      a = l["act"]
      params = 0
      if a == "linear":
        acts = 0
      elif a in ("softmax", "sigmoid"):
        acts = o * numel
      elif l.get("act_bits"):
        acts = l["act_bits"] * numel
      else:
        acts = t * numel
    elif base == "Flatten":
      n = 1
      for d in shape:
        n *= d
      shape = [n]
    elif base == "MaxPooling2D":
      shape = [shape[0] // 2, shape[1] // 2, shape[2]]
    else:
      raise ValueError("size_model: unknown layer kind %r" % k)
    shapes[l["name"]] = list(shape)
    if params is not None:
      per[l["name"]] = (params, acts)
  return per, shapes
