"""Float64 references for batch-norm folding (C15), written from the property
statement and the TensorFlow documentation of conv2d / depthwise_conv2d
("SAME"/"VALID" padding, strides, dilation, channels_last).  numpy only.

  conv2d(x, k, ...)      x (n,h,w,c)   k (kh,kw,c,f)   -> (n,oh,ow,f)
  depthwise(x, k, ...)   x (n,h,w,c)   k (kh,kw,c,m)   -> (n,oh,ow,c*m)
                         (output channel c*m_total + m, as documented)
  fold(...)              closed form of the statement:
                           Kf = kernel * gamma / sqrt(var + eps)
                           Bf = (bias - mean) * gamma / sqrt(var + eps) + beta
"""
import numpy as np

F64 = np.float64


def _out_and_pad(size, k, stride, dil, padding):
  ke = (k - 1) * dil + 1
  if padding == "same":
    out = -(-size // stride)
    total = max((out - 1) * stride + ke - size, 0)
    return out, total // 2, total - total // 2
  out = (size - ke) // stride + 1
  return out, 0, 0


def _patches(x, kh, kw, strides, padding, dilation):
  """Yields (i, j, window) with window (n,oh,ow,c) = inputs seen by tap (i,j)."""
  n, h, w, c = x.shape
  sh, sw = strides
  dh, dw = dilation
  oh, pt, pb = _out_and_pad(h, kh, sh, dh, padding)
  ow, pl, pr = _out_and_pad(w, kw, sw, dw, padding)
  assert oh >= 1 and ow >= 1, "empty output: generator bug"
  xp = np.zeros((n, h + pt + pb, w + pl + pr, c), dtype=F64)
  xp[:, pt:pt + h, pl:pl + w, :] = x
  for i in range(kh):
    for j in range(kw):
      r0, c0 = i * dh, j * dw
      yield i, j, xp[:, r0:r0 + (oh - 1) * sh + 1:sh,
                     c0:c0 + (ow - 1) * sw + 1:sw, :]


def conv2d(x, k, strides=(1, 1), padding="valid", dilation=(1, 1)):
  x = np.asarray(x, dtype=F64)
  k = np.asarray(k, dtype=F64)
  out = None
  for i, j, win in _patches(x, k.shape[0], k.shape[1], strides, padding,
                            dilation):
    t = np.einsum("nhwc,cf->nhwf", win, k[i, j])
    out = t if out is None else out + t
  return out


def depthwise(x, k, strides=(1, 1), padding="valid", dilation=(1, 1)):
  x = np.asarray(x, dtype=F64)
  k = np.asarray(k, dtype=F64)
  out = None
  for i, j, win in _patches(x, k.shape[0], k.shape[1], strides, padding,
                            dilation):
    t = np.einsum("nhwc,cm->nhwcm", win, k[i, j])
    out = t if out is None else out + t
  n, oh, ow, c, m = out.shape
  return out.reshape(n, oh, ow, c * m)


def conv_any(kind, x, k, strides, padding, dilation):
  f = conv2d if kind == "conv" else depthwise
  return f(x, k, tuple(strides), padding, tuple(dilation))


def ginv(gamma, var, eps):
  """gamma / sqrt(var + eps) per output channel (gamma None = no scaling)."""
  var = np.asarray(var, dtype=F64)
  g = np.ones_like(var) if gamma is None else np.asarray(gamma, dtype=F64)
  return g / np.sqrt(var + F64(eps))


def fold(kind, kernel, bias, gamma, beta, mean, var, eps):
  """Closed-form folded (kernel, bias) in float64, plus magnitude bounds
  (same expressions with absolute values) used for tolerances."""
  kernel = np.asarray(kernel, dtype=F64)
  mean = np.asarray(mean, dtype=F64)
  gi = ginv(gamma, var, eps)
  b = np.zeros_like(mean) if bias is None else np.asarray(bias, dtype=F64)
  bt = np.zeros_like(mean) if beta is None else np.asarray(beta, dtype=F64)
  if kind == "conv":
    kf = kernel * gi            # broadcast over the last (filter) axis
  else:
    kh, kw, c, m = kernel.shape
    kf = kernel * gi.reshape(c, m)
  bf = (b - mean) * gi + bt
  bf_mag = (np.abs(b) + np.abs(mean)) * np.abs(gi) + np.abs(bt)
  return kf, bf, bf_mag


def conv_bn(kind, x, kernel, bias, gamma, beta, mean, var, eps, strides,
            padding, dilation):
  """Convolution followed by inference batch normalisation, float64.
  Returns (reference, magnitude) where magnitude is the same expression
  evaluated with absolute values (an a-priori scale for float32 error)."""
  x = np.asarray(x, dtype=F64)
  kernel = np.asarray(kernel, dtype=F64)
  mean = np.asarray(mean, dtype=F64)
  gi = ginv(gamma, var, eps)
  b = np.zeros_like(mean) if bias is None else np.asarray(bias, dtype=F64)
  bt = np.zeros_like(mean) if beta is None else np.asarray(beta, dtype=F64)
  c = conv_any(kind, x, kernel, strides, padding, dilation)
  ref = (c + b - mean) * gi + bt
  ca = conv_any(kind, np.abs(x), np.abs(kernel), strides, padding, dilation)
  mag = (ca + np.abs(b) + np.abs(mean)) * np.abs(gi) + np.abs(bt)
  return ref, mag


def conv_bias(kind, x, kernel, bias, strides, padding, dilation):
  """conv(x, kernel) + bias in float64 with its magnitude."""
  x = np.asarray(x, dtype=F64)
  kernel = np.asarray(kernel, dtype=F64)
  bias = np.asarray(bias, dtype=F64)
  ref = conv_any(kind, x, kernel, strides, padding, dilation) + bias
  mag = conv_any(kind, np.abs(x), np.abs(kernel), strides, padding,
                 dilation) + np.abs(bias)
  return ref, mag
