"""Brute-force geometry and MAC counting (C19), also used by C18 to place
worst-case patches.  Nothing here looks at Keras or qkeras: output positions
are enumerated by sliding the (dilated) window over the (padded) input.

Convention (stated in the evidence of C19): the loop nest is *dense* - one MAC
per (output element, kernel tap, input channel connected to it); taps that fall
on zero padding are executed and counted.
"""


def window_starts(n_in, k, stride, dilation, padding):
  """Input coordinate of tap 0 for every output position along one axis."""
  eff = (k - 1) * dilation + 1
  starts = []
  if padding == "valid":
    o = 0
    while o * stride + eff <= n_in:
      starts.append(o * stride)
      o += 1
    return starts
  if padding == "same":
    n_out = 0
    while n_out * stride < n_in:      # ceil(n_in / stride)
      n_out += 1
    pad_total = max((n_out - 1) * stride + eff - n_in, 0)
    before = pad_total // 2
    return [o * stride - before for o in range(n_out)]
  if padding == "causal":
    before = eff - 1
    o = 0
    while o * stride + eff <= n_in + before:
      starts.append(o * stride - before)
      o += 1
    return starts
  raise ValueError(padding)


def _tuple(v, n):
  if isinstance(v, (list, tuple)):
    assert len(v) == n
    return tuple(int(a) for a in v)
  return (int(v),) * n


def conv_positions(spatial, kernel, strides, dilation, padding):
  """List (one per spatial axis) of window-start lists."""
  n = len(spatial)
  kernel, strides, dilation = _tuple(kernel, n), _tuple(strides, n), _tuple(dilation, n)
  return [window_starts(spatial[a], kernel[a], strides[a], dilation[a], padding)
          for a in range(n)]


def count_conv(spatial, cin, cout, kernel, strides, dilation, padding):
  """MACs of a full convolution: every output channel reads every input
  channel at every tap."""
  n = len(spatial)
  kernel = _tuple(kernel, n)
  pos = conv_positions(spatial, kernel, strides, dilation, padding)
  count = 0
  if n == 1:
    for _ in pos[0]:
      for _t in range(kernel[0]):
        count += cin * cout
  else:
    for _ in pos[0]:
      for _w in pos[1]:
        for _th in range(kernel[0]):
          for _tw in range(kernel[1]):
            count += cin * cout
  return count, [len(p) for p in pos]


def count_depthwise(spatial, cin, depth_multiplier, kernel, strides, dilation,
                    padding):
  """Each of the cin*depth_multiplier output channels reads ONE input channel."""
  kernel = _tuple(kernel, 2)
  pos = conv_positions(spatial, kernel, strides, dilation, padding)
  count = 0
  for _ in pos[0]:
    for _w in pos[1]:
      for _th in range(kernel[0]):
        for _tw in range(kernel[1]):
          for _c in range(cin):
            count += depth_multiplier
  return count, [len(p) for p in pos]


def count_dense(n_in, n_out):
  count = 0
  for _ in range(n_in):
    for _o in range(n_out):
      count += 1
  return count


def count_avgpool(spatial, channels, pool, strides, padding):
  """Accumulations of an average pooling: one add per (output element, tap)."""
  pool = _tuple(pool, 2)
  pos = conv_positions(spatial, pool, strides, (1, 1), padding)
  count = 0
  for _ in pos[0]:
    for _w in pos[1]:
      for _th in range(pool[0]):
        for _tw in range(pool[1]):
          count += channels
  return count, [len(p) for p in pos]


def count_global_avgpool(spatial, channels):
  count = 0
  for _ in range(spatial[0]):
    for _w in range(spatial[1]):
      count += channels
  return count


def prod(shape):
  p = 1
  for s in shape:
    p *= int(s)
  return p
