"""Runner: ./check <ID> [--tier quick|thorough] [--replay PATH] [--workers N]

Contract (see DESIGN.md 1.4):
  exit 0  property held on everything explored (known findings printed as
          "KNOWN-FINDING: property=<id> <what>")
  exit 1  + "VIOLATION property=<id> replay=<path>" for every failure whose
          signature is not listed in known_findings.json
  exit 2  harness error (never reported as a violation)
"""
import argparse
import concurrent.futures as cf
import importlib
import json
import multiprocessing as mp
import os
import sys
import time
import traceback

from vf import core

HERE = os.path.dirname(os.path.dirname(os.path.abspath(__file__)))


def _worker(pid, tier, seed, idx, n, budget_s, replay_case):
  try:
    if not os.environ.get("VERIF_DEBUG"):
      d = os.path.join(HERE, "out", "logs")
      os.makedirs(d, exist_ok=True)
      fd = os.open(os.path.join(d, "%s.w%d.err" % (pid, idx)),
                   os.O_WRONLY | os.O_CREAT | os.O_TRUNC)
      os.dup2(fd, 2)
    core.pin_environment()
    mod = importlib.import_module("vf.props." + pid.lower())
    last = None
    for attempt in (0, 1):
      # A worker that dies with an unexpected exception (seen once: a transient
      # TF autograph KeyError('__class__') while converting a layer constructor
      # on the first model a process builds) is re-run once from scratch in a
      # fresh Keras session; a deterministic harness bug fails twice -> exit 2.
      ctx = core.Ctx(pid, tier, seed, idx, n, budget_s)
      try:
        if replay_case is not None:
          mod.replay(ctx, replay_case)
        else:
          if idx == 0:
            core.run_committed_replays(ctx, mod)
          mod.run(ctx)
        res = ctx.result()
        if attempt:
          res["info"]["worker_retried"] = 1
        return res
      except core.HarnessError:
        raise
      except Exception as e:  # pylint: disable=broad-except
        last = e
        sys.stderr.write("worker %d attempt %d failed: %s\n%s\n" % (
            idx, attempt, e, traceback.format_exc()))
        try:
          import tensorflow as tf  # pylint: disable=g-import-not-at-top
          tf.keras.backend.clear_session()
          core.reset_globals()
        except Exception:  # pylint: disable=broad-except
          pass
    raise last
  except core.HarnessError as e:
    return {"harness_error": "%s" % e, "trace": traceback.format_exc()}
  except BaseException as e:  # pylint: disable=broad-except
    return {"harness_error": "%s: %s" % (type(e).__name__, e),
            "trace": traceback.format_exc()}


def main():
  ap = argparse.ArgumentParser()
  ap.add_argument("pid")
  ap.add_argument("--tier", default=None)
  ap.add_argument("--replay", default=None)
  ap.add_argument("--workers", type=int, default=None)
  ap.add_argument("--budget", type=float, default=None,
                  help="per-worker soft time budget in seconds")
  args = ap.parse_args()
  pid = args.pid.upper()
  tier = args.tier or os.environ.get("VERIF_TIER") or "quick"
  if tier not in ("quick", "thorough"):
    tier = "quick"
  try:
    seed = int(os.environ.get("VERIF_SEED", "1"))
  except ValueError:
    seed = 1
  t0 = time.time()

  repo = os.environ.get("VERIF_REPO", "/repo")
  try:
    mod = importlib.import_module("vf.props." + pid.lower())
  except Exception:  # pylint: disable=broad-except
    traceback.print_exc()
    print("HARNESS-ERROR cannot import property module for %s" % pid)
    return 2

  replay_case = None
  if args.replay:
    with open(args.replay) as f:
      rp = json.load(f)
    replay_case = rp["case"] if "case" in rp else rp
    nworkers = 1
  else:
    nworkers = args.workers or getattr(mod, "WORKERS", {}).get(
        tier, min(16, os.cpu_count() or 1))
  budget = args.budget or getattr(mod, "BUDGET_S", {}).get(
      tier, 90.0 if tier == "quick" else 900.0)

  results = []
  if nworkers == 1:
    results.append(_worker(pid, tier, seed, 0, 1, budget, replay_case))
  else:
    ctxm = mp.get_context("spawn")
    try:
      with cf.ProcessPoolExecutor(max_workers=nworkers, mp_context=ctxm) as ex:
        futs = [ex.submit(_worker, pid, tier, seed, i, nworkers, budget, None)
                for i in range(nworkers)]
        for fu in futs:
          results.append(fu.result())
    except Exception as e:  # pylint: disable=broad-except
      traceback.print_exc()
      print("HARNESS-ERROR worker pool failed: %s" % e)
      return 2

  errs = [r for r in results if "harness_error" in r]
  if errs:
    for r in errs:
      print("HARNESS-ERROR %s" % r["harness_error"])
      sys.stderr.write(r.get("trace", "") + "\n")
    return 2

  merged = core.merge_results(results)
  known = core.load_known(pid)
  rc = core.finalize(pid, tier, seed, merged, known, mod, time.time() - t0,
                     is_replay=replay_case is not None, repo=repo)
  return rc


if __name__ == "__main__":
  sys.exit(main())
