"""C04 - binary / ternary quantizers: outputs are scale x code with the code in
{-1,+1} / {0,1} / {-1,0,+1}, sign- and threshold-correct; a data-dependent
scale is non-negative, constant per channel/group, the least-squares optimum
of its group, and (auto_po2) an exact power of two inside the exponent bounds.
"""
import numpy as np

from vf import core
from vf.gen import scaled as G
from vf.ref import scale as R

RULE = ("cases = (binary|ternary configuration: alpha in {None, 0.5, 1, 2, "
        "'auto', 'auto_po2'}, use_01, threshold, number_of_unrolls 1..5, "
        "scale_axis None/int/list, elements_per_scale int/list dividing the "
        "axes, min/max_po2_exponent) x (float32 tensor of rank 1..4, <= 96 (thorough: 256) "
        "elements, built group by group: normal / all-zero / single non-zero "
        "/ constant / sign-aligned / 2^-6 and 2^+6 relative magnitude, overall "
        "magnitude 2^-20..2^20) drawn by Hypothesis; a quarter of the auto "
        "cases carry a metamorphic follow-up (modify one group / reverse the "
        "element order inside every group). Non-trivial = data-dependent "
        "scale, rank >= 2 and at least two groups whose scales differ; "
        "distinct by hash of (config, shape, tensor).")
ASSUMPTIONS = [
    "checks run under TF_USE_LEGACY_KERAS=1 (tf_keras), float32, eager, "
    "K.epsilon()==1e-7, channels_last",
    "use_stochastic_rounding=True is generated for binary and ternary('auto*') "
    "and evaluated at learning phase 0 only, where the library documents the "
    "deterministic behaviour (same oracle; the training phase is C08's); "
    "number_of_unrolls >= 1 "
    "(0 leaves the code undefined in the library: UnboundLocalError)",
    "scale_axis entries are non-negative and ascending; elements_per_scale "
    "only together with an explicit scale_axis (the library asserts it)",
    "constant alpha in {0.5,1,2} and power-of-two scales: outputs are compared "
    "with scale*code exactly (x+(xq-x) is exact in float32 while |x| < "
    "2^23*scale); random inputs stay below 2^21; the deterministic probes "
    "3e7/1e9 lie beyond and a failure there carries region=ste_cancellation",
    "float ('auto') scales: |y - scale*code| <= 2 float32 ulp of "
    "max(|x|,|scale|): y = fl(x + fl(xq - x)) is within 1.5 ulp of xq by "
    "construction (|x| <= n*scale in a group of n); measured worst case on "
    "the unchanged tree: 1.0 ulp",
    "least-squares scale: |scale - sum(x*c)/sum(c*c)| <= "
    "(1.01e-7*n/sum(c*c) + (n+8)*2^-24) relative, n = group size: the "
    "library divides means and adds K.epsilon() to the mean of c*c, and sums "
    "in float32; groups whose codes are all zero only need scale >= 0",
    "auto_po2: the scale must be the power of two nearest (in log2) to the "
    "least-squares optimum clipped to the exponent bounds, with slack "
    "1e-3 + log2(1+1e-7/optimum) for the float32 log and the epsilon term",
    "ternary thresholds are compared as float32 values; for 'auto' the "
    "threshold is scale/2 of the scale entering the last documented "
    "iteration, recomputed in float64; tensors with an element within 1e-5 "
    "relative of such a threshold, or a scale within 1e-3 (log2) of a "
    "power-of-two rounding tie, are skipped for that clause only "
    "(label threshold_ambiguous)",
    "the follow-up call of a metamorphic case and the call after a priming "
    "tensor (case['prime']) use the same quantizer object: q.scale must "
    "describe the latest call",
    "metamorphic: scales/outputs of untouched groups are bit-identical; "
    "reversing the elements of every group changes binary scales by <= "
    "(n+8)*2^-23 relative (float32 summation order), exact for auto_po2 "
    "unless within the tie slack",
]
BUDGET_S = {"quick": 30, "thorough": 800}
REQUIRED_LABELS = {
    t: ["binary", "ternary", "alpha:none", "alpha:const", "alpha:auto",
        "alpha:auto_po2", "use_01", "rank1", "rank2", "rank3", "rank4",
        "axis_int", "axis_list", "eps", "po2_bounds", "zero_group",
        "threshold_checked", "meta_modify", "meta_reverse", "ls_checked", "primed",
        "sr_inference:binary", "sr_inference:ternary",
        "bounds_active"]
    for t in ("quick", "thorough")}

EPS = R.EPS


def _base(cfg):
  kw = cfg["kw"]
  sig = {"cls": cfg["cls"], "alpha": G.alpha_kind(kw.get("alpha"))}
  if cfg["cls"] == "binary" and kw.get("use_01"):
    sig["use_01"] = True
  if kw.get("use_stochastic_rounding"):
    sig["stochastic_rounding"] = "inference"
  return sig


def _labels(case):
  cfg = case["cfg"]
  kw = cfg["kw"]
  labs = [cfg["cls"], "alpha:" + G.alpha_kind(kw.get("alpha")),
          "rank%d" % len(case["shape"]), G.axis_kind(kw)]
  if kw.get("use_01"):
    labs.append("use_01")
  if kw.get("use_stochastic_rounding"):
    labs.append("sr_inference:" + cfg["cls"])
  if kw.get("elements_per_scale") is not None:
    labs.append("eps")
    if isinstance(kw["elements_per_scale"], list):
      labs.append("eps_list")
  if kw.get("min_po2_exponent") is not None or kw.get("max_po2_exponent") is not None:
    labs.append("po2_bounds")
  if kw.get("threshold") is not None:
    labs.append("threshold_set")
  return labs


def prime_tensor(x32):
  """A different tensor of the same shape, fed to the same quantizer object
  first when case['prime'] is set (stale per-call state must not leak)."""
  return (np.roll(x32.reshape(-1), 1).reshape(x32.shape) * np.float32(-2.5)
          + np.float32(0.375)).astype(np.float32)


def evaluate(cfg, shape, xs, st=None, q=None, prime=False):
  """Runs the quantizer once and checks every single-call clause.
  Returns (fails, obs) with obs = dict(y, s, codes, q) or None."""
  st = st if st is not None else {}
  fails = []
  kw = cfg["kw"]
  base = _base(cfg)
  alpha = kw.get("alpha")
  auto = isinstance(alpha, str)
  x32 = np.asarray(xs, dtype=np.float32).reshape(shape)
  x = x32.astype(np.float64)
  try:
    if q is None:
      q = G.build(cfg)
    if prime:
      G.call(q, prime_tensor(x32))
    y32 = G.call(q, x32)
    s_raw = G.scale_of(q)
  except Exception as e:  # pylint: disable=broad-except
    sig = dict(core.exc_signature(e), **base)
    return [("call_raises", sig, repr(e)[:300])], None
  finally:
    core.reset_globals()
  y = y32.astype(np.float64)
  if y.shape != x.shape:
    return [("output_shape", dict(base), "x%s -> y%s" % (x.shape, y.shape))], None
  if s_raw is None:
    return [("scale_missing", dict(base), "q.scale is None after the call")], None
  try:
    s = np.broadcast_to(s_raw, x.shape).astype(np.float64)
  except ValueError:
    return [("scale_shape", dict(base, axis=G.axis_kind(kw)),
             "q.scale%s does not broadcast to x%s" % (s_raw.shape, x.shape))], None
  if not np.isfinite(s).all() or (s < 0).any():
    bad = s[~(np.isfinite(s) & (s >= 0))]
    fails.append(("scale_sign", dict(base), "scale values %r" % bad[:4]))
    return fails, None
  if not auto:
    want = 1.0 if alpha is None else float(alpha)
    if not (s == want).all():
      fails.append(("scale_const", dict(base), "q.scale=%r, alpha=%r" % (s_raw, alpha)))
      return fails, None

  # ---- expected codes -------------------------------------------------
  thr_checked = False
  if cfg["cls"] == "binary":
    cset = [0.0, 1.0] if kw.get("use_01") else [-1.0, 1.0]
    cexp = R.binary_codes(x, kw.get("use_01"))
    rule = "sign_rule"
    known = np.ones(x.shape, dtype=bool)
  else:
    cset = [-1.0, 0.0, 1.0]
    rule = "threshold_rule"
    if auto:
      cexp, _, thr, flags = R.ternary_auto_trace(
          x, shape, alpha == "auto_po2", kw.get("number_of_unrolls", 5))
      if flags.get("tie") or flags.get("eps"):
        known = np.zeros(x.shape, dtype=bool)
        st["threshold_ambiguous"] = True
      else:
        known = np.ones(x.shape, dtype=bool)
        thr_checked = True
    else:
      t = 0.33 if kw.get("threshold") is None else kw["threshold"]
      cexp = R.ternary_codes_const(x, t)
      known = np.ones(x.shape, dtype=bool)
      thr_checked = True
  st["threshold_checked"] = thr_checked and cfg["cls"] == "ternary"

  # ---- outputs are scale * code --------------------------------------
  s32 = s.astype(np.float32).astype(np.float64)
  po2_scale = bool(R.is_po2(np.where(s > 0, s, 1.0)).all())
  # power-of-two / constant scales: exact comparison everywhere; elements with
  # |x| >= 2^23*scale are outside the exact regime of x+(xq-x) and a failure
  # there is bucketed as region=ste_cancellation
  inside = np.abs(x) < 2.0 ** 23 * np.where(s > 0, s, np.inf)
  if alpha is None:
    inside = np.ones(x.shape, dtype=bool)    # tanh surrogate, |s| <= 1
  tol = np.zeros(x.shape) if po2_scale else \
      2.0 * R.ulp32(np.maximum(np.abs(x), np.abs(s32)))
  if not po2_scale:
    st["float_scale"] = True
  elif (~inside).any():
    st["outside_exact_regime"] = True
  # which code of the set does each output carry?
  cobs = np.full(x.shape, np.nan)
  best = np.full(x.shape, np.inf)
  for c in cset:
    d = np.abs(y - s32 * c)
    hit = (d <= tol) & (d < best)
    cobs = np.where(hit, c, cobs)
    best = np.where(hit, d, best)
  # scale 0: every code gives 0; take the expected one when the output is 0
  zero_s = (s == 0)
  cobs = np.where(zero_s & (y == 0), cexp, cobs)
  off = np.isnan(cobs)
  if off.any():
    i = int(np.argmax(off.reshape(-1)))
    xf, yf, sf = x.reshape(-1)[i], y.reshape(-1)[i], s.reshape(-1)[i]
    kind = "nonfinite" if not np.isfinite(yf) else "off_code"
    region = "exact_regime" if inside.reshape(-1)[i] else "ste_cancellation"
    if off.reshape(-1)[inside.reshape(-1)].any():
      i = int(np.argmax((off & inside).reshape(-1)))
      xf, yf, sf = x.reshape(-1)[i], y.reshape(-1)[i], s.reshape(-1)[i]
      region = "exact_regime"
    fails.append(("code_set", dict(base, kind=kind, region=region),
                  "x=%r y=%r scale=%r y/scale=%r not in %r" %
                  (xf, yf, sf, (yf / sf if sf else float("nan")), cset)))
  wrong = (~off) & known & (cobs != cexp) & ~zero_s
  if wrong.any():
    if (wrong & inside).any():
      wrong = wrong & inside        # report an in-regime element first
    idx = np.nonzero(wrong.reshape(-1))[0]
    i = int(idx[np.argmin(np.abs(x.reshape(-1)[idx]))])
    xf = x.reshape(-1)[i]
    regime = {} if inside.reshape(-1)[i] else {"regime": "ste_cancellation"}
    if cfg["cls"] == "binary":
      region = "zero" if xf == 0 else ("negative" if xf < 0 else "positive")
    else:
      region = "zeroed_above_threshold" if cobs.reshape(-1)[i] == 0 else (
          "kept_below_threshold" if cexp.reshape(-1)[i] == 0 else "sign")
    fails.append((rule, dict(base, region=region, **regime),
                  "x=%r y=%r scale=%r code=%r expected code=%r" %
                  (xf, y.reshape(-1)[i], s.reshape(-1)[i],
                   cobs.reshape(-1)[i], cexp.reshape(-1)[i])))
  if cfg["cls"] == "ternary" and auto and len(shape) >= 2 and not off.any():
    # a per-channel threshold exists: within a channel no zeroed element is
    # larger in magnitude than a kept one
    gch = R.group_ids(shape, None, None)
    ax = np.abs(x)
    kept_min = R.gmin(gch, np.where(cobs != 0, ax, np.inf))
    zero_max = R.gmax(gch, np.where((cobs == 0) & (s > 0), ax, -np.inf))
    badg = zero_max > kept_min
    if badg.any():
      g = int(np.argmax(badg))
      fails.append(("threshold_rule", dict(base, region="no_common_threshold"),
                    "channel %d: zeroed |x|=%r > kept |x|=%r" %
                    (g, zero_max[g], kept_min[g])))
    st["threshold_order_checked"] = True

  obs = {"y": y32, "s": s, "codes": cobs, "ok": not fails, "q": q}
  if not auto or fails:
    return fails, obs

  # ---- data-dependent scale ------------------------------------------
  gid = R.group_ids(shape, kw.get("scale_axis"), kw.get("elements_per_scale"))
  ng = R.n_groups(gid)
  smax, smin = R.gmax(gid, s, ng), R.gmin(gid, s, ng)
  if (smax != smin).any():
    g = int(np.argmax(smax != smin))
    fails.append(("scale_grouping",
                  dict(base, axis=G.axis_kind(kw),
                       eps=kw.get("elements_per_scale") is not None),
                  "group %d of %d holds scales %r..%r (shape %r scale_axis %r "
                  "elements_per_scale %r, q.scale shape %r)" %
                  (g, ng, smin[g], smax[g], shape, kw.get("scale_axis"),
                   kw.get("elements_per_scale"), s_raw.shape)))
    return fails, obs
  sg = smax
  num, den, cnt = R.ls_parts(x, cobs, gid)
  live = den > 0
  st["zero_group"] = bool((R.gmax(gid, np.abs(x), ng) == 0).any())
  st["groups"] = ng
  st["distinct_scales"] = len(set(sg.tolist()))
  if live.any():
    st["ls_checked"] = True
  opt = np.where(live, num / np.where(live, den, 1.0), 0.0)
  if alpha == "auto":
    rel = 1.01 * EPS * cnt / np.where(live, den, 1.0) + (cnt + 8) * 2.0 ** -24
    bad = live & (np.abs(sg - opt) > rel * np.abs(opt))
    if bad.any():
      g = int(np.argmax(bad))
      fails.append(("ls_scale", dict(base, axis=G.axis_kind(kw),
                                     eps=kw.get("elements_per_scale") is not None),
                    "group %d: scale=%r, sum(x*c)/sum(c*c)=%r (rel diff %.3g, "
                    "allowed %.3g, n=%d)" %
                    (g, sg[g], opt[g], abs(sg[g] - opt[g]) / abs(opt[g]),
                     rel[g], cnt[g])))
    st["max_ls_rel"] = float(np.max(np.where(
        live & (opt != 0), np.abs(sg - opt) / np.where(opt != 0, np.abs(opt), 1.0)
        / np.maximum(rel, 1e-300), 0.0)))
  else:
    p2 = R.is_po2(sg)
    if not p2.all():
      g = int(np.argmax(~p2))
      fails.append(("po2", dict(base), "group %d: scale=%r is not a power of "
                    "two" % (g, sg[g])))
      return fails, obs
    e = R.po2_exponent(sg).astype(np.float64)
    lo, hi = kw.get("min_po2_exponent"), kw.get("max_po2_exponent")
    outb = np.zeros(ng, dtype=bool)
    if lo is not None:
      outb |= e < lo
    if hi is not None:
      outb |= e > hi
    if outb.any():
      g = int(np.argmax(outb))
      fails.append(("po2_bounds", dict(base, side="below" if (lo is not None and e[g] < lo) else "above"),
                    "group %d: log2(scale)=%d outside [%r,%r]" % (g, e[g], lo, hi)))
    # nearest power of two to the optimum, clipped to the bounds
    with np.errstate(divide="ignore", invalid="ignore"):
      t = np.log2(np.where(live & (opt > 0), opt, 1.0))
      slack = 1e-3 + np.log2(1.0 + EPS / np.where(live & (opt > 0), opt, 1.0))
    tlo = t - 0.5 - 1e-3
    thi = t + 0.5 + slack
    if lo is not None:
      tlo, thi = np.maximum(tlo, lo), np.maximum(thi, lo)
    if hi is not None:
      tlo, thi = np.minimum(tlo, hi), np.minimum(thi, hi)
    chk = live & (opt > 0)
    bad = chk & ((e < tlo) | (e > thi))
    if (lo is not None and (chk & (e == lo) & (t < lo)).any()) or \
       (hi is not None and (chk & (e == hi) & (t > hi)).any()):
      st["bounds_active"] = True
    if bad.any() and not outb.any():
      g = int(np.argmax(bad))
      fails.append(("po2_nearest", dict(base, side="low" if e[g] < tlo[g] else "high"),
                    "group %d: log2(scale)=%d but log2(least-squares optimum)"
                    "=%.5f (bounds [%r,%r])" % (g, e[g], t[g], lo, hi)))
  obs["sg"] = sg
  obs["gid"] = gid
  obs["ok"] = not fails
  return fails, obs


def oracle(ctx, case, tick=True):
  cfg, shape, xs = case["cfg"], case["shape"], case["xs"]
  kw = cfg["kw"]
  st = {}
  fails, obs = evaluate(cfg, shape, xs, st, prime=bool(case.get("prime")))
  labs = _labels(case)
  if case.get("prime"):
    labs.append("primed")
  meta = case.get("meta")
  if meta and obs is not None and obs.get("ok") and "gid" in obs:
    base = _base(cfg)
    gid, sg = obs["gid"], obs["sg"]
    ng = R.n_groups(gid)
    x32 = np.asarray(xs, dtype=np.float32).reshape(shape)
    if meta["kind"] == "modify" and ng >= 2 and len(shape) >= 2:
      g = meta["g"] % ng
      x2 = np.where(gid == g, x32 * np.float32(meta["factor"]), x32).astype(np.float32)
      f2, o2 = evaluate(cfg, shape, x2.reshape(-1).tolist(), {}, q=obs["q"])
      labs.append("meta_modify")
      if o2 is not None and "sg" in o2:
        others = np.arange(ng) != g
        if (o2["sg"][others] != sg[others]).any() or \
           (o2["y"][gid != g] != obs["y"][gid != g]).any():
          h = int(np.argmax(others & (o2["sg"] != sg))) if (o2["sg"][others] != sg[others]).any() else -1
          fails.append(("group_independence",
                        dict(base, axis=G.axis_kind(kw),
                             eps=kw.get("elements_per_scale") is not None),
                        "changing group %d (x%r) changed group %d: scale %r -> %r" %
                        (g, meta["factor"], h, sg[h] if h >= 0 else None,
                         o2["sg"][h] if h >= 0 else None)))
    elif meta["kind"] == "reverse" and cfg["cls"] == "binary":
      flat = gid.reshape(-1)
      xf = x32.reshape(-1)
      x2 = xf.copy()
      for g in range(ng):
        idx = np.nonzero(flat == g)[0]
        x2[idx] = xf[idx[::-1]]
      f2, o2 = evaluate(cfg, shape, x2.tolist(), {}, q=obs["q"])
      labs.append("meta_reverse")
      if o2 is not None and "sg" in o2:
        cnt = np.bincount(flat, minlength=ng)
        if kw["alpha"] == "auto":
          bad = np.abs(o2["sg"] - sg) > (cnt + 8) * 2.0 ** -23 * np.abs(sg)
        else:
          num, den, _ = R.ls_parts(x32.astype(np.float64), obs["codes"], gid)
          with np.errstate(divide="ignore", invalid="ignore"):
            t = np.log2(np.where(den > 0, num / np.where(den > 0, den, 1), 1.0) + EPS)
          tie = np.abs(np.abs(t - np.floor(t)) - 0.5) < 1e-3
          bad = (o2["sg"] != sg) & ~tie
        if bad.any():
          h = int(np.argmax(bad))
          fails.append(("group_permutation", dict(base, axis=G.axis_kind(kw),
                                                 eps=kw.get("elements_per_scale") is not None),
                        "reversing the elements inside every group changed the "
                        "scale of group %d: %r -> %r" % (h, sg[h], o2["sg"][h])))
  if tick:
    for k in ("threshold_checked", "threshold_ambiguous", "zero_group",
              "ls_checked", "bounds_active", "outside_exact_regime",
              "float_scale", "threshold_order_checked"):
      if st.get(k):
        labs.append(k)
    nontrivial = (isinstance(kw.get("alpha"), str) and len(shape) >= 2 and
                  st.get("distinct_scales", 0) >= 2)
    if nontrivial:
      labs.append("nontrivial")
    if st.get("max_ls_rel", 0.0) > 0.5:
      labs.append("ls_tolerance_half_used")
    ctx.tick(case, labels=labs, nontrivial=nontrivial)
  return fails


# deterministic edge cases run before the random search (cheap, sharded)
def edge_cases():
  cases = []
  sp = [0.0, -0.0, 1e-20, -1e-20, 1e-30, -1e-30, 1.0, -1.0, 0.5, -0.5,
        float(np.float32(2.0 ** 20)), -float(np.float32(2.0 ** 20)), 1e-6, -1e-6]
  for a in [None, 0.5, 1.0, 2.0, "auto", "auto_po2"]:
    for u in [False, True]:
      cases.append({"cfg": {"cls": "binary", "kw": {"alpha": a, "use_01": u}},
                    "shape": [len(sp)], "xs": sp})
      cases.append({"cfg": {"cls": "binary", "kw": {"alpha": a, "use_01": u}},
                    "shape": [7, 2], "xs": sp})
  small = [-0.25, 0.25, -0.49, 0.5, -0.01, 1.0, -1.0, 0.0, -3.0, 0.125, -0.125, 2.0]
  for a in [None, 1.0, 2.0, "auto", "auto_po2"]:
    for u in [False, True]:
      kw = {"alpha": a, "use_01": u, "use_stochastic_rounding": True}
      cases.append({"cfg": {"cls": "binary", "kw": kw}, "shape": [12], "xs": small})
      cases.append({"cfg": {"cls": "binary", "kw": kw}, "shape": [4, 3], "xs": small})
  for a in ["auto", "auto_po2"]:
    kw = {"alpha": a, "use_stochastic_rounding": True}
    cases.append({"cfg": {"cls": "ternary", "kw": kw}, "shape": [4, 3], "xs": small})
  huge = [3e7, -3e7, 1e9, -1e9, 1.0, -1.0]
  for a in [0.5, 1.0, 2.0]:
    cases.append({"cfg": {"cls": "binary", "kw": {"alpha": a, "use_01": False}},
                  "shape": [len(huge)], "xs": huge})
    cases.append({"cfg": {"cls": "ternary", "kw": {"alpha": a}},
                  "shape": [len(huge)], "xs": huge})
  for a in [None, 0.5, 1.0, 2.0]:
    for t in G.TERNARY_THRESHOLDS:
      tt = float(np.float32(0.33 if t is None else t))
      xs = []
      for v in [tt, float(np.nextafter(np.float32(tt), np.float32(0))),
                float(np.nextafter(np.float32(tt), np.float32(9)))]:
        xs += [v, -v]
      xs += sp
      kw = {"alpha": a}
      if t is not None:
        kw["threshold"] = t
      cases.append({"cfg": {"cls": "ternary", "kw": kw}, "shape": [len(xs)], "xs": xs})
      cases.append({"cfg": {"cls": "ternary", "kw": kw}, "shape": [2, len(xs) // 2], "xs": xs})
  for a in ["auto", "auto_po2"]:
    for n in [1, 2, 5]:
      kw = {"alpha": a, "number_of_unrolls": n}
      cases.append({"cfg": {"cls": "ternary", "kw": kw}, "shape": [len(sp)], "xs": sp})
      cases.append({"cfg": {"cls": "ternary", "kw": kw}, "shape": [7, 2], "xs": sp})
      cases.append({"cfg": {"cls": "ternary", "kw": kw}, "shape": [2, 7], "xs": sp})
  return cases


def run(ctx):
  import tensorflow as tf  # pylint: disable=g-import-not-at-top
  if abs(float(tf.keras.backend.epsilon()) - EPS) > 1e-12:
    raise core.HarnessError("K.epsilon() is %r, reference assumes 1e-7" %
                            tf.keras.backend.epsilon())
  G.configure(ctx.tier)
  for case in ctx.shard(edge_cases()):
    for sc, sig, d in oracle(ctx, case):
      ctx.fail(sc, sig, case, d)
  n = (24000 if ctx.quick else 160000) // ctx.n + 1
  # chunks: the soft budget is checked between Hypothesis runs, so a slow
  # machine ends the search early (recorded as inconclusive tail) instead of
  # generating examples that are no longer evaluated
  chunk = 250 if ctx.quick else 2000
  done, i = 0, 0
  while done < n:
    if ctx.time_left() <= 0:
      ctx.labels["inconclusive_time"] += 1
      break
    m = min(chunk, n - done)
    core.hyp_run(ctx, G.c04_case(), lambda c: oracle(ctx, c), m, name="c04_%d" % i)
    done += m
    i += 1
  ctx.info["hyp_cases_requested"] = done


def replay(ctx, case):
  for sc, sig, d in oracle(ctx, case):
    ctx.fail(sc, sig, case, d)
