"""C13 - a quantized model rebuilt from JSON (+ set_weights), cloned with
utils.clone_model, or saved to HDF5 and reloaded with load_qmodel (no
custom_objects) gives bit-identical predictions and reports the same
quantizers for every layer.
"""
import os
import shutil
import tempfile

import numpy as np

from vf import core
from vf.gen import qmodels as G

RULE = ("case = generated quantized-model description (functional DAG over the "
        "layer classes of the custom-object table except QConv2DTranspose, "
        "including the cell classes inside the generic Keras RNN layer (single / "
        "stacked) and library layers inside the stock Bidirectional and "
        "TimeDistributed wrappers, "
        "quantizers from the C09 option lattice in object and string form, "
        "weights and probe batch from seeds stored in the case) x the three "
        "routes json / clone / h5. Non-trivial = the original model builds, has "
        "at least one quantized layer with a non-None quantizer, and all three "
        "routes were judged; distinct by hash of the description.")
ASSUMPTIONS = [
    "checks run under TF_USE_LEGACY_KERAS=1 (tf_keras), float32, eager, "
    "learning phase 0, one TF thread",
    "predictions are model(x, training=False) on a 3-sample probe batch "
    "(model.predict for cases drawn with api='predict'); compared bit-exactly "
    "(NaN == NaN), no tolerance",
    "models containing bernoulli (samples at inference too) are compared on "
    "quantizer strings only",
    "str(quantizer) that raises on the original model (C10 defects) is "
    "compared as the exception type name",
    "QConv2DTranspose (array_ops.stack missing in TF 2.21) cannot be built in "
    "this image and is not generated; binary(use_stochastic_rounding) is not "
    "generated (C08 crash at inference)",
    "a failure of a model that carries an option its quantizer's get_config "
    "does not emit (C09 defect) is attributed to that option iff the same "
    "model without the option passes",
    "HDF5 files live in a fresh tempfile.mkdtemp() removed in finally",
    "for a stock Keras wrapper layer (RNN, Bidirectional, TimeDistributed) the "
    "reported quantizers are those of the nested library objects: "
    "get_quantizers() where it exists, else the cell's public `quantizers` list",
]
BUDGET_S = {"quick": 48, "thorough": 780}
_LAYERS = ["QDense", "QConv1D", "QConv2D", "QDepthwiseConv2D", "QSeparableConv1D",
           "QSeparableConv2D", "QSimpleRNN", "QLSTM", "QGRU", "QBidirectional",
           "QActivation", "QAdaptiveActivation", "QBatchNormalization",
           "QConv2DBatchnorm", "QDepthwiseConv2DBatchnorm", "QAveragePooling2D",
           "QGlobalAveragePooling2D", "QScaleShift"]
# library classes reached through stock Keras wrapper layers
_WRAPPED = ["L:RNN", "cell:QSimpleRNNCell", "cell:QLSTMCell", "cell:QGRUCell",
            "rnn_stacked", "cell_state_ne_recurrent", "cell_no_state_q",
            "L:Bidirectional", "L:TimeDistributed", "wrapped:QLSTM",
            "wrapped:QDense"]
REQUIRED_LABELS = {
    "quick": ["L:" + c for c in _LAYERS] + [
        "route_ok:json", "route_ok:clone", "route_ok:h5", "pred_compared",
        "q:quantized_bits", "q:quantized_relu", "q:quantized_po2",
        "q:quantized_relu_po2", "q:binary", "q:ternary", "q:stochastic_ternary",
        "q:stochastic_binary", "q:quantized_tanh", "q:quantized_sigmoid",
        "q:quantized_ulaw", "q:quantized_linear", "q:bernoulli", "string_form",
        "merge", "masked_conv", "mask_fractional", "mask_gt_127", "mask_int32",
        "mask_bool", "canonical", "frozen_layer",
        "bn_no_affine", "gru_reset_after", "stock_act:hard_sigmoid",
        "stock_act:sigmoid", "stock_act:tanh", "stock_act:softmax",
        "L:Dense", "L:Conv2D", "L:LSTM", "L:BatchNormalization"] + _WRAPPED,
    "thorough": ["L:" + c for c in _LAYERS] + _WRAPPED + [
        "route_ok:json", "route_ok:clone", "route_ok:h5", "pred_compared",
        "q:quantized_hswish", "lossy", "api:predict", "masked_conv", "merge",
        "canonical", "hyp", "mask_fractional", "mask_gt_127"],
}
ROUTES = ("json", "clone", "h5")
EXCLUDED_UNBUILDABLE = ["QConv2DTranspose"]

_count = {"n": 0}


class RouteError(Exception):

  def __init__(self, stage, exc):
    Exception.__init__(self, "%s: %r" % (stage, exc))
    self.stage = stage
    self.exc = exc


def _safe_str(q):
  try:
    return str(q)
  except Exception as e:  # pylint: disable=broad-except
    return "<str raises %s>" % type(e).__name__


def _nested_objects(obj):
  subs = []
  for attr in ("forward_layer", "backward_layer"):
    if getattr(obj, attr, None) is not None:
      subs.append(getattr(obj, attr))
  if not subs and getattr(obj, "layer", None) is not None:
    subs.append(obj.layer)
  if getattr(obj, "cell", None) is not None:
    subs.append(obj.cell)
  if isinstance(getattr(obj, "cells", None), (list, tuple)):
    subs.extend(obj.cells)
  return subs


def nested_class_label(obj):
  """'RNN[QLSTMCell]', 'Bidirectional[QLSTM]', 'RNN[StackedRNNCells[...]]'."""
  subs = _nested_objects(obj)
  name = obj.__class__.__name__
  if not subs:
    return name
  return "%s[%s]" % (name, ",".join(sorted(set(
      nested_class_label(o) for o in subs))))


def nested_quantizers(obj):
  """Quantizers reported by the library objects nested in a stock Keras
  wrapper layer (RNN(cell), RNN([cells]), Bidirectional, TimeDistributed):
  each nested object's get_quantizers() or, for the cell classes, its public
  `quantizers` list, in nesting order.  None if nothing nested reports any."""
  if hasattr(obj, "get_quantizers"):
    return list(obj.get_quantizers())
  if isinstance(getattr(obj, "quantizers", None), list):
    return list(obj.quantizers)
  found, out = False, []
  for sub in _nested_objects(obj):
    q = nested_quantizers(sub)
    if q is not None:
      found = True
      out.extend(q)
  return out if found else None


def quantizer_strings(model):
  out = []
  for layer in model.layers:
    if hasattr(layer, "get_quantizers"):
      out.append((layer.name, layer.__class__.__name__,
                  [_safe_str(q) for q in layer.get_quantizers()]))
    else:
      qs = nested_quantizers(layer)
      if qs is not None:
        out.append((layer.name, nested_class_label(layer),
                    [_safe_str(q) for q in qs]))
  return out


def predict(model, x, api):
  if api == "predict":
    return np.asarray(model.predict(x, verbose=0))
  return model(x, training=False).numpy()


def run_route(model, route):
  """Returns the rebuilt model; raises RouteError(stage, exc)."""
  from qkeras import utils as U  # pylint: disable=g-import-not-at-top
  stage = "start"
  try:
    if route == "json":
      stage = "to_json"
      js = model.to_json()
      stage = "from_json"
      m2 = U.quantized_model_from_json(js)
      stage = "set_weights"
      m2.set_weights(model.get_weights())
      return m2
    if route == "clone":
      stage = "clone_model"
      return U.clone_model(model)
    d = tempfile.mkdtemp(prefix="c13_")
    try:
      p = os.path.join(d, "m.h5")
      stage = "save"
      model.save(p)
      stage = "load_qmodel"
      return U.load_qmodel(p)
    finally:
      shutil.rmtree(d, ignore_errors=True)
  except Exception as e:  # pylint: disable=broad-except
    raise RouteError(stage, e)


def same_bits(a, b):
  a = np.asarray(a)
  b = np.asarray(b)
  if a.shape != b.shape or a.dtype != b.dtype:
    return False
  return bool(np.array_equal(a, b, equal_nan=True))


def is_random(desc):
  for _, _, spec in G.all_qspecs(desc):
    if G.qspec_class(spec) == "bernoulli":
      return True
  return False


def _qclasses(ld):
  out = set()
  for spec in ld.get("q", {}).values():
    c = G.qspec_class(spec)
    if c:
      out.add(c)
  for sub in G.sub_descs(ld):
    out |= set(_qclasses(sub))
  return sorted(out)


def cls_label(ld):
  """Class key of a layer description: nested classes in brackets."""
  subs = G.sub_descs(ld)
  if not subs or ld["cls"] == "QBidirectional":
    return ld["cls"]
  inner = ",".join(sorted(set(cls_label(d) for d in subs)))
  if "cells" in ld and (len(subs) > 1 or ld.get("kw", {}).get("as_list")):
    inner = "StackedRNNCells[%s]" % inner
  return "%s[%s]" % (ld["cls"], inner)


_RNN_LIKE = ("QSimpleRNN", "QLSTM", "QGRU", "QSimpleRNNCell", "QLSTMCell",
             "QGRUCell")


def _single_layer_desc(desc, ld, in_shapes):
  """Model description holding only layer `ld` (fed from fresh inputs)."""
  if len(ld["in"]) != 1:
    return None
  l2 = dict(ld, **{"in": ["in"]})
  return {"input": list(in_shapes[ld["name"]]), "layers": [l2],
          "out": ld["name"], "wseed": desc["wseed"],
          "wscale": desc.get("wscale", 1.0), "xseed": desc["xseed"]}


def _still_fails(desc, route, sub_check, exc_name, api="call"):
  """Does the failure (sub_check [, exception type]) reproduce on desc?"""
  try:
    m = G.build_model(desc)
    x = G.make_input(desc)
    y0 = predict(m, x, api)
  except Exception:  # pylint: disable=broad-except
    return None
  try:
    m2 = run_route(m, route)
  except RouteError as e:
    return sub_check == "route_raises" and type(e.exc).__name__ == exc_name
  if sub_check == "route_raises":
    return False
  if sub_check == "quantizers_differ":
    return quantizer_strings(m) != quantizer_strings(m2)
  try:
    return not same_bits(y0, predict(m2, x, api))
  except Exception:  # pylint: disable=broad-except
    return None


def _kind(name):
  from qkeras import quantizers as Q  # pylint: disable=g-import-not-at-top
  if name is None:
    return None
  obj = getattr(Q, name, None)
  if isinstance(obj, type):
    return "quantizer_class"
  if callable(obj):
    return "qkeras_function"
  return "keras_function"


_BENIGN = {"recurrent_activation": {"s": "quantized_sigmoid(4)"}}
_ESSENTIAL_KW = ("units", "filters", "kernel_size", "activation", "total_bits",
                 "return_sequences", "merge_mode")


def find_culprit(desc, model, route, sub_check, exc_name=None, only_layer=None):
  """Root-cause key: the single layer (and, inside it, the quantizer slot)
  whose presence alone reproduces the failure on a one-layer model."""
  none = {"layer": None, "slot": None, "culprit_q": None, "culprit_kind": None,
          "form": None}
  in_shapes = {}
  for layer in model.layers:
    try:
      s = layer.input_shape
      if isinstance(s, tuple):
        in_shapes[layer.name] = list(s[1:])
    except Exception:  # pylint: disable=broad-except
      pass
  for ld in desc["layers"]:
    if not any(d["cls"].startswith("Q") for d in G.nested_descs(ld)) or (
        ld["name"] not in in_shapes):
      continue
    if only_layer is not None and ld["name"] != only_layer:
      continue
    d1 = _single_layer_desc(desc, ld, in_shapes)
    if d1 is None or not _still_fails(d1, route, sub_check, exc_name):
      continue
    target = d1["layers"][0]
    holders = G.nested_descs(target)
    lname = cls_label(ld)
    for h in holders:
      for slot, spec in sorted(h.get("q", {}).items()):
        if spec is None:
          continue
        saved = h["q"][slot]
        if h["cls"] == "QActivation":
          repl = {"s": "quantized_relu(4,1)"}
        elif slot == "recurrent_quantizer" and h["cls"] in ("QGRU", "QGRUCell"):
          repl = {"s": "quantized_bits(4,0,1)"}
        elif slot == "activation" and h["cls"] in _RNN_LIKE:
          repl = {"s": "quantized_tanh(4)"}
        else:
          repl = _BENIGN.get(slot)
        if repl == saved:
          continue
        h["q"][slot] = repl
        r = _still_fails(d1, route, sub_check, exc_name)
        h["q"][slot] = saved
        if r is False:
          c = G.qspec_class(spec)
          return {"layer": lname, "slot": slot, "culprit_q": c,
                  "culprit_kind": _kind(c),
                  "form": "string" if "s" in spec else "object"}
    # no quantizer slot explains it: ablate the plain constructor options
    for h in holders:
      for key in sorted(h.get("kw", {})):
        if key in _ESSENTIAL_KW or (key == "mask_dtype"):
          continue
        saved = h["kw"].pop(key)
        saved_dt = h["kw"].pop("mask_dtype", None) if key == "mask" else None
        r = _still_fails(d1, route, sub_check, exc_name)
        h["kw"][key] = saved
        if saved_dt is not None:
          h["kw"]["mask_dtype"] = saved_dt
        if r is False:
          return dict(none, layer=lname, culprit_option=key)
    return dict(none, layer=lname)
  return none


def first_diff_layer(m1, m2, x):
  """Class of the first layer (topological order of m1) whose output differs."""
  import tensorflow as tf  # pylint: disable=g-import-not-at-top
  try:
    names = [l.name for l in m1.layers[1:]]
    a = tf.keras.Model(m1.input, [m1.get_layer(n).output for n in names])
    b = tf.keras.Model(m2.input, [m2.get_layer(n).output for n in names])
    ya = a(x, training=False)
    yb = b(x, training=False)
    if len(names) == 1:
      ya, yb = [ya], [yb]
    for n, u, v in zip(names, ya, yb):
      if not same_bits(u.numpy(), v.numpy()):
        return n
  except Exception:  # pylint: disable=broad-except
    return None
  return None


def judge(desc, api="call", routes=ROUTES, stats=None, diagnose=True):
  """Runs the three routes on one model.  Returns (built, fails) where fails
  is a list of (sub_check, signature, detail)."""
  import tensorflow as tf  # pylint: disable=g-import-not-at-top
  core.reset_globals()
  stats = stats if stats is not None else {}
  try:
    model = G.build_model(desc)
    x = G.make_input(desc)
    y0 = predict(model, x, api)
    s0 = quantizer_strings(model)
  except Exception as e:  # pylint: disable=broad-except
    stats["unbuildable"] = "%s: %s" % (type(e).__name__, str(e)[:300])
    return False, []
  rnd = is_random(desc)
  fails = []
  for route in routes:
    try:
      m2 = run_route(model, route)
    except RouteError as e:
      sig = {"route": route, "stage": e.stage}
      sig.update(core.exc_signature(e.exc))
      if diagnose:
        sig.update(find_culprit(desc, model, route, "route_raises",
                                type(e.exc).__name__))
      fails.append(("route_raises", sig, "%s" % str(e)[:600]))
      continue
    stats["route_ok:" + route] = True
    s2 = quantizer_strings(m2)
    bad = None
    if [(n, c) for n, c, _ in s0] != [(n, c) for n, c, _ in s2]:
      bad = ("layers", "layer list differs: %r vs %r" % (
          [(n, c) for n, c, _ in s0], [(n, c) for n, c, _ in s2]), None, None)
    else:
      for (n, c, a), (_, _, b) in zip(s0, s2):
        if a != b:
          k = [i for i in range(max(len(a), len(b)))
               if i >= len(a) or i >= len(b) or a[i] != b[i]][0]
          bad = (c, "layer %s: %r -> %r" % (n, a, b), k,
                 a[k].split("(")[0] if k < len(a) else None)
          break
    if bad is not None:
      fails.append(("quantizers_differ",
                    {"route": route, "layer": bad[0], "index": bad[2],
                     "orig_q": bad[3]}, bad[1][:600]))
    if rnd:
      continue
    try:
      y2 = predict(m2, x, api)
    except Exception as e:  # pylint: disable=broad-except
      sig = {"route": route, "stage": "predict"}
      sig.update(core.exc_signature(e))
      fails.append(("route_raises", sig, repr(e)[:600]))
      continue
    stats["pred_compared"] = True
    if not same_bits(y0, y2):
      sig = {"route": route}
      fl = first_diff_layer(model, m2, x) if diagnose else None
      if diagnose:
        sig.update(find_culprit(desc, model, route, "prediction_differs",
                                only_layer=fl))
        if sig["layer"] is None and fl is not None:
          # does not reproduce on the layer alone: keep the class only
          sig["layer"] = model.get_layer(fl).__class__.__name__
          sig["slot"] = "not-isolated"
      nd = int(np.sum(y0 != y2)) if np.shape(y0) == np.shape(y2) else -1
      fails.append(("prediction_differs", sig,
                    "%d of %d outputs differ (first differing layer %s); "
                    "max |diff| = %r" % (
                        nd, int(np.size(y0)), fl,
                        float(np.nanmax(np.abs(np.asarray(y0, dtype=np.float64) -
                                               np.asarray(y2, dtype=np.float64))))
                        if np.shape(y0) == np.shape(y2) else None)))
  del tf
  return True, fails


def oracle_case(ctx, case, extra_labels=()):
  desc = case["model"]
  api = case.get("api", "call")
  _count["n"] += 1
  if _count["n"] % 8 == 0:
    import tensorflow as tf  # pylint: disable=g-import-not-at-top
    tf.keras.backend.clear_session()
  stats = {}
  built, fails = judge(desc, api=api, stats=stats)
  lossy = G.lossy_items(desc)
  if fails and lossy:
    # attribute to the option get_config() drops iff the model without that
    # option passes the same (route, sub_check)
    _, cfails = judge(G.clean(desc), api=api, diagnose=True)
    ckeys = set((sc, sig.get("route")) for sc, sig, _ in cfails)
    out = []
    for sc, sig, detail in fails:
      if (sc, sig.get("route")) in ckeys:
        continue    # reported below with the cleaned model's own signature
      lcls, slot, qcls, opts = lossy[0]
      out.append((sc, {"kind": "option_missing_from_get_config", "qcls": qcls,
                       "lost_options": opts},
                  "[%s via %s] %s" % (lcls + "." + slot, sig.get("route"), detail)))
    fails = out + cfails
  # labels
  labs = ["fam:" + desc.get("family", "?")]
  qn = 0
  for ld in desc["layers"]:
    labs.append("L:" + ld["cls"])
    for sub in G.nested_descs(ld)[1:]:
      labs.append(("cell:" if sub["cls"].endswith("Cell") else "L:") + sub["cls"])
      if ld["cls"] != "QBidirectional":
        labs.append("wrapped:" + sub["cls"])
    if len(ld.get("cells", [])) > 1 or ld.get("kw", {}).get("as_list"):
      labs.append("rnn_stacked")
    for sub in G.nested_descs(ld):
      if sub["cls"].endswith("Cell") and sub["cls"].startswith("Q"):
        sq, rq = sub["q"].get("state_quantizer"), sub["q"].get("recurrent_quantizer")
        if sq != rq:
          labs.append("cell_state_ne_recurrent")
        if sq is None and rq is not None:
          labs.append("cell_no_state_q")
    if ld["cls"] in ("Add", "Concatenate", "Multiply"):
      labs.append("merge")
    if ld.get("kw", {}).get("mask") is not None:
      labs.append("masked_conv")
      mv = [v for row in ld["kw"]["mask"] for v in row]
      if any(float(v) != int(v) for v in mv):
        labs.append("mask_fractional")
      if any(v > 127 for v in mv):
        labs.append("mask_gt_127")
      if ld["kw"].get("mask_dtype") in ("int32", "bool"):
        labs.append("mask_" + ld["kw"]["mask_dtype"])
    if ld.get("kw", {}).get("trainable") is False:
      labs.append("frozen_layer")
    if not ld["cls"].startswith("Q"):
      for an in ("activation", "recurrent_activation"):
        if ld.get("kw", {}).get(an):
          labs.append("stock_act:" + ld["kw"][an])
    if ld["cls"] == "QBatchNormalization" and ld["kw"].get("center") is False and (
        ld["kw"].get("scale") is False):
      labs.append("bn_no_affine")
    for h in G.nested_descs(ld):
      if h.get("cls") in ("QGRU", "QGRUCell") and h.get("kw", {}).get("reset_after"):
        labs.append("gru_reset_after")
  for _, _, spec in G.all_qspecs(desc):
    if spec is None:
      continue
    qn += 1
    if "s" in spec:
      labs.append("string_form")
      labs.append("qs:" + G.qspec_class(spec))
    else:
      labs.append("q:" + spec["q"])
  labs = sorted(set(labs))
  if lossy:
    labs.append("lossy")
  if is_random(desc):
    labs.append("random_model")
  labs.append("api:" + api)
  if not built:
    labs.append("unbuildable_orig")
    ctx.info.setdefault("unbuildable_examples", [])
    if len(ctx.info["unbuildable_examples"]) < 3:
      ctx.info["unbuildable_examples"].append(stats.get("unbuildable"))
  labs += [k for k, v in stats.items() if v is True]
  labs += list(extra_labels)
  ctx.tick(case, labels=labs, nontrivial=built and qn > 0,
           sample_label="fam:" + desc.get("family", "?"))
  return fails


def run(ctx):
  from hypothesis import strategies as st  # pylint: disable=g-import-not-at-top
  if ctx.idx == 0:
    ctx.info["excluded_unbuildable_classes"] = len(EXCLUDED_UNBUILDABLE)
    ctx.info["excluded_unbuildable_list"] = ", ".join(EXCLUDED_UNBUILDABLE)

  @st.composite
  def case_st(draw):
    desc = draw(G.model_strategy("c13", rich=not ctx.quick))
    api = "predict" if draw(st.integers(0, 11)) == 11 else "call"
    return {"model": desc, "api": api}

  def orc(case):
    if ctx.time_left() <= 0:
      ctx.labels["skipped_time"] += 1
      return []
    return oracle_case(ctx, case, extra_labels=["hyp"])

  # deterministic floor: one canonical model per layer class
  canon = [{"model": d, "api": "call"} for d in G.canonical_models("c13")]
  for case in ctx.shard(canon):
    for sc, sig, detail in oracle_case(ctx, case, extra_labels=["canonical"]):
      ctx.fail(sc, sig, case, detail)

  n = (420 if ctx.quick else 6000) // ctx.n + 1
  core.hyp_run(ctx, case_st(), orc, n, name="c13")


def replay(ctx, case):
  for sc, sig, detail in oracle_case(ctx, case):
    ctx.fail(sc, sig, case, detail)
