"""C11 - a quantized layer equals the stock Keras layer run on pre-quantized
weights, followed by the layer's activation quantizer; with no quantizers it
equals the stock layer exactly; get_quantizers() reports exactly the
quantizers that are applied, in weight order.
"""
import re

import numpy as np

from vf import core
from vf.gen import layers as G
from vf.ref import layers as R

RULE = ("case = (layer type, geometry, quantizer string per role, use_bias, "
        "activation quantizer) + drawn weights + drawn input, all plain JSON. "
        "Deterministic part: a hand-written canonical sweep over every layer "
        "type (values from a seed stored into the case); random part: "
        "Hypothesis over the description grammar of vf/gen/layers.py, separately "
        "for feed-forward, recurrent and pooling layers. Non-trivial = the layer "
        "carries at least two different quantizers (roles + activation) AND its "
        "geometry is not the plain one (conv/pool: stride>1 or dilation>1 or "
        "padding != valid; recurrent: >= 2 time steps; dense: bias present); "
        "distinct by hash of the whole case.")
ASSUMPTIONS = [
    "checks run under TF_USE_LEGACY_KERAS=1 (tf_keras), float32, eager, "
    "learning phase 0, single-threaded TF, oneDNN off",
    "reference weights are q_i(w_i) with q_i = layer.get_quantizers()[i], the "
    "layer's own objects as mutated by its constructor, applied once to a "
    "tf.constant holding the same float32 values, in weight order",
    "the activation (and recurrent activation) of the reference is resolved "
    "afresh from the configured string with qkeras.quantizers.get_quantizer",
    "Dense/Conv1D/Conv2D/Depthwise/Separable/ScaleShift and SimpleRNN/LSTM/GRU: "
    "outputs compared exactly (NaN equals NaN); measured difference on the "
    "unchanged tree is 0.0 - both sides reach the same TF op with the same "
    "arguments",
    "exception: QConv1D with groups>1 (the layer uses tf.keras.backend.conv1d, "
    "the stock Conv1D its XLA-compiled grouped convolution whose use of fused "
    "multiply-adds depends on the input shape; seen: 1 ulp). When the exact "
    "comparison fails there, the layer's pre-activation output (same class "
    "built without activation) AND the stock layer's must both lie within "
    "(n_terms+3)*2^-23*(sum|w_i x_i|+|b|) of the float64 stock convolution on "
    "the pre-quantized weights, n_terms = taps*channels per group, and the "
    "activated output must equal the activation of that pre-activation output "
    "exactly (label conv1d_groups_tolerance)",
    "recurrent layers: exact against a time loop over the stock cell fed with "
    "state_quantizer(state); without state quantizer additionally against the "
    "stock recurrent layer itself - exactly, except when activation='tanh' and "
    "recurrent_activation='sigmoid' on LSTM/GRU, where tf_keras switches to "
    "its fused standard_lstm/standard_gru routine (other float32 operation "
    "order): |diff| <= 1e-5*(1+|y|); measured on /repo over 806 such cases "
    "(up to 5 time steps): 747 exact, 56 <= 1e-7, 3 <= 1e-6, none larger "
    "(labels fused_diff:*); the worst-case evaluation error of the gate "
    "pre-activations, n_terms*2^-24*sum|w x| per step, is above 1e-5",
    "channels_first: when the stock layer's CPU kernel rejects NCHW the "
    "reference is the same stock layer in channels_last on the transposed "
    "input; Conv1D/SeparableConv1D causal padding is only generated with "
    "channels_last",
    "pooling with average_quantizer: pre-activation output (same layer class "
    "built without activation) within (area+4)*2^-23*mean|x|*area*|q| of the "
    "float64 value mean*area*q(1/area); the activated output must equal the "
    "activation applied to that pre-activation output exactly; without "
    "average_quantizer the output equals the stock layer exactly",
    "average_quantizer only from data-independent quantizers (it is applied to "
    "a python scalar)",
    "perturbation test of the oracle itself: for every passing case with two "
    "different quantizers the reference is recomputed with the two swapped and "
    "must differ from the unswapped reference (label perturb_sensitive, "
    "required > 0; perturb_insensitive counts cases whose data cannot tell "
    "the two orders apart); on a mismatch the same machinery names the single "
    "deviation (unquantized / swapped / quantized twice / replaced weight / "
    "skipped activation) that reproduces the layer bit for bit (signature key "
    "'explains')",
    "stochastic quantizers and dropout are not generated (C08 owns them)",
    "QConv2DTranspose is excluded: it cannot be called in this image "
    "(tensorflow.python.ops.array_ops.stack no longer exists in TF 2.21); the "
    "exclusion is probed and counted in coverage.info",
    "a configuration the stock Keras layer itself cannot run is skipped and "
    "counted (label stock_unsupported)",
]
BUDGET_S = {"quick": 38, "thorough": 840}
REQUIRED_LABELS = {
    "quick": ["canonical", "hyp", "QDense", "QConv1D", "QConv2D",
              "QDepthwiseConv2D", "QSeparableConv1D", "QSeparableConv2D",
              "QSimpleRNN", "QLSTM", "QGRU", "QScaleShift", "QAveragePooling2D",
              "QGlobalAveragePooling2D", "two_distinct_q", "perturb_sensitive",
              "noquant", "ctor_mutated_alpha", "pad:causal", "pad:same",
              "stride>1", "dilation>1", "groups>1", "channels_first", "act",
              "use_bias", "no_bias", "state_q", "impl1", "impl2",
              "go_backwards", "return_sequences", "rnn_ref:stock_layer",
              "rnn_ref:cell_loop", "pool_tolerance_checked"],
}
REQUIRED_LABELS["quick"] += ["multi_call", "multi_call:shape_changed",
                            "later_call_checked", "mask:has_zero",
                            "mask:non_binary", "dropout_inference", "unroll",
                            "deprecated_range_args", "pad_uppercase",
                            "reset_after", "sep1d_causal", "gru_no_recurrent_q",
                            "gru_reset_after_bias", "lstm_nobias_bias_q"]
REQUIRED_LABELS["thorough"] = list(REQUIRED_LABELS["quick"])

_state = {"n": 0}


# --------------------------------------------------------------------------
# helpers


def same(a, b):
  a, b = np.asarray(a), np.asarray(b)
  if a.shape != b.shape:
    return False
  return bool(((a == b) | (np.isnan(a) & np.isnan(b))).all())


def _diff_detail(yq, yr):
  yq, yr = np.asarray(yq), np.asarray(yr)
  if yq.shape != yr.shape:
    return "shape %r vs reference %r" % (yq.shape, yr.shape)
  d = np.abs(yq.astype(np.float64) - yr.astype(np.float64))
  d = np.where(np.isnan(d), np.inf, d)
  bad = ~((yq == yr) | (np.isnan(yq) & np.isnan(yr)))
  i = np.unravel_index(int(np.argmax(np.where(bad, d, -1))), d.shape)
  return ("%d/%d elements differ, worst at %r: layer=%r reference=%r" %
          (int(bad.sum()), bad.size, tuple(int(v) for v in i), yq[i], yr[i]))


def _token(e):
  """Short stable token of an exception message (no raw values)."""
  msg = str(e)
  if "Exception encountered when calling layer" in msg:
    parts = [p for p in msg.split("\n\n") if p.strip()]
    if len(parts) > 1:
      msg = parts[1]
  msg = msg.strip().split("\n")[0]
  msg = re.sub(r"\{\{.*?\}\}", "", msg)
  msg = re.sub(r"'[^']*'", lambda m: m.group(0) if re.match(
      r"'[A-Za-z_][A-Za-z_0-9.]*'$", m.group(0)) else "''", msg)
  msg = re.sub(r"\d+", "", msg)
  return msg.strip()[:70]


def _base_sig(case):
  return {"layer": case["layer"]}


def _housekeeping():
  _state["n"] += 1
  if _state["n"] % 40 == 0:
    import tensorflow as tf  # pylint: disable=g-import-not-at-top
    tf.keras.backend.clear_session()
  core.reset_globals()


def _run_q(case, ws, x, act_override="__same__"):
  """Builds the QKeras layer, loads the weights, runs it.  Returns
  (layer, output).  Raises whatever the library raises."""
  import tensorflow as tf  # pylint: disable=g-import-not-at-top
  c = case
  if act_override != "__same__":
    c = dict(case, act=act_override)
  ql = G.build_qlayer(c)
  ql.build(tuple(case["in_shape"]))
  roles = G.weight_roles(case)
  have = [tuple(w.shape) for w in ql.get_weights()]
  want = [tuple(ws[r].shape) for r in roles]
  if have != want:
    raise _Layout("layer weight shapes %r, stock layout %r" % (have, want))
  if roles:
    ql.set_weights([ws[r] for r in roles])
  y = np.asarray(ql(tf.constant(x)).numpy(), dtype=np.float32)
  return ql, y


class _Layout(Exception):
  pass


def _stock_can_run(case, ws, x):
  """Does the stock layer (raw weights, no quantizers) run this geometry?"""
  try:
    fam = G.FAMILY[case["layer"]]
    if fam == "pool":
      R.pooling(case, x, {})
    else:
      R.reference(case, ws, x, {}, None, _plain_ract(case))
    return True
  except AssertionError:
    raise
  except Exception:  # pylint: disable=broad-except
    return False


def _plain_ract(case):
  return "sigmoid" if case["layer"] in ("QLSTM", "QGRU") else None


# --------------------------------------------------------------------------
# the oracle


def oracle(ctx, case, tag):
  """Returns [(sub_check, signature, detail)]; calls ctx.tick once."""
  _housekeeping()
  fails = []
  lay = case["layer"]
  fam = G.FAMILY[lay]
  labs = [tag] + G.labels(case)
  ws, x = G.arrays(case)
  base = _base_sig(case)
  nontrivial = G.distinct_quantizers(case) >= 2 and G.geometry_nontrivial(case)

  def done():
    ctx.tick(case, labels=labs, nontrivial=nontrivial and not fails)
    return fails

  # 1. the layer under test
  try:
    ql, yq = _run_q(case, ws, x)
  except _Layout as e:
    fails.append(("weight_layout", dict(base), str(e)))
    return done()
  except Exception as e:  # pylint: disable=broad-except
    if not _stock_can_run(case, ws, x):
      labs.append("stock_unsupported")
      nontrivial = False
      return done()
    sig = dict(base, **core.exc_signature(e))
    sig["token"] = _token(e)
    fails.append(("layer_raises", sig, repr(e)[:400]))
    return done()

  # 2. get_quantizers(): one entry per role, None exactly where not configured
  roles = G.ROLES[lay]
  qs = list(ql.get_quantizers())
  if len(qs) != len(roles):
    fails.append(("reported", dict(base, clause="count"),
                  "get_quantizers() has %d entries, roles %r" % (len(qs), roles)))
    return done()
  for r, q in zip(roles, qs):
    if (q is None) != (case["q"].get(r) is None):
      fails.append(("reported", dict(base, clause="none_mismatch", role=r),
                    "role %s configured %r reported %r" % (r, case["q"].get(r), q)))
  if fails:
    return done()
  qlist = dict(zip(roles, qs))
  for r in roles:
    s = case["q"].get(r)
    if (s is not None and "alpha" not in s and
        getattr(qlist[r], "alpha", None) == "auto_po2"):
      labs.append("ctor_mutated_alpha")
      break

  act = G.resolve_activation(case.get("act"))
  ract = G.resolve_activation(case.get("ract")) if "ract" in case else None

  # 3. differential, first call
  twin = {}
  f1, yr = _differential(case, ws, x, yq, qlist, act, ract, base, labs, twin)
  fails += f1
  if fails:
    return done()
  if yr is None and fam != "pool":      # stock layer cannot run this
    nontrivial = False
    return done()

  # 4. perturbation: swapping two distinct quantizers in the reference must
  # change the reference output (otherwise "in weight order" is not tested
  # by this case)
  pair = _distinct_pair(case) if fam != "pool" else None
  if pair is not None:
    r1, r2 = pair
    sw = dict(qlist)
    sw[r1], sw[r2] = qlist[r2], qlist[r1]
    try:
      ys, _ = R.reference(case, ws, x, sw, act, ract)
      labs.append("perturb_insensitive" if same(ys, yr) else "perturb_sensitive")
    except Exception:  # pylint: disable=broad-except
      labs.append("perturb_not_applicable")

  # 5. the SAME layer instance on further inputs of other admissible shapes:
  # every output must equal the reference for that input (no state may be
  # carried over from an earlier call)
  import tensorflow as tf  # pylint: disable=g-import-not-at-top
  for call in case.get("calls", []):
    sub = dict(case, in_shape=call["in_shape"], x=call["x"])
    sub.pop("calls", None)
    xk = np.asarray(call["x"], dtype=np.float64).astype(np.float32).reshape(
        call["in_shape"])
    lbase = dict(base, later_call=True)
    try:
      yk = np.asarray(ql(tf.constant(xk)).numpy(), dtype=np.float32)
    except Exception as e:  # pylint: disable=broad-except
      if not _stock_can_run(sub, ws, xk):
        labs.append("stock_unsupported")
        continue
      sig = dict(lbase, **core.exc_signature(e))
      sig["token"] = _token(e)
      fails.append(("layer_raises", sig, repr(e)[:400]))
      return done()
    fk, _ = _differential(sub, ws, xk, yk, qlist, act, ract, lbase, labs, twin)
    labs.append("later_call_checked")
    if fk:
      fails += fk
      return done()
  return done()


def _differential(case, ws, x, yq, qlist, act, ract, base, labs, twin):
  """One call of the layer against the reference for that input.  Returns
  (fails, reference output or None)."""
  fam = G.FAMILY[case["layer"]]
  if fam == "pool":
    return _pool_check(case, x, qlist, act, yq, base, labs, twin), None
  try:
    yr, info = R.reference(case, ws, x, qlist, act, ract)
  except R.StockUnsupported:
    labs.append("stock_unsupported")
    return [], None
  if info.get("cf_transposed_ref"):
    labs.append("cf_transposed_ref")
  if "rnn_ref" in info:
    labs.append("rnn_ref:" + info["rnn_ref"])

  if not same(yq, yr) and R.paths_differ(case):
    # two different float32 implementations of the same convolution (see
    # R.paths_differ): both must lie within the evaluation-error bound of the
    # float64 value, and the activation must be applied to what the layer
    # itself computed
    labs.append("conv1d_groups_tolerance")
    return _tolerant_conv(case, ws, x, yq, qlist, act, base, info), yr
  if not same(yq, yr):
    why = _explain(case, ws, x, qlist, act, ract, yq)
    return [("values", dict(base, explains=why), _diff_detail(yq, yr))], yr

  # recurrent layers without state quantizer: also the stock *layer*
  if fam == "rnn" and qlist.get("state") is None:
    try:
      yl, _ = R.reference(case, ws, x, qlist, act, ract, mode="layer")
    except R.StockUnsupported:
      yl = None
      labs.append("stock_unsupported")
    if yl is not None:
      labs.append("rnn_ref:stock_layer")
      if R.fused_kernel_possible(case):
        labs.append("rnn_fused_tolerance")
        ok = (yl.shape == yq.shape and bool(np.all(
            np.abs(yl.astype(np.float64) - yq) <= 1e-5 * (1 + np.abs(yl)))))
        if yl.shape == yq.shape:
          dmax = float(np.max(np.abs(yl.astype(np.float64) - yq) /
                              (1 + np.abs(yl))))
          labs.append("fused_diff:0" if dmax == 0 else
                      "fused_diff<=1e-7" if dmax <= 1e-7 else
                      "fused_diff<=1e-6" if dmax <= 1e-6 else "fused_diff<=1e-5")
      else:
        ok = same(yq, yl)
      if not ok:
        return [("values", dict(base, explains="stock_layer_differs"),
                 _diff_detail(yq, yl))], yr
  return [], yr


def _tolerant_conv(case, ws, x, yq, qlist, act, base, info):
  ref, tol, _ = R.conv_ref64(case, ws, x, qlist)
  stock_pre = info["pre_activation"]
  if not bool(np.all(np.abs(stock_pre.astype(np.float64) - ref) <= tol)):
    raise core.HarnessError("C11: stock layer outside its own float64 bound")
  if case.get("act") is not None:
    try:
      _, pre = _run_q(case, ws, x, act_override=None)
    except Exception as e:  # pylint: disable=broad-except
      sig = dict(base, **core.exc_signature(e))
      sig["token"] = _token(e)
      return [("layer_raises", sig, repr(e)[:400])]
  else:
    pre = yq
  if pre.shape != ref.shape:
    return [("values", dict(base, explains="shape"),
             "shape %r vs %r" % (pre.shape, ref.shape))]
  err = np.abs(pre.astype(np.float64) - ref)
  bad = ~(err <= tol)
  if bad.any():
    i = np.unravel_index(int(np.argmax(np.where(bad, err / tol, -1))), err.shape)
    return [("values", dict(base, explains="outside_float64_bound"),
             "pre-activation %r vs float64 reference %r (bound %.3g), %d/%d "
             "elements outside" % (pre[i], ref[i], tol[i], int(bad.sum()),
                                   bad.size))]
  if case.get("act") is not None:
    ya = R.apply_act(G.resolve_activation(case["act"]), pre)
    if not same(yq, ya):
      return [("values", dict(base, explains="activation"),
               _diff_detail(yq, ya))]
  return []


def _distinct_pair(case):
  roles = G.weight_roles(case)
  if G.FAMILY[case["layer"]] == "rnn":
    roles = roles + ["state"]
  for i, r1 in enumerate(roles):
    for r2 in roles[i + 1:]:
      if case["q"].get(r1) != case["q"].get(r2):
        return r1, r2
  return None


def _explain(case, ws, x, qlist, act, ract, yq):
  """Root-cause probe for a mismatch: which single deviation of the reference
  reproduces the layer's output bit for bit?"""
  roles = [r for r in G.weight_roles(case)]
  if G.FAMILY[case["layer"]] == "rnn":
    roles = roles + ["state"]
  cands = []
  for r in roles:
    if qlist.get(r) is not None:
      cands.append(("unquantized:" + r, dict(qlist, **{r: None}), act))
      q1 = qlist[r]
      cands.append(("quantized_twice:" + r,
                    dict(qlist, **{r: (lambda w, q1=q1: q1(q1(w)))}), act))
  for i, r1 in enumerate(roles):
    for r2 in roles[i + 1:]:
      if qlist.get(r1) is not qlist.get(r2):
        sw = dict(qlist)
        sw[r1], sw[r2] = qlist[r2], qlist[r1]
        cands.append(("swapped:%s,%s" % (r1, r2), sw, act))
  if act is not None:
    cands.append(("activation_skipped", qlist, None))
  cands = [(n, q_, a, ws) for n, q_, a in cands]
  if case.get("mask") is not None:
    try:
      y, _ = R.reference(case, ws, x, qlist, act, ract, mask_first=True)
      if same(y, yq):
        return "mask_before_quantizer"
      y, _ = R.reference(dict(case, mask=None), ws, x, qlist, act, ract)
      if same(y, yq):
        return "mask_ignored"
    except Exception:  # pylint: disable=broad-except
      pass
  # one weight used in place of another of the same shape
  wr = G.weight_roles(case)
  for dst in wr:
    for src in wr:
      if dst != src and ws[dst].shape == ws[src].shape:
        w2 = dict(ws, **{dst: ws[src]})
        cands.append(("weight_replaced:%s<-raw %s" % (dst, src),
                      dict(qlist, **{dst: None}), act, w2))
        if qlist.get(src) is not None:
          cands.append(("weight_replaced:%s<-quantized %s" % (dst, src),
                        dict(qlist, **{dst: qlist[src]}), act, w2))
  for name, ql_, a, w_ in cands:
    try:
      y, _ = R.reference(case, w_, x, ql_, a, ract)
    except Exception:  # pylint: disable=broad-except
      continue
    if same(y, yq):
      return name
  return "unexplained"


def _pool_check(case, x, qlist, act, yq, base, labs, twin):
  """`twin` holds the activation-free twin layer of this case, so that it sees
  the same sequence of calls as the layer under test."""
  import tensorflow as tf  # pylint: disable=g-import-not-at-top
  fails = []
  ref, tol, qf = R.pooling(case, x, qlist)
  if tol is None:
    yr = R.apply_act(act, ref)
    if not same(yq, yr):
      fails.append(("values", dict(base, explains="no_average_quantizer"),
                    _diff_detail(yq, yr)))
    return fails
  if case.get("act") is not None:
    try:
      if "layer" not in twin:
        twin["layer"], pre = _run_q(case, {}, x, act_override=None)
      else:
        pre = np.asarray(twin["layer"](tf.constant(x)).numpy(),
                         dtype=np.float32)
    except Exception as e:  # pylint: disable=broad-except
      sig = dict(base, **core.exc_signature(e))
      sig["token"] = _token(e)
      return [("layer_raises", sig, repr(e)[:400])]
  else:
    pre = yq
  if pre.shape != ref.shape:
    return [("values", dict(base, explains="shape"),
             "shape %r vs %r" % (pre.shape, ref.shape))]
  err = np.abs(pre.astype(np.float64) - ref)
  bad = ~(err <= tol)
  labs.append("pool_tolerance_checked")
  if bad.any():
    i = np.unravel_index(int(np.argmax(np.where(bad, err / tol, -1))), err.shape)
    fails.append(("values", dict(base, explains="average"),
                  "pre-activation %r vs mean*area*q=%r (q(1/area)=%r, tol %.3g)"
                  % (pre[i], ref[i], qf, tol[i])))
    return fails
  if case.get("act") is not None:
    ya = R.apply_act(act, pre)
    if not same(yq, ya):
      fails.append(("values", dict(base, explains="activation"),
                    _diff_detail(yq, ya)))
  return fails


# --------------------------------------------------------------------------
# canonical sweep (deterministic; one or more descriptions per layer type,
# chosen after the mutants the design lists)


def canonical():
  qb = "quantized_bits(4,0,1,alpha=1.0)"
  qb6 = "quantized_bits(6,2,1,alpha=1.0)"
  out = []

  def add(layer, kw, q, act, in_shape, ract=None, mask=None, qkw=None,
          calls=None):
    c = {"layer": layer, "kw": kw, "q": q, "act": act, "in_shape": in_shape}
    if ract is not None:
      c["ract"] = ract
    if mask is not None:
      c["mask"] = mask
    if qkw:
      c["qkw"] = qkw
    if calls:
      c["calls"] = [{"in_shape": sh} for sh in calls]
    out.append(c)

  add("QDense", {"units": 3, "use_bias": True},
      {"kernel": "quantized_bits(4,0,1)", "bias": qb6}, "quantized_relu(4,2)",
      [2, 5])
  add("QDense", {"units": 2, "use_bias": True}, {"kernel": None, "bias": None},
      None, [2, 3, 4])
  add("QDense", {"units": 4, "use_bias": False},
      {"kernel": "ternary()", "bias": "quantized_po2(4)"}, None, [1, 4])
  add("QConv1D", {"filters": 3, "kernel_size": 3, "strides": 1,
                  "padding": "causal", "dilation_rate": 2, "use_bias": True},
      {"kernel": qb, "bias": "quantized_po2(4)"}, "quantized_bits(6,2,1)",
      [2, 7, 3])
  add("QConv1D", {"filters": 4, "kernel_size": 2, "strides": 2,
                  "padding": "same", "dilation_rate": 1, "use_bias": True,
                  "groups": 2},
      {"kernel": "binary()", "bias": qb6}, None, [1, 6, 4])
  add("QConv2D", {"filters": 3, "kernel_size": [3, 2], "strides": [1, 1],
                  "padding": "same", "dilation_rate": [2, 1], "use_bias": True,
                  "data_format": "channels_last"},
      {"kernel": "quantized_bits(4,0,1)", "bias": qb6}, "quantized_relu(4,2)",
      [2, 5, 4, 3])
  add("QConv2D", {"filters": 2, "kernel_size": [2, 2], "strides": [2, 1],
                  "padding": "valid", "dilation_rate": [1, 1], "use_bias": True,
                  "data_format": "channels_first"},
      {"kernel": qb, "bias": "ternary(alpha=1)"}, None, [1, 3, 4, 5])
  add("QConv2D", {"filters": 4, "kernel_size": [3, 3], "strides": [1, 1],
                  "padding": "valid", "dilation_rate": [1, 1], "use_bias": False,
                  "data_format": "channels_last", "groups": 2},
      {"kernel": "quantized_po2(4)", "bias": None}, "quantized_tanh(4)",
      [1, 4, 4, 4])
  add("QConv2D", {"filters": 2, "kernel_size": [2, 2], "strides": [1, 1],
                  "padding": "valid", "dilation_rate": [1, 1], "use_bias": True,
                  "data_format": "channels_last"},
      {"kernel": None, "bias": None}, None, [1, 3, 3, 2])
  add("QDepthwiseConv2D", {"kernel_size": [3, 3], "strides": [2, 2],
                           "padding": "same", "dilation_rate": [1, 1],
                           "depth_multiplier": 2, "use_bias": True,
                           "data_format": "channels_last"},
      {"depthwise": "quantized_bits(4,0,1,alpha='auto')", "bias": qb6},
      "quantized_relu(4,2)", [2, 5, 5, 3])
  add("QDepthwiseConv2D", {"kernel_size": [2, 3], "strides": [1, 1],
                           "padding": "valid", "dilation_rate": [2, 2],
                           "depth_multiplier": 1, "use_bias": True,
                           "data_format": "channels_first"},
      {"depthwise": "ternary()", "bias": "quantized_po2(4)"}, None,
      [1, 2, 5, 6])
  add("QSeparableConv1D", {"filters": 3, "kernel_size": 3, "strides": 1,
                           "padding": "same", "dilation_rate": 2,
                           "depth_multiplier": 2, "use_bias": True},
      {"depthwise": qb, "pointwise": "ternary(alpha=1)", "bias": qb6},
      "quantized_bits(6,2,1)", [2, 6, 3])
  add("QSeparableConv2D", {"filters": 3, "kernel_size": [2, 3],
                           "strides": [1, 1], "padding": "same",
                           "dilation_rate": [1, 2], "depth_multiplier": 2,
                           "use_bias": True, "data_format": "channels_last"},
      {"depthwise": "quantized_bits(4,0,1)", "pointwise": "binary(alpha=1)",
       "bias": qb6}, "quantized_relu(4,2)", [2, 4, 5, 3])
  add("QSeparableConv2D", {"filters": 2, "kernel_size": [3, 3],
                           "strides": [2, 2], "padding": "valid",
                           "dilation_rate": [1, 1], "depth_multiplier": 1,
                           "use_bias": False, "data_format": "channels_last"},
      {"depthwise": "quantized_po2(4)", "pointwise": qb, "bias": None}, None,
      [1, 5, 5, 2])
  for impl in (1, 2):
    add("QLSTM", {"units": 3, "use_bias": True, "return_sequences": True,
                  "go_backwards": False, "implementation": impl},
        {"kernel": qb, "recurrent": "ternary(alpha=1)", "bias": qb6,
         "state": "quantized_bits(4,0,1)"}, "quantized_tanh(5)", [2, 3, 4],
        ract="hard_sigmoid")
    add("QGRU", {"units": 3, "use_bias": True, "return_sequences": False,
                 "go_backwards": True, "implementation": impl,
                 "reset_after": False},
        {"kernel": "quantized_bits(4,0,1)", "recurrent": qb6,
         "bias": "quantized_po2(4)", "state": None}, "quantized_tanh",
        [2, 3, 2], ract="quantized_sigmoid(5)")
  add("QGRU", {"units": 2, "use_bias": False, "return_sequences": True,
               "go_backwards": False, "implementation": 1, "reset_after": True},
      {"kernel": qb, "recurrent": "binary(alpha=1)", "bias": None,
       "state": "quantized_bits(6,1,1,alpha=1.0)"}, "quantized_bits(6,1,1)",
      [1, 3, 3], ract="hard_sigmoid")
  add("QLSTM", {"units": 2, "use_bias": True, "return_sequences": False,
                "go_backwards": True, "implementation": 2},
      {"kernel": None, "recurrent": None, "bias": None, "state": None}, "tanh",
      [2, 3, 3], ract="sigmoid")
  # configurations that used to fail (C11-KF1..KF5, repaired in /repo)
  add("QSeparableConv1D", {"filters": 3, "kernel_size": 3, "strides": 1,
                           "padding": "causal", "dilation_rate": 2,
                           "depth_multiplier": 2, "use_bias": True},
      {"depthwise": qb, "pointwise": "ternary(alpha=1)", "bias": qb6},
      "quantized_bits(6,2,1)", [2, 6, 3])
  add("QSeparableConv1D", {"filters": 2, "kernel_size": 2, "strides": 2,
                           "padding": "causal", "dilation_rate": 1,
                           "depth_multiplier": 1, "use_bias": False},
      {"depthwise": "quantized_bits(4,0,1)", "pointwise": None, "bias": None},
      None, [1, 5, 2])
  for impl in (1, 2):
    # no recurrent quantizer, input_dim != units and input_dim == units
    add("QGRU", {"units": 3, "use_bias": True, "return_sequences": True,
                 "go_backwards": False, "implementation": impl,
                 "reset_after": False},
        {"kernel": qb, "recurrent": None, "bias": qb6, "state": None},
        "quantized_tanh(5)", [2, 3, 2], ract="hard_sigmoid")
    add("QGRU", {"units": 2, "use_bias": False, "return_sequences": False,
                 "go_backwards": False, "implementation": impl,
                 "reset_after": False},
        {"kernel": "quantized_bits(4,0,1)", "recurrent": None, "bias": None,
         "state": "quantized_bits(4,0,1)"}, "quantized_tanh", [1, 3, 2],
        ract="hard_sigmoid")
    # reset_after with a (quantized) bias of shape (2, 3*units)
    add("QGRU", {"units": 2, "use_bias": True, "return_sequences": True,
                 "go_backwards": True, "implementation": impl,
                 "reset_after": True},
        {"kernel": qb, "recurrent": "ternary(alpha=1)", "bias": qb6,
         "state": "quantized_bits(6,1,1,alpha=1.0)" if impl == 1 else None},
        "quantized_tanh(5)", [2, 3, 3], ract="quantized_sigmoid(5)")
    # no bias but a bias quantizer; unit_forget_bias both ways
    add("QLSTM", {"units": 2, "use_bias": False, "return_sequences": False,
                  "go_backwards": False, "implementation": impl,
                  "unit_forget_bias": impl == 1},
        {"kernel": qb, "recurrent": "quantized_bits(4,0,1)",
         "bias": "quantized_po2(4)", "state": None}, "quantized_tanh(5)",
        [2, 3, 3], ract="hard_sigmoid")
    add("QLSTM", {"units": 2, "use_bias": True, "return_sequences": True,
                  "go_backwards": False, "implementation": impl,
                  "unit_forget_bias": impl == 2},
        {"kernel": qb, "recurrent": qb6, "bias": "quantized_bits(4,0,1)",
         "state": "quantized_bits(4,0,1)"}, "quantized_tanh", [1, 2, 3],
        ract="hard_sigmoid")
  add("QSimpleRNN", {"units": 3, "use_bias": True, "return_sequences": True,
                     "go_backwards": True},
      {"kernel": qb, "recurrent": "quantized_bits(4,0,1)", "bias": qb6,
       "state": "quantized_bits(4,0,1)"}, "quantized_tanh", [2, 4, 2])
  add("QSimpleRNN", {"units": 2, "use_bias": False, "return_sequences": False,
                     "go_backwards": False},
      {"kernel": "ternary()", "recurrent": qb, "bias": None, "state": None},
      "quantized_relu(4,2)", [1, 3, 3])
  add("QScaleShift", {"use_bias": True},
      {"weight": qb, "bias": "quantized_bits(6,2,1)"}, "quantized_relu(4,2)",
      [2, 3, 4])
  add("QScaleShift", {"use_bias": False}, {"weight": None, "bias": None}, None,
      [1, 5])
  add("QAveragePooling2D", {"pool_size": [3, 2], "strides": [1, 2],
                            "padding": "same", "data_format": "channels_last"},
      {"average": "quantized_bits(8,0,1)"}, "quantized_bits(6,2,1)",
      [2, 5, 5, 2])
  add("QAveragePooling2D", {"pool_size": [2, 2], "strides": None,
                            "padding": "valid", "data_format": "channels_last"},
      {"average": None}, None, [1, 4, 4, 2])
  add("QGlobalAveragePooling2D", {"data_format": "channels_last",
                                  "keepdims": False},
      {"average": "quantized_bits(6,0,1,alpha=1.0)"}, "quantized_relu(4,2)",
      [2, 3, 5, 2])
  add("QGlobalAveragePooling2D", {"data_format": "channels_first",
                                  "keepdims": True},
      {"average": "quantized_po2(4)"}, None, [1, 2, 3, 3])
  # QConv2D kernel mask: q(kernel) * mask, with quantizers for which
  # quantize-then-mask differs from mask-then-quantize (q(0) != 0, fitted
  # scales) and with one where it does not
  cross = [[0.0, 1.0, 0.0], [1.0, 1.0, 1.0], [0.0, 1.0, 0.0]]
  for kq in ("binary(alpha=1)", "binary()", "binary(alpha='auto')",
             "quantized_bits(4,0,1,alpha='auto')", "quantized_bits(4,0,1)",
             "ternary(alpha='auto')", qb, None):
    add("QConv2D", {"filters": 3, "kernel_size": [3, 3], "strides": [1, 1],
                    "padding": "same", "dilation_rate": [1, 1],
                    "use_bias": True, "data_format": "channels_last"},
        {"kernel": kq, "bias": qb6}, None, [1, 4, 4, 2], mask=cross)
  add("QConv2D", {"filters": 2, "kernel_size": [2, 3], "strides": [1, 2],
                  "padding": "valid", "dilation_rate": [1, 1], "use_bias": False,
                  "data_format": "channels_first", "groups": 2},
      {"kernel": "binary(alpha='auto')", "bias": None}, "quantized_relu(4,2)",
      [2, 4, 3, 5], mask=[[1.0, 0.0, 0.5], [2.0, 1.0, 0.0]],
      qkw={"kernel_range": 1.0, "bias_range": 1.0})

  # one layer instance, several calls on inputs of different admissible shapes
  add("QGlobalAveragePooling2D", {"data_format": "channels_last",
                                  "keepdims": False},
      {"average": "quantized_bits(8,0,1)"}, None, [2, 3, 5, 2],
      calls=[[1, 2, 2, 2], [2, 4, 3, 2]])
  add("QGlobalAveragePooling2D", {"data_format": "channels_first",
                                  "keepdims": True},
      {"average": "quantized_po2(6,1)"}, "quantized_bits(6,2,1)", [1, 2, 4, 4],
      calls=[[1, 2, 3, 5], [2, 2, 1, 1]])
  add("QAveragePooling2D", {"pool_size": [2, 2], "strides": None,
                            "padding": "same", "data_format": "channels_last"},
      {"average": "quantized_bits(6,0,1,alpha=1.0)"}, "quantized_relu(4,2)",
      [1, 4, 4, 2], calls=[[2, 5, 3, 2], [1, 2, 6, 2]])
  add("QConv2D", {"filters": 3, "kernel_size": [3, 2], "strides": [1, 1],
                  "padding": "same", "dilation_rate": [2, 1], "use_bias": True,
                  "data_format": "channels_last"},
      {"kernel": "quantized_bits(4,0,1)", "bias": qb6}, "quantized_relu(4,2)",
      [2, 5, 4, 3], calls=[[1, 3, 6, 3], [3, 7, 2, 3]], mask=[[1.0, 0.0],
                                                              [0.0, 1.0],
                                                              [1.0, 1.0]])
  add("QConv1D", {"filters": 3, "kernel_size": 3, "strides": 2,
                  "padding": "causal", "dilation_rate": 1, "use_bias": True},
      {"kernel": "ternary()", "bias": "quantized_po2(4)"}, None, [2, 7, 3],
      calls=[[1, 4, 3], [3, 9, 3]])
  add("QDepthwiseConv2D", {"kernel_size": [3, 3], "strides": [2, 2],
                           "padding": "SAME", "dilation_rate": [1, 1],
                           "depth_multiplier": 2, "use_bias": True,
                           "data_format": "channels_last"},
      {"depthwise": "quantized_bits(4,0,1,alpha='auto')", "bias": qb6},
      "quantized_relu(4,2)", [2, 5, 5, 3], calls=[[1, 4, 7, 3]],
      qkw={"depthwise_range": 1.0, "bias_range": 4.0})
  add("QSeparableConv2D", {"filters": 3, "kernel_size": [2, 3],
                           "strides": [1, 1], "padding": "valid",
                           "dilation_rate": [1, 2], "depth_multiplier": 2,
                           "use_bias": True, "data_format": "channels_last"},
      {"depthwise": "quantized_bits(4,0,1)", "pointwise": "binary(alpha=1)",
       "bias": qb6}, None, [2, 4, 6, 3], calls=[[1, 2, 5, 3], [1, 5, 8, 3]])
  add("QSeparableConv1D", {"filters": 2, "kernel_size": 2, "strides": 1,
                           "padding": "causal", "dilation_rate": 2,
                           "depth_multiplier": 1, "use_bias": True},
      {"depthwise": qb, "pointwise": "ternary(alpha=1)", "bias": qb6}, None,
      [1, 5, 2], calls=[[2, 3, 2]])
  add("QDense", {"units": 3, "use_bias": True},
      {"kernel": "quantized_bits(4,0,1)", "bias": qb6}, "quantized_relu(4,2)",
      [2, 3, 5], calls=[[1, 1, 5], [3, 2, 5]],
      qkw={"kernel_range": 4.0, "bias_range": 1.0})
  add("QScaleShift", {"use_bias": True},
      {"weight": qb, "bias": "quantized_bits(6,2,1)"}, None, [2, 3, 4],
      calls=[[1, 2, 2]])
  add("QLSTM", {"units": 3, "use_bias": True, "return_sequences": True,
                "go_backwards": False, "implementation": 1,
                "dropout": 0.25, "recurrent_dropout": 0.5},
      {"kernel": qb, "recurrent": "ternary(alpha=1)", "bias": qb6,
       "state": "quantized_bits(4,0,1)"}, "quantized_tanh(5)", [2, 3, 4],
      ract="hard_sigmoid", calls=[[1, 5, 4], [3, 1, 4]])
  add("QGRU", {"units": 2, "use_bias": True, "return_sequences": False,
               "go_backwards": True, "implementation": 2, "reset_after": True},
      {"kernel": "quantized_bits(4,0,1)", "recurrent": qb6,
       "bias": "quantized_po2(4)", "state": None}, "quantized_tanh", [2, 3, 2],
      ract="quantized_sigmoid(5)", calls=[[1, 4, 2]])
  add("QSimpleRNN", {"units": 3, "use_bias": True, "return_sequences": True,
                     "go_backwards": False, "unroll": True},
      {"kernel": qb, "recurrent": "quantized_bits(4,0,1)", "bias": qb6,
       "state": None}, "quantized_tanh", [2, 4, 2])
  add("QSimpleRNN", {"units": 2, "use_bias": True, "return_sequences": False,
                     "go_backwards": False},
      {"kernel": qb, "recurrent": qb6, "bias": None,
       "state": "quantized_bits(4,0,1)"}, "quantized_tanh(5)", [1, 2, 3],
      calls=[[2, 4, 3]])

  # data-dependent scales on every role of the recurrent layers: quantizing
  # a weight per gate instead of as a whole changes the fitted scale
  auto = {"kernel": "quantized_bits(4,0,1,alpha='auto')",
          "recurrent": "ternary(alpha='auto')",
          "bias": "quantized_bits(4,0,1,alpha='auto')", "state": None}
  auto2 = {"kernel": "binary(alpha='auto')",
           "recurrent": "quantized_bits(5,1,1,alpha='auto_po2')",
           "bias": "ternary(alpha='auto')", "state": "quantized_bits(4,0,1)"}
  for impl in (1, 2):
    for qq in (auto, auto2):
      add("QLSTM", {"units": 2, "use_bias": True, "return_sequences": True,
                    "go_backwards": False, "implementation": impl},
          dict(qq), "quantized_tanh(5)", [2, 3, 3], ract="hard_sigmoid")
      add("QGRU", {"units": 2, "use_bias": True, "return_sequences": False,
                   "go_backwards": False, "implementation": impl,
                   "reset_after": qq is auto2},
          dict(qq), "quantized_tanh(5)", [2, 3, 3], ract="hard_sigmoid")
  add("QSimpleRNN", {"units": 3, "use_bias": True, "return_sequences": False,
                     "go_backwards": False}, dict(auto), "quantized_tanh(5)",
      [2, 3, 2])

  # "applied once": every weighted layer type once more with quantizers that
  # are not idempotent on every weight role
  seen = set()
  for c in list(out):
    if c["layer"] in seen or G.FAMILY[c["layer"]] == "pool":
      continue
    seen.add(c["layer"])
    c2 = dict(c, q={r: (None if r == "state" else "quantized_tanh(5)"
                        if r == "bias" else "quantized_ulaw(4,0,1)")
                    for r in c["q"]})
    out.append(c2)
  cases = []
  for i, c in enumerate(out):
    for rep in range(2):
      cases.append(G.fill_values(c, 1000 + 2 * i + rep))
  return cases


def _probe_excluded(ctx):
  """QConv2DTranspose: excluded with a count (and the reason re-measured)."""
  import tensorflow as tf  # pylint: disable=g-import-not-at-top
  import qkeras  # pylint: disable=g-import-not-at-top
  try:
    lay = qkeras.QConv2DTranspose(2, 2, kernel_quantizer="quantized_bits(4,0,1)")
    lay(tf.zeros((1, 3, 3, 2)))
    ctx.info["QConv2DTranspose"] = "callable here but not generated"
  except Exception as e:  # pylint: disable=broad-except
    ctx.info["QConv2DTranspose"] = "excluded: %s" % _token(e)
  ctx.info["excluded_layer_types"] = len(G.EXCLUDED_LAYERS)


# --------------------------------------------------------------------------
# entry points


def _emit(ctx, case, fails):
  for sc, sig, detail in fails:
    ctx.fail(sc, sig, case, detail)


def run(ctx):
  if ctx.idx == 0:
    _probe_excluded(ctx)
  for case in ctx.shard(canonical()):
    _emit(ctx, case, oracle(ctx, case, "canonical"))

  ff = [k for k, v in G.FAMILY.items() if v == "ff"]
  rnn = [k for k, v in G.FAMILY.items() if v == "rnn"]
  pool = [k for k, v in G.FAMILY.items() if v == "pool"]

  def orc(case):
    if ctx.time_left() <= 0:
      ctx.labels["inconclusive_time"] += 1
      return []
    return oracle(ctx, case, "hyp")

  # Time-boxed chunks: each chunk is an independent Hypothesis run with its own
  # seed (derived from VERIF_SEED, the worker index and the chunk name), so
  # the explored cases are a deterministic function of (seed, workers, number
  # of chunks reached); the wall clock only decides how many chunks run.
  if ctx.quick:
    plan = [("ff", ff, 0.55, 50), ("rnn", rnn, 0.33, 30), ("pool", pool, 0.12, 40)]
    max_chunks = 40
  else:
    plan = [("ff", ff, 0.55, 200), ("rnn", rnn, 0.33, 120), ("pool", pool, 0.12, 150)]
    max_chunks = 400
  saved = ctx.budget_s
  t_all = max(0.0, ctx.time_left())
  start = saved - t_all            # elapsed seconds at this point
  used = 0.0
  rounds = 0
  try:
    for name, layers, share, chunk in plan:
      used += share
      ctx.budget_s = min(saved, start + used * t_all)
      k = 0
      while ctx.time_left() > 1.0 and k < max_chunks:
        cname = "c11%s#%d" % (name, k)
        core.hyp_run(ctx, G.case_strategy(ctx.tier, layers), orc, chunk,
                     name=cname)
        rounds += ctx.info.pop("hyp_rounds_" + cname, 0)
        k += 1
      ctx.info["chunks_" + name] = k
  finally:
    ctx.budget_s = saved
  ctx.info["hyp_shrink_rounds"] = rounds
  # the time box is the normal way for the random part to end here
  ctx.labels.pop("inconclusive_time", None)


def replay(ctx, case):
  _emit(ctx, case, oracle(ctx, case, "replay"))
