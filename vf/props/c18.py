"""C18 - the widths qtools reports for a concrete model bound the values the
model really produces; estimate.analyze_accumulator is an upper bound.
"""
import contextlib
import io
import os

import numpy as np

from vf import core
from vf.gen import qtmodels as G
from vf.ref import macs
from vf.ref import reptypes as T

RULE = ("cases = generated quantized stacks (optional leading QActivation; "
        "QConv1D/QConv2D/QDepthwiseConv2D layers, Flatten, QDense layers; a "
        "QActivation after every compute layer but the last) with on-lattice "
        "stored weights in mode random/max/min/signed_max and a batch of inputs "
        "on the source lattice in mode random/max/min/aligned (aligned = worst "
        "case constructed per output channel of the first compute layer); "
        "kernel families fixed-point / auto_po2 / po2 / binary / ternary / "
        "stochastic_binary / stochastic_ternary / unsigned; optionally the "
        "weights of the SAME model object are changed 1-2 more times (reseed, "
        "auto_po2 kernels times 2^shift) and the model is run and its data type "
        "map regenerated and judged after every change; plus "
        "single-layer models for analyze_accumulator.  Non-trivial = some "
        "pre-activation reaches at least 1/8 of the reported accumulator range "
        "(model cases) / the layer has more than one output channel (estimator "
        "cases); distinct by hash of the case description.")
ASSUMPTIONS = [
    "checks run under TF_USE_LEGACY_KERAS=1 (tf_keras), float32, eager",
    "reported types are read from QTools._output_dict (int_bits includes the "
    "sign bit); po2 exponent interval as in the Shifter docstring; 0 is a "
    "member of every type; a po2 type with a max_value that is not a power of "
    "two holds exponents up to ceil(log2(max_value)) (quantized_po2 rounds log2 "
    "after clipping, 6 -> 8, and get_exp documents the same ceil)",
    "pre-activations are recomputed in float64 from the real layer input and "
    "the real quantized weights; float64 is exact because the span of the "
    "operands (checked per layer) is <= 52 bits; the step of the accumulator "
    "is tested only where the model's float32 output equals that exact value "
    "(else only the range is tested, label inexact_f32)",
    "a float32/float64 disagreement above 1e-4 * (max|x| * max|w| * fan_in + "
    "max|b|) makes the layer unjudged (label reference_mismatch_skipped); "
    "smaller disagreements are float32 rounding (inexact_f32, range only)",
    "source quantizer quantized_bits(b,i,symmetric=1); activations between "
    "layers are quantized_relu or symmetric quantized_bits, so the "
    "most-negative x most-negative product is outside the domain",
    "activation outputs are judged only for inputs below 2^22 grid steps of "
    "the activation (float32 x + (xq - x) is exact there, C01's bound); a case "
    "with larger pre-activations is not judged downstream of that activation",
    "auto_po2 kernels: the fused_accumulator is tested and the weight type is "
    "applied to quantized_kernel / scale",
    "stochastic_binary / stochastic_ternary kernels are used outside the "
    "training phase only, where they are deterministic (sign / threshold rule); "
    "determinism of every kernel quantizer is asserted as a harness check",
    "a map generated after the weights of the model changed (remap phases) is "
    "held to the same statement as the first one: it describes the model as it "
    "is when QTools is called (failures carry remap=true in the signature)",
    "analyze_accumulator: stored weights are on a dyadic lattice and the range "
    "bounds are multiples of 1/8, so all sums are exact and the comparison "
    "|out| <= 2^size is exact (no tolerance)",
]
BUDGET_S = {"quick": 50, "thorough": 780}
REQUIRED_LABELS = {
    "quick": ["edge", "model", "aa", "tight", "very_tight", "exact_f32", "bias", "nobias",
              "k:dense", "k:conv1d", "k:conv2d", "k:dw2d", "kq:qb", "kq:po2",
              "kq:bin", "kq:ter", "kq:sbin", "kq:ster", "kq:qb_auto_po2",
              "remap", "remap_auto_po2", "remap_auto_po2_inference",
              "remap_auto_scale_changed", "kq_max_value_not_po2",
              "dw_depth_multiplier>1", "act:relu_1bit_int0", "act:relu_1bit_int1",
              "act:relu_1bit_int2", "kernel_unsigned",
              "bin_ter_into_unsigned_kernel", "inference_auto_po2", "x:aligned",
              "lead_act",
              "aa:QDense", "aa:QConv2D", "aa:QConv1D", "aa:QDepthwiseConv2D"],
}
REQUIRED_LABELS["quick"].append("inexact_f32")
REQUIRED_LABELS["thorough"] = list(REQUIRED_LABELS["quick"])

_STATE = {"n": 0}


def _housekeeping():
  import tensorflow as tf  # pylint: disable=g-import-not-at-top
  _STATE["n"] += 1
  if _STATE["n"] % 25 == 0:
    tf.keras.backend.clear_session()
  core.reset_globals()


@contextlib.contextmanager
def _quiet():
  """qtools prints progress lines and logs absl 'fatal' records for rank-3
  (Conv1D) kernels; keep the worker logs readable."""
  import logging  # pylint: disable=g-import-not-at-top
  buf = io.StringIO()
  logging.disable(logging.CRITICAL)
  try:
    with contextlib.redirect_stdout(buf):
      yield
  finally:
    logging.disable(logging.NOTSET)


def _eval_q(q, w):
  import tensorflow as tf  # pylint: disable=g-import-not-at-top
  return np.asarray(q(tf.constant(np.asarray(w, dtype=np.float32))))


# ---------------------------------------------------------------------------
# exact reference of dense / conv arithmetic (float64, loop-nest geometry)


def ref_preact(l, x, w, b):
  """x: [B,...] float64, w: quantized kernel float64, b: quantized bias or None."""
  k = l["k"]
  if k == "dense":
    y = np.einsum("bi,io->bo", x, w)
  else:
    nd = 1 if k == "conv1d" else 2
    pos = macs.conv_positions(x.shape[1:1 + nd], l["ks"], l["st"], l["dil"],
                               l["pad"])
    idx = []
    lo = hi = 0
    for a in range(nd):
      ia = np.asarray([[s + t * l["dil"][a] for t in range(l["ks"][a])]
                       for s in pos[a]], dtype=np.int64)
      idx.append(ia)
      lo = max(lo, -int(ia.min()))
      hi = max(hi, int(ia.max()) - (x.shape[1 + a] - 1))
    padw = [(0, 0)] + [(lo, hi)] * nd + [(0, 0)]
    xp = np.pad(x, padw)
    if nd == 1:
      patches = xp[:, idx[0] + lo, :]                      # b t i c
      y = np.einsum("btic,ico->bto", patches, w)
    else:
      ih = (idx[0] + lo)[:, :, None, None]
      iw = (idx[1] + lo)[None, None, :, :]
      patches = xp[:, ih, iw, :]                           # b h i w j c
      if k == "conv2d":
        y = np.einsum("bhiwjc,ijco->bhwo", patches, w)
      else:
        # output channel c*dm + m reads input channel c
        y = np.einsum("bhiwjc,ijcm->bhwcm", patches, w)
        y = y.reshape(y.shape[:3] + (-1,))
  if b is not None:
    y = y + b
  return y


def _span_ok(x, w, b, fan_in):
  """True if every partial sum of the layer fits a float64 mantissa."""
  ex, ew = T.lowbit_exponent(x), T.lowbit_exponent(w)
  if ex is None or ew is None:
    return True
  low = ex + ew
  top = np.log2(max(np.abs(x).max() * np.abs(w).max() * fan_in, 1e-300))
  if b is not None and np.any(b != 0):
    low = min(low, T.lowbit_exponent(b))
    top = max(top, np.log2(np.abs(b).max())) + 1
  return (top - low) <= 51


# ---------------------------------------------------------------------------
# inputs


def input_lattice(case):
  """Lattice on which the values entering the first compute layer live."""
  if case.get("lead_act"):
    return G.fixed_lattice(case["lead_act"])
  return G.fixed_lattice(case["src"])


def make_inputs(case, first_idx, w_first):
  """Batch of float32 inputs on the source lattice (and on the lattice of the
  leading activation when there is one)."""
  step, kmin, kmax = input_lattice(case)
  shape = list(case["in_shape"])
  rs = np.random.RandomState(case["xseed"])
  mode = case["xmode"]
  nb = case.get("batch", 2)
  if mode == "random":
    k = rs.randint(kmin, kmax + 1, size=[nb] + shape)
  elif mode == "max":
    k = np.full([1] + shape, kmax)
  elif mode == "min":
    k = np.full([1] + shape, kmin)
  elif mode == "lsb":
    # one-hot inputs carrying the smallest positive code: every product is a
    # single weight times one input step (exercises the fraction bits)
    n = int(np.prod(shape))
    hot = sorted(set(int(v) for v in rs.randint(0, n, size=4)))
    k = np.zeros([len(hot), n], dtype=np.int64)
    if kmin > 0:
      k[:] = kmin
    for r, h in enumerate(hot):
      k[r, h] = max(1, kmin)
    k = k.reshape([len(hot)] + shape)
  else:
    l = case["layers"][first_idx]
    w = w_first
    nout = w.shape[-1]          # depthwise: one pattern per depth multiplier
    chans = list(range(min(nout, 6)))
    xs = []
    for c in chans:
      for pol in (1, -1):
        base = np.where(rs.randint(0, 2, size=shape) == 1, kmax, kmin)
        if l["k"] == "dense":
          wc = w[:, c] * pol
          base = np.where(wc > 0, kmax, np.where(wc < 0, kmin, base))
        else:
          nd = 1 if l["k"] == "conv1d" else 2
          pos = macs.conv_positions(shape[:nd], l["ks"], l["st"], l["dil"],
                                     l["pad"])
          st = [p[len(p) // 2] for p in pos]
          if nd == 1:
            for t in range(l["ks"][0]):
              h = st[0] + t * l["dil"][0]
              if 0 <= h < shape[0]:
                wc = w[t, :, c] * pol
                base[h, :] = np.where(wc > 0, kmax, np.where(wc < 0, kmin, base[h, :]))
          else:
            for i in range(l["ks"][0]):
              for j in range(l["ks"][1]):
                h = st[0] + i * l["dil"][0]
                v = st[1] + j * l["dil"][1]
                if 0 <= h < shape[0] and 0 <= v < shape[1]:
                  wc = w[i, j, :, c] * pol   # dw2d: c is the multiplier index
                  base[h, v, :] = np.where(wc > 0, kmax,
                                           np.where(wc < 0, kmin, base[h, v, :]))
        xs.append(base)
    k = np.stack(xs)
  return (k.astype(np.float64) * step).astype(np.float32)


# ---------------------------------------------------------------------------
# oracle: model cases


def _layer_sig(l, in_family, which):
  return {"layer": G.CLASS_OF[l["k"]], "kq": G.q_family(l["kq"]),
          "bq": G.q_family(l["bq"]) if l["bias"] else "none",
          "input": in_family, "which": which,
          **({"depth_multiplier>1": True} if l.get("dm", 1) > 1 else {})}


def oracle_model(ctx, case, stats):
  """One model object; phase 0 = the stored weights of the case, every entry
  [reseed, shift] of case["remap"] is one more phase: the weights of the SAME
  model change (as after more training / weight decay / set_weights; auto_po2
  raw kernels are additionally multiplied by 2^shift so that the kernel scale
  moves), the model runs again and the data type map is generated again.  Every
  phase is judged in full against the map generated in that phase."""
  _housekeeping()
  model, shapes = G.build_stack(case)
  fails = []
  phases = [[0, 0]] + [list(p) for p in case.get("remap", [])]
  prev_scales = None
  seen = set()
  for pi, (reseed, shift) in enumerate(phases):
    bad, go_on, scales = _check_phase(case, model, shapes, reseed, shift, pi, stats)
    for sc, sig, detail in bad:
      key = core.jhash([sc, sig])
      if pi > 0:
        if key in seen:
          continue       # already failing before the weights changed
        sig = dict(sig, remap=True)
        detail = "map #%d of the same model (weights changed): %s" % (pi + 1, detail)
      seen.add(key)
      fails.append((sc, sig, detail))
    if pi > 0:
      stats["labels"].add("remap_checked")
      if scales and prev_scales and any(
          not np.array_equal(a, b) for a, b in zip(scales, prev_scales)):
        stats["labels"].add("remap_auto_scale_changed")
    prev_scales = scales
    if not go_on:
      break
  return fails


def _check_phase(case, model, shapes, reseed, shift, pi, stats):
  """Returns (failures, continue_with_next_phase, auto_po2 kernel scales)."""
  import tensorflow as tf  # pylint: disable=g-import-not-at-top
  from qkeras.qtools import run_qtools as run_qtools_mod  # pylint: disable=g-import-not-at-top
  fails = []
  layers = case["layers"]
  G.set_stack_weights(model, case, shapes, reseed=reseed, shift=shift)
  compute_idx = [i for i, l in enumerate(layers) if l["k"] in G.COMPUTE]
  first = compute_idx[0]

  src_q = G.build_q(case["src"])
  inference = bool(case.get("inference"))

  def run_qtools():
    try:
      with _quiet():
        if inference:
          qt = run_qtools_mod.QTools(model, process="horowitz",
                                     source_quantizers=[src_q], is_inference=True,
                                     model_weights_already_quantized=False)
        else:
          qt = run_qtools_mod.QTools(model, process="horowitz",
                                     source_quantizers=[src_q], is_inference=False)
      return qt._output_dict, None  # pylint: disable=protected-access
    except Exception as e:  # pylint: disable=broad-except
      sig = dict(core.exc_signature(e), clause="qtools_raises", inference=inference,
                 kqs=sorted(set(G.q_family(layers[i]["kq"]) for i in compute_idx)))
      return None, [("qtools_raises", sig, repr(e)[:300])]

  rep = None
  if inference:
    # float-weights route of qtools: the kernel quantizers have been called
    # eagerly on OTHER weights before (their auto_po2 scales are stale), then
    # the weights change and QTools(is_inference=True,
    # model_weights_already_quantized=False) has to re-quantize them itself
    if pi == 0:
      for i in compute_idx:
        lay = model.get_layer("L%d" % i)
        _eval_q(lay.get_quantizers()[0], lay.get_weights()[0])
      G.set_stack_weights(model, case, shapes, reseed=7919)
    rep, bad = run_qtools()
    if bad:
      return bad, False, None

  # quantized weights really used by the layers
  used = {}
  for i in compute_idx:
    lay = model.get_layer("L%d" % i)
    qs = lay.get_quantizers()
    ws = lay.get_weights()
    wq = _eval_q(qs[0], ws[0]).astype(np.float64)
    bq = _eval_q(qs[1], ws[1]).astype(np.float64) if layers[i]["bias"] else None
    used[i] = (wq, bq, qs[0])

  x = make_inputs(case, first, used[first][0])
  if not np.array_equal(_eval_q(src_q, x), x):
    raise core.HarnessError("generated inputs are not fixed points of the "
                            "source quantizer %r" % (case["src"],))
  sub = tf.keras.Model(model.input, [l.output for l in model.layers[1:]])
  outs = sub(tf.constant(x), training=False)
  if not isinstance(outs, (list, tuple)):
    outs = [outs]
  outs = [np.asarray(o) for o in outs]
  # re-evaluate kernel quantizers eagerly so that auto_po2 scales are concrete
  for i in compute_idx:
    lay = model.get_layer("L%d" % i)
    wq = _eval_q(used[i][2], lay.get_weights()[0]).astype(np.float64)
    if not np.array_equal(wq, used[i][0]):
      raise core.HarnessError("kernel quantizer is not deterministic")
  scales = [np.asarray(used[i][2].scale, dtype=np.float64) for i in compute_idx
            if G.is_auto(layers[i]["kq"])]

  if rep is None:
    rep, bad = run_qtools()
    if bad:
      return bad, False, None

  # source type holds the inputs
  for clause, _, text in T.violations(rep["source_quantizers"][0], x):
    fails.append(("source_type", {"clause": clause, "src": G.q_family(case["src"])},
                  "model input: " + text))

  go_on = True
  prev_family = "src:" + G.q_family(case["src"])
  for i, l in enumerate(layers):
    name = "L%d" % i
    r = rep.get(name)
    xin = x if i == 0 else outs[i - 1]
    if l["k"] == "act":
      fam = "act:" + l["q"]["t"]
      if l["q"]["t"] == "relu" and l["q"]["bits"] == 1:
        # quantized_relu(1,1) = {0,1} is handled by qtools as binary(0,1)
        fam = "act:relu_1bit" if l["q"]["int"] != 1 else "act:relu_binary01"
      if r is None:
        raise core.HarnessError("layer %s missing from the qtools report" % name)
      # the quantizers return x + (xq - x) in float32: beyond 2^22 grid steps
      # that expression is no longer exact (C01's stated bound) and the
      # activation emits off-grid values that are not qtools' doing; such
      # elements are not judged, and nothing downstream of them either
      u_act = G.fixed_lattice(l["q"])[0]
      ok_in = np.abs(xin.astype(np.float64)) < 2.0 ** 22 * u_act
      beyond = not bool(ok_in.all())
      for clause, _, text in T.violations(r["output_quantizer"], outs[i][ok_in]):
        fails.append(("activation_type",
                      {"clause": clause, "act": fam[4:]},
                      "%s %r reported %s: %s" % (name, l["q"],
                                                 T.describe(r["output_quantizer"]), text)))
      prev_family = fam
      if beyond:
        stats["labels"].add("act_input_beyond_ste_regime")
        go_on = False
        break
      continue
    if l["k"] == "flatten":
      continue
    wq, bq, qobj = used[i]
    x64 = xin.astype(np.float64)
    fan_in = int(np.prod(wq.shape[:-1])) if l["k"] != "dw2d" else int(np.prod(wq.shape[:2]))
    if not _span_ok(x64, wq, bq, fan_in):
      stats["labels"].add("beyond_f64")
      continue
    y64 = ref_preact(l, x64, wq, bq)
    y32 = outs[i].astype(np.float64)
    if y64.shape != y32.shape:
      raise core.HarnessError("reference conv shape %r != model %r" %
                              (y64.shape, y32.shape))
    # harness self-check of the reference.  float32 accumulation may lose up to
    # fan_in * 2^-24 * sum|terms|; under cancellation (2^15 terms cancel, 2^-16
    # terms remain) that is large relative to |y| itself, so the error is
    # judged against the magnitude of the TERMS, not of the result.  A layer
    # beyond that is not judged at all (label, never a violation or an abort).
    err = np.abs(y64 - y32).max() if y64.size else 0.0
    scale = np.abs(x64).max() * np.abs(wq).max() * fan_in if x64.size else 0.0
    if bq is not None:
      scale += np.abs(bq).max()
    if err > 1e-4 * max(scale, 1e-30):
      stats["labels"].add("reference_mismatch_skipped")
      continue
    exact = bool(np.array_equal(y64, y32))
    stats["labels"].add("exact_f32" if exact else "inexact_f32")

    auto = G.is_auto(l["kq"])
    which = "fused_accumulator" if auto else "accumulator"
    acc = r.get(which)
    if acc is None:
      raise core.HarnessError("no %s reported for %s" % (which, name))
    sig0 = _layer_sig(l, prev_family, which)
    for clause, _, text in T.violations(acc, y64):
      if clause == "step" and not exact:
        continue
      fails.append(("accumulator", dict(sig0, clause=clause),
                    "%s %s reported %s: %s | kq=%r bq=%r fan_in=%d" %
                    (name, which, T.describe(acc), text, l["kq"],
                     l["bq"] if l["bias"] else None, fan_in)))
    if T.kind(acc) == "fixed":
      frac, kmin, kmax = T.fixed_params(acc)
      top = np.abs(np.ldexp(y64, frac)).max() if y64.size else 0
      if top * 8 >= (kmax + 1):
        stats["labels"].add("tight")
      if top * 2 >= (kmax + 1):
        stats["labels"].add("very_tight")
      if int(acc["bits"]) <= 24:
        stats["labels"].add("acc_bits<=24")
    # weights / bias fit their reported types
    wrep = r.get("weight_quantizer")
    wv = wq
    if auto:
      scale = np.asarray(qobj.scale, dtype=np.float64)
      wv = wq / scale                                    # power-of-two scale: exact
      stats["labels"].add("auto_scales:%d" % len(np.unique(scale)))
    for clause, _, text in T.violations(wrep, wv):
      fails.append(("weight_type", {"layer": sig0["layer"], "kq": sig0["kq"],
                                    "clause": clause},
                    "%s kernel %r reported %s: %s" % (name, l["kq"], T.describe(wrep), text)))
    if l["bias"]:
      brep = r.get("bias_quantizer")
      if brep is None:
        fails.append(("bias_type", {"layer": sig0["layer"], "bq": sig0["bq"],
                                    "clause": "missing"}, "%s: no bias type reported" % name))
      else:
        for clause, _, text in T.violations(brep, bq):
          fails.append(("bias_type", {"layer": sig0["layer"], "bq": sig0["bq"],
                                      "clause": clause},
                        "%s bias %r reported %s: %s" % (name, l["bq"], T.describe(brep), text)))
    prev_family = "acc"
  return fails, go_on, scales


def labels_model(case):
  labs = ["model", "x:" + case["xmode"]]
  if case.get("lead_act"):
    labs.append("lead_act")
  if case.get("inference"):
    labs.append("inference")
  if case.get("remap"):
    labs.append("remap")
    labs.append("remap:%d" % len(case["remap"]))
    if any(G.is_auto(l["kq"]) for l in case["layers"] if l["k"] in G.COMPUTE):
      labs.append("remap_auto_po2")
      if case.get("inference"):
        labs.append("remap_auto_po2_inference")
  prev = None
  for l in case["layers"]:
    if l["k"] == "act":
      prev = l["q"]
    if l["k"] in G.COMPUTE:
      labs += ["k:" + l["k"], "kq:" + G.q_family(l["kq"]), "w:" + l["wmode"],
               "bias" if l["bias"] else "nobias"]
      if l.get("dm", 1) > 1:
        labs.append("dw_depth_multiplier>1")
      if G.q_family(l["kq"]) in ("qb_unsigned", "relu", "rpo2"):
        labs.append("kernel_unsigned")
        if prev is not None and prev["t"] in G.BIN_TER:
          labs.append("bin_ter_into_unsigned_kernel")
      if case.get("inference") and G.is_auto(l["kq"]):
        labs.append("inference_auto_po2")
      mv = l["kq"].get("mv")
      if mv is not None and np.log2(mv) != np.round(np.log2(mv)):
        labs.append("kq_max_value_not_po2")
      if l["bias"]:
        labs.append("bq:" + G.q_family(l["bq"]))
    elif l["k"] == "act":
      labs.append("act:" + l["q"]["t"])
      if l["q"]["t"] == "relu" and l["q"]["bits"] == 1:
        labs.append("act:relu_1bit_int%d" % l["q"]["int"])
  labs.append("depth:%d" % sum(1 for l in case["layers"] if l["k"] in G.COMPUTE))
  return sorted(set(labs), key=lambda s: (s != "model", s))


# ---------------------------------------------------------------------------
# oracle: analyze_accumulator


def oracle_aa(ctx, case, stats):
  import tensorflow as tf  # pylint: disable=g-import-not-at-top
  from qkeras import estimate  # pylint: disable=g-import-not-at-top
  _housekeeping()
  fails = []
  l = case["layers"][0]
  model, shapes = G.build_stack(case)
  G.set_stack_weights(model, case, shapes)
  lay = model.get_layer("L0")
  ws = lay.get_weights()
  qs = lay.get_quantizers()
  w = ws[0].astype(np.float64)
  if not np.array_equal(_eval_q(qs[0], ws[0]), ws[0]):
    raise core.HarnessError("stored kernel is not a fixed point of %r" % (l["kq"],))
  b = None
  if l["bias"]:
    b = ws[1].astype(np.float64)
    if not np.array_equal(_eval_q(qs[1], ws[1]), ws[1]):
      raise core.HarnessError("stored bias is not a fixed point of %r" % (l["bq"],))
  lo, hi = case["range"][0] / 8.0, case["range"][1] / 8.0
  if not w.any() and (b is None or not b.any()):
    stats["labels"].add("aa_all_zero_layer")     # log2(0): outside the domain
    return []
  cls = G.CLASS_OF[l["k"]]
  sig0 = {"layer": cls, "clause": "analyze_accumulator"}
  n_out = w.shape[-1] if l["k"] != "dw2d" else w.shape[-2] * w.shape[-1]
  try:
    with _quiet():
      sizes = estimate.analyze_accumulator(model, {"L0": (lo, hi)})
    size = sizes["L0"]
  except Exception as e:  # pylint: disable=broad-except
    sig = dict(core.exc_signature(e), **sig0)
    return [("analyze_accumulator_raises", sig, repr(e)[:300])]

  # worst-case inputs per output channel, realised on the real layer: the input
  # is exactly one receptive field (valid padding, spatial == kernel size)
  xs = []
  chans = list(range(n_out))
  for c in chans:
    if l["k"] == "dw2d":
      wc = np.zeros(w.shape[:3])
      wc[:, :, c] = w[:, :, c, 0]
    else:
      wc = w[..., c]
    for pol in (1, -1):
      xs.append(np.where(wc * pol > 0, hi, np.where(wc * pol < 0, lo,
                                                     hi if abs(hi) < abs(lo) else lo)))
  xs = np.stack(xs).astype(np.float32)
  out = np.asarray(lay(tf.constant(xs))).astype(np.float64)
  out = out.reshape(len(xs), -1)
  if out.shape[1] != n_out:
    raise core.HarnessError("estimator case must have one output position")
  exact = ref_preact(l, xs.astype(np.float64), w, b).reshape(len(xs), -1)
  if not np.array_equal(exact, out):
    raise core.HarnessError("estimator case is not exact in float32")
  for j, c in enumerate(chans):
    m = max(abs(out[2 * j, c]), abs(out[2 * j + 1, c]))
    if m > 2.0 ** size:
      # root-cause key: the bias-scaling bucket is used only when the estimator
      # returns exactly what its documented formula gives (every output channel
      # walked, bias multiplied by the input bound); anything else is "other"
      if size != _documented_size(l, w, b, lo, hi):
        cause = "other"
      elif b is not None and b[c] != 0 and hi < 1:
        cause = "bias_scaled_by_x_max_below_1"
      else:
        cause = "other"
      fails.append(("analyze_accumulator",
                    dict(sig0, kind="bound_too_small", cause=cause),
                    "%s kernel %r range (%r,%r): channel %d reaches |out|=%r > 2^%d"
                    % (cls, list(w.shape), lo, hi, c, m, size)))
      break
  stats["labels"].add("aa_checked")
  return fails


def _documented_size(l, w, b, lo, hi):
  """ceil(log2(max_value)) of the formula in analyze_accumulator's docstring,
  evaluated over every output channel (depthwise kernels: one column per
  (input channel, multiplier) pair), bias multiplied by the input bound as the
  docstring writes it.  Used only to choose the root-cause key of a failure,
  never as the oracle."""
  vals = []
  wk = w.reshape(w.shape[:2] + (-1,)) if l["k"] == "dw2d" else w
  for i in range(wk.shape[-1]):
    k = wk[..., i]
    bi = 0.0 if b is None else float(b[i])
    npp = float(np.sum(k * (k > 0))) + (bi if bi > 0 else 0.0)
    nnn = float(np.sum(k * (k < 0))) + (bi if bi < 0 else 0.0)
    xp = hi if hi > 0 else 0.0
    xn = lo if lo < 0 else 0.0
    vals.append(max(npp * xp + nnn * xn, -(nnn * xp + npp * xn)))
  top = max(vals)
  if top <= 0:
    return None
  return int(np.ceil(np.log2(top)))


def labels_aa(case):
  l = case["layers"][0]
  return ["aa", "aa:" + G.CLASS_OF[l["k"]], "bias" if l["bias"] else "nobias"]


# ---------------------------------------------------------------------------
# strategies


def case_strategy(quick):
  from hypothesis import strategies as st  # pylint: disable=g-import-not-at-top

  @st.composite
  def compute_layer(draw, kind, cur, prev_act):
    l = {"k": kind}
    if kind == "dense":
      l["units"] = draw(st.integers(1, 4 if quick else 8))
    else:
      ks, stv, dil, pad = G.st_geometry(st, draw, kind, cur, quick)
      l.update(ks=ks, st=stv, dil=dil, pad=pad)
      if kind != "dw2d":
        l["filters"] = draw(st.integers(1, 4 if quick else 8))
      else:
        l["dm"] = draw(st.sampled_from([1, 1, 2, 3]))
    l["bias"] = draw(st.booleans())
    l["kq"] = draw(G.st_kernel_q(st, wide=not quick))
    if l.get("dm", 1) > 1 and G.is_auto(l["kq"]):
      # qtools documents depth_multiplier == 1 for auto_po2 depthwise kernels
      # (assert in adjust_accumulator_for_auto_po2)
      l["kq"] = dict(l["kq"], alpha=1.0)
    if prev_act is not None and prev_act["t"] in G.BIN_TER and \
        l["kq"]["t"] == "qb" and not G.is_auto(l["kq"]):
      # -1 x most-negative code is outside the domain (as min x min is);
      # applied AFTER the auto_po2 -> alpha=1 replacement above
      l["kq"] = dict(l["kq"], sym=1)
    l["bq"] = draw(G.st_bias_q(st))
    l["wmode"] = draw(st.sampled_from(["random", "max", "min", "signed_max", "lsb"]))
    l["wseed"] = draw(st.integers(0, 2 ** 16))
    return l

  @st.composite
  def model_case(draw):
    first = draw(st.sampled_from(["dense", "conv1d", "conv2d", "dw2d"]))
    if first == "dense":
      in_shape = [draw(st.sampled_from([1, 2, 3, 4, 5, 8, 9, 16] if quick else
                                       [1, 2, 3, 4, 5, 8, 9, 16, 31, 32, 33, 64]))]
      n_conv = 0
    elif first == "conv1d":
      in_shape = [draw(st.integers(2, 8 if quick else 12)),
                  draw(st.sampled_from([1, 2, 3, 4] if quick else [1, 2, 3, 4, 8]))]
      n_conv = draw(st.integers(1, 2))
    else:
      in_shape = [draw(st.integers(2, 6 if quick else 10)),
                  draw(st.integers(2, 6 if quick else 10)),
                  draw(st.sampled_from([1, 2, 3, 4] if quick else [1, 2, 3, 4, 8]))]
      n_conv = draw(st.integers(1, 2))
    n_dense = draw(st.integers(1 if first == "dense" else 0, 2))
    src = draw(st.builds(lambda b, i: {"t": "qb", "bits": b, "int": min(i, b - 1),
                                       "sym": 1, "kn": 1, "alpha": None},
                         st.integers(2, 8 if quick else 12), st.integers(0, 2)))
    case = {"type": "model", "in_shape": in_shape}
    lead = None
    if draw(st.integers(0, 3)) == 0:
      lead = draw(G.st_act_q(st))
      extra = draw(st.integers(0, 1))
      if lead["t"] in G.BIN_TER:
        src = {"t": "qb", "bits": 2 + extra, "int": 1, "sym": 1, "kn": 1,
               "alpha": None}
      elif lead["t"] == "relu":
        if lead["bits"] == 1:
          extra = 1
        src = {"t": "qb", "bits": lead["bits"] + 1 + extra, "int": lead["int"],
               "sym": 1, "kn": 1, "alpha": None}
      else:
        src = {"t": "qb", "bits": lead["bits"] + extra, "int": lead["int"],
               "sym": 1, "kn": 1, "alpha": None}
    case["src"] = src
    layers = []
    cur = list(in_shape)
    if lead is not None:
      case["lead_act"] = lead
      layers.append({"k": "act", "q": lead})
    kinds = []
    for j in range(n_conv):
      kinds.append(first if j == 0 else
                   draw(st.sampled_from(["conv1d"] if first == "conv1d"
                                        else ["conv2d", "dw2d"])))
    kinds += ["dense"] * n_dense
    prev_act = lead
    for j, kind in enumerate(kinds):
      if kind == "dense" and len(cur) > 1:
        layers.append({"k": "flatten"})
        cur = G.out_shape(layers[-1], cur)
      l = draw(compute_layer(kind, cur, prev_act))
      layers.append(l)
      cur = G.out_shape(l, cur)
      if j < len(kinds) - 1:
        prev_act = draw(G.st_act_q(st))
        layers.append({"k": "act", "q": prev_act})
    case["layers"] = layers
    case["xmode"] = draw(st.sampled_from(["random", "max", "min", "aligned", "lsb"]))
    case["xseed"] = draw(st.integers(0, 2 ** 16))
    case["batch"] = 2
    if draw(st.integers(0, 3)) == 0:
      case["inference"] = True
    # the data type map of ONE model object is generated again after its
    # weights changed (drawn last: earlier draws keep their meaning)
    n_remap = draw(st.sampled_from([0, 0, 0, 1, 1, 2]))
    if n_remap:
      case["remap"] = [[draw(st.sampled_from([0, 1, 2, 3])),
                        draw(st.integers(-4, 4))] for _ in range(n_remap)]
    return case

  @st.composite
  def aa_case(draw):
    kind = draw(st.sampled_from(["dense", "conv1d", "conv2d", "dw2d"]))
    l = {"k": kind}
    if kind == "dense":
      in_shape = [draw(st.integers(1, 6))]
      l["units"] = draw(st.integers(1, 5))
    elif kind == "conv1d":
      k = draw(st.integers(1, 4))
      in_shape = [k, draw(st.integers(1, 4))]
      l.update(ks=[k], st=[1], dil=[1], pad="valid", filters=draw(st.integers(1, 5)))
    else:
      kh, kw = draw(st.integers(1, 3)), draw(st.integers(1, 3))
      in_shape = [kh, kw, draw(st.integers(1, 4))]
      l.update(ks=[kh, kw], st=[1, 1], dil=[1, 1], pad="valid")
      if kind == "conv2d":
        l["filters"] = draw(st.integers(1, 5))
    l["bias"] = draw(st.booleans())
    l["kq"] = draw(st.one_of(G.st_qb(st, bits=(2, 5)), st.just({"t": "ter"}),
                             st.just({"t": "bin"}), G.st_stochastic_q(st),
                             st.just({"t": "po2", "bits": 4, "mv": None})))
    l["bq"] = draw(G.st_qb(st, bits=(2, 5), ints=(0, 2)))
    l["wmode"] = draw(st.sampled_from(["random", "random", "signed_max"]))
    l["wseed"] = draw(st.integers(0, 2 ** 16))
    lo = draw(st.integers(-16, 8))
    hi = draw(st.integers(max(lo + 1, 1), 17))
    return {"type": "aa", "in_shape": in_shape, "layers": [l], "range": [lo, hi]}

  return model_case(), aa_case()


# ---------------------------------------------------------------------------


def oracle(ctx, case):
  stats = {"labels": set()}
  if case.get("type") == "aa":
    fails = oracle_aa(ctx, case, stats)
    labs = labels_aa(case) + sorted(stats["labels"])
    l = case["layers"][0]
    kshape = G.kernel_shape(l, case["in_shape"])
    nout = kshape[-1] if l["k"] != "dw2d" else kshape[-2]
    ctx.tick(case, labels=labs, nontrivial=nout > 1)
  else:
    fails = oracle_model(ctx, case, stats)
    labs = labels_model(case) + sorted(stats["labels"])
    ctx.tick(case, labels=labs, nontrivial="tight" in stats["labels"])
  return fails


def edge_cases(tier):
  """Deterministic single-layer lattice: input family x kernel family x bias x
  (weight mode, input mode); fan-in 4 (a power of two, so the top accumulator
  bit is reachable).  quick: the layer kind rotates with the index; thorough:
  full cross product with the four layer kinds."""
  qb = lambda b, i, s=1, a=None: {"t": "qb", "bits": b, "int": i, "sym": s,
                                  "kn": 1, "alpha": a}
  inputs = [None, {"t": "relu", "bits": 3, "int": 1}, qb(3, 1),
            {"t": "bin"}, {"t": "ter"}, {"t": "relu", "bits": 1, "int": 0},
            {"t": "relu", "bits": 1, "int": 2}, {"t": "relu", "bits": 1, "int": 1}]
  kernels = [qb(3, 0, 0, 1.0), qb(4, 1, 1, 1.0), qb(4, 0, 0, "auto_po2"),
             {"t": "po2", "bits": 3, "mv": None}, {"t": "po2", "bits": 4, "mv": None},
             {"t": "po2", "bits": 4, "mv": 4.0}, {"t": "po2", "bits": 4, "mv": 1.0},
             {"t": "po2", "bits": 4, "mv": 6.0},
             {"t": "bin"}, {"t": "ter"},
             # the stochastic classes (deterministic outside training); only
             # after source / relu / quantized_bits / binary inputs
             {"t": "sbin"}, {"t": "ster", "temp": 1.0, "real_sigmoid": 0},
             # unsigned kernels (only after source / relu / binary / ternary inputs)
             {"t": "qb", "bits": 3, "int": 1, "sym": 0, "kn": 0, "alpha": 1.0},
             {"t": "relu", "bits": 3, "int": 1}, {"t": "rpo2", "bits": 2, "mv": None}]
  n_signed = len(kernels) - 3
  n_plain = n_signed - 2
  biases = [None, qb(4, 1, 0, 1.0), {"t": "po2", "bits": 3, "mv": None}]
  modes = [("max", "max"), ("min", "max"), ("min", "min"), ("max", "min"),
           ("signed_max", "aligned"), ("lsb", "lsb"), ("random", "random")]
  geos = [
      ("dense", [4], {"units": 2}),
      ("conv1d", [3, 2], {"ks": [2], "st": [1], "dil": [1], "pad": "valid", "filters": 2}),
      ("conv2d", [3, 3, 1], {"ks": [2, 2], "st": [1, 1], "dil": [1, 1], "pad": "valid",
                             "filters": 2}),
      ("dw2d", [3, 3, 2], {"ks": [2, 2], "st": [1, 1], "dil": [1, 1], "pad": "same"}),
      ("dw2d", [3, 3, 2], {"ks": [2, 2], "st": [1, 1], "dil": [1, 1], "pad": "valid",
                           "dm": 2}),
      ("dw2d", [2, 3, 1], {"ks": [2, 2], "st": [1, 1], "dil": [1, 1], "pad": "same",
                           "dm": 3}),
  ]
  n_est = 4          # the estimator lattice uses the first four geometries
  out = []
  idx = 0
  for ii, lead in enumerate(inputs):
    for ik, kq in enumerate(kernels):
      if ik >= n_signed and ii not in (0, 1, 3, 4):
        continue
      if n_plain <= ik < n_signed and ii not in (0, 1, 2, 3):
        continue
      for ib, bq in enumerate(biases):
        for im, (wm, xm) in enumerate(modes):
          idx += 1
          kinds = (range(len(geos)) if tier != "quick"
                   else [(ii + ik + ib + im) % len(geos)])
          for g in kinds:
            kind, in_shape, geo = geos[g]
            k2 = dict(kq)
            if geo.get("dm", 1) > 1 and G.is_auto(k2):
              k2["alpha"] = 1.0
            if lead is not None and lead["t"] in G.BIN_TER and \
                k2["t"] == "qb" and not G.is_auto(k2):
              k2["sym"] = 1
            l = dict({"k": kind, "bias": bq is not None, "kq": k2,
                      "bq": bq or qb(4, 1, 0, 1.0), "wmode": wm, "wseed": idx}, **geo)
            case = {"type": "model", "in_shape": in_shape}
            if lead is None:
              case["src"] = qb(3 + idx % 2, idx % 2)
              layers = []
            else:
              case["lead_act"] = lead
              if lead["t"] in G.BIN_TER:
                case["src"] = qb(2, 1)
              elif lead["t"] == "relu":
                case["src"] = qb(lead["bits"] + (2 if lead["bits"] == 1 else 1),
                                 lead["int"])
              else:
                case["src"] = qb(lead["bits"], lead["int"])
              layers = [{"k": "act", "q": lead}]
            case["layers"] = layers + [l]
            case.update(xmode=xm, xseed=idx, batch=2)
            if G.is_auto(k2) and idx % 2 == 0:
              case["inference"] = True      # float-weights route, stale scales
            if idx % 5 == 0 or (G.is_auto(k2) and idx % 4 < 2):
              # second (third) map of the same model after its weights changed;
              # reseed 0 + shift: same pattern, kernel scale moved by 2^shift
              case["remap"] = [[0, -3 if idx % 2 else 2]] + (
                  [[1, 1]] if idx % 3 == 0 else [])
            out.append(case)
  # accumulators beyond 24 bits: float32 is inexact, only the range is tested
  out.append({"type": "model", "in_shape": [33], "src": qb(12, 1),
              "layers": [{"k": "dense", "units": 2, "bias": True,
                          "kq": qb(12, 0, 0, 1.0), "bq": qb(8, 2, 0, 1.0),
                          "wmode": "random", "wseed": 7}],
              "xmode": "aligned", "xseed": 7, "batch": 2})
  # estimator lattice
  for g, (kind, in_shape, geo) in enumerate(geos[:n_est]):
    for bias in (False, True):
      for rng in ([-8, 8], [0, 12], [-16, 4], [-2, 3]):
        for nout in (1, 3):
          idx += 1
          geo2 = dict(geo, pad="valid")
          if kind == "dense":
            geo2["units"] = nout
            shp = in_shape
          elif kind == "conv1d":
            geo2["filters"] = nout
            shp = [2, 2]
          elif kind == "conv2d":
            geo2["filters"] = nout
            shp = [2, 2, 1]
          else:
            shp = [2, 2, nout]
          l = dict({"k": kind, "bias": bias, "kq": qb(3, 1, 1, 1.0),
                    "bq": qb(4, 2, 1, 1.0), "wmode": "random", "wseed": idx}, **geo2)
          out.append({"type": "aa", "in_shape": shp, "layers": [l], "range": rng})
  return out


DYNAMIC_LABELS = ("edge", "tight", "very_tight", "exact_f32", "inexact_f32",
                  "remap_auto_scale_changed")


def prioritized(cases, tier):
  """Splits the lattice into a short head that produces every REQUIRED label
  (greedy cover over the labels that follow from the case description, plus
  fixed extremal cases for the measured ones) and the rest.  The head is run
  first and regardless of the time budget, so the vacuity guard never depends
  on how far a slow machine gets."""
  need = set(REQUIRED_LABELS[tier]) - set(DYNAMIC_LABELS)
  static = []
  for c in cases:
    labs = labels_aa(c) if c.get("type") == "aa" else labels_model(c)
    static.append(set(labs) & need)
  head = []
  covered = set()
  while covered != need:
    best = max(range(len(cases)), key=lambda i: len(static[i] - covered))
    if not static[best] - covered:
      raise core.HarnessError("lattice cannot produce labels %r" %
                              sorted(need - covered))
    head.append(best)
    covered |= static[best]
  # measured labels: extremal single dense layers (tight / very_tight /
  # exact_f32) and the wide case (inexact_f32)
  for want in (("max", "max"), ("min", "min"), ("min", "max")):
    for i, c in enumerate(cases):
      l = c["layers"][-1]
      if (c.get("type") == "model" and "lead_act" not in c and l["k"] == "dense"
          and not l["bias"] and G.q_family(l["kq"]) == "qb"
          and (l["wmode"], c["xmode"]) == want and i not in head):
        head.append(i)
        break
  wide = [i for i, c in enumerate(cases) if c["in_shape"] == [33]]
  head += [i for i in wide if i not in head]
  hs = set(head)
  return [cases[i] for i in head], [c for i, c in enumerate(cases) if i not in hs]


def run(ctx):
  from hypothesis import strategies as st  # pylint: disable=g-import-not-at-top
  quick = ctx.quick
  cases = edge_cases(ctx.tier)
  head, rest = prioritized(cases, ctx.tier)
  if ctx.idx == 0:
    ctx.info["lattice_size"] = len(cases)
    ctx.info["priority_head"] = len(head)
  for case in ctx.shard(head):           # never cut by the budget
    ctx.labels["edge"] += 1
    for sc, sig, detail in oracle(ctx, case):
      ctx.fail(sc, sig, case, detail)
  # the lattice may use 60% of the budget; the rest belongs to the random
  # stream whatever the number of workers is
  reserve = 0.4 * ctx.budget_s
  for case in ctx.shard(rest):
    if ctx.time_left() <= reserve:
      ctx.labels["lattice_cut_by_time"] += 1
      break
    ctx.labels["edge"] += 1
    for sc, sig, detail in oracle(ctx, case):
      ctx.fail(sc, sig, case, detail)
  st_model, st_aa = case_strategy(quick)
  # one interleaved stream (2 model cases : 1 estimator case) so that a run cut
  # short by the time budget has still covered both families
  n = (960 if quick else 32000) // ctx.n + 1
  strat = st.one_of(st_model, st_model, st_aa)
  core.hyp_run(ctx, strat, lambda c: oracle(ctx, c), n, name="c18")


def replay(ctx, case):
  for sc, sig, detail in oracle(ctx, case):
    ctx.fail(sc, sig, case, detail)
