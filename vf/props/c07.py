"""C07 - qnoise_factor interpolates between the unquantized and the quantized
output; constructor constant == update API == variable-backed mode; the
QNoiseScheduler callback drives the factor with the documented schedule and
applies it to every quantizer of the model that has the knob.

Part A: configurations x tensors x factor grid (deterministic + Hypothesis).
Part B: Hypothesis state machine over call/update/build/set_quantizers/
        get_config histories of one quantizer.
Part C: Hypothesis state machine over callback-hook histories of a
        QNoiseScheduler attached to a stub model made of real qkeras layers.
"""
import copy

import numpy as np

from vf import core
from vf.gen import qnoise as G
from vf.ref import qnoise_ref as R

RULE = ("A: case = (knob-quantizer configuration incl. use_ste, float32 tensor, "
        "list of factors, route by which the variable-backed instance is made); "
        "every factor is applied through three routes (constructor constant, "
        "update_qnoise_factor on a float-backed instance, update on a "
        "tf.Variable-backed instance). Non-trivial = some element is changed by "
        "quantization (quantized != surrogate) and some factor lies strictly "
        "inside (0,1). B: case = (configuration, tensor, two quantizers, history of "
        "call/update(float|np.float32|np.float64|tf constant|fresh tf.Variable|"
        "caller-owned pool tf.Variable)/owner re-assigns a pool variable/"
        "build(use_variables)"
        "/scheduler.set_quantizers/get_config round trip, all six classes); non-trivial = the "
        "history contains an update that follows a variable-creating build. "
        "C: case = (list of layer descriptions, scheduler arguments, history of "
        "callback hooks and forward calls); non-trivial = the model has a knob "
        "quantizer and an update step strictly between start and finish was "
        "applied. D: case = (tiny Sequential of QDense/QActivation with seeded "
        "constant weights, built lazily by fit() or pre-built with an InputLayer, "
        "scheduler arguments, epochs x steps, optionally split over two fit() "
        "calls that re-use the scheduler); graph-mode model.fit with "
        "learning rate 0; non-trivial = the model output depends on the factor "
        "and the prescribed factor changes after the first training step. "
        "Distinct by hash of the whole case description.")
ASSUMPTIONS = [
    "checks run under TF_USE_LEGACY_KERAS=1 (tf_keras), float32, eager, "
    "learning phase 0 (stochastic rounding off)",
    "interpolation identity asserted within 4 ulp32 of max(|surrogate|,"
    "|quantized|) (error analysis in vf/ref/qnoise_ref.py: <=2 ulp for the "
    "straight-through form, <=3.5 ulp for the use_ste=False form); the "
    "measured worst error per case is recorded in the labels 'A:err<=..ulp'",
    "f=0 must return the surrogate bit-exactly on every route; f=1 with "
    "use_ste=False must return the quantized value bit-exactly",
    "'quantized(x)' is the output at f=1 of the use_ste=False form where the "
    "class has that option (algebraically exactly xq), else the output at f=1",
    "closed-form surrogate: identity (quantized_bits/linear/po2), leaky ReLU "
    "clipped at 2^integer-2^(integer-nonsign_bits) / relu_upper_bound / "
    "max_value (exact), hard-swish x*clip(x+shift,0,ub)/ub within 3 ulp; "
    "not asserted for quantized_relu(use_sigmoid=1) (docstring does not say "
    "what the unquantized activation is there)",
    "constructor route vs update routes must agree bit-exactly for the "
    "straight-through form (same float32 factor), within 4 ulp for the "
    "use_ste=False form (1-f is formed in double for a python float and in "
    "float32 for a variable)",
    "a stored factor is accepted if it equals the requested one exactly or "
    "after float32 rounding",
    "inputs: finite float32, |x| <= 300, magnitudes below 1e-30 flushed to 0; "
    "data-dependent alpha only with symmetric=1, keep_negative, bits>=2",
    "scheduler domain: 0<=start<=finish, update_freq>=1, "
    "initial_step_or_epoch>=0, exponent>0 (0.5..4.5), log_dir unused",
    "scheduler position of the k-th relevant hook (on_epoch_begin for "
    "freq_type='epoch', on_train_batch_begin for 'step') since attachment is "
    "initial_step_or_epoch+k; it is an update step iff position % update_freq "
    "== 0 (docstring: 'updating frequency'); the epoch/batch arguments Keras "
    "passes are not part of the reference",
    "between start and finish the factor must equal 1-((finish-p)/(finish-"
    "start))^exponent within 1e-9 (cited paper + tests/callbacks_test.py)",
    "Part D: the output a probe layer records inside the compiled training "
    "step must equal the eager model output with every knob quantizer set to "
    "the prescribed factor within 1e-5+1e-5*|y| (measured: bit-identical, "
    "label D:maxdiff<=1e-6); inputs are generic floats so that no "
    "pre-activation sits on a rounding tie; quantizers passed as activation= "
    "(C07-KF2) are not used in Part D models",
    "after a get_config round trip the rebuilt quantizer is held to the "
    "references of the original configuration (same 4 ulp), and a later update "
    "of the discarded original must not change it",
]
BUDGET_S = {"quick": 45, "thorough": 840}
REQUIRED_LABELS = {
    "quick": ["A", "A:ste", "A:noste", "A:linear", "A:f_mid", "A:auto_alpha",
              "A:var_ctor", "A:var_rebuild", "A:hyp",
              "B", "B:update_after_var_build", "B:roundtrip",
              "B:set_quantizers", "B:kind_tf", "B:kind_np32", "B:kind_tfvar",
              "B:two_quantizers", "B:kind_pool", "B:pool_update_float_backed",
              "B:pool_reassigned_after_feed", "B:pool_shared_by_siblings",
              "B:sibling_update_after_shared",
              "B:quantized_linear", "B:quantized_hswish",
              "C", "C:epoch", "C:step", "C:between", "C:before_start",
              "C:from_finish", "C:nonupdate_step", "C:has_nonknob",
              "C:has_singular", "C:prebuilt", "C:forward_checked",
              "C:has_quantized_linear", "C:has_act_quantizer",
              "C:train_begin_again_after_positive", "D:two_fits",
              "D", "D:lazy", "D:prebuilt", "D:step", "D:epoch",
              "D:graph_mode", "D:sensitive",
              "D:factor_changes_after_first_step"],
}
REQUIRED_LABELS["thorough"] = REQUIRED_LABELS["quick"]

OTHER_F = 0.625      # initial factor of instances that are updated later

# The time budget is soft: on a loaded machine every part still runs at least
# this many generated cases per worker before its time slice may cut it short
# (so the run is slow rather than vacuous).
MIN_CASES = {"A": 20, "B": 25, "C": 40}


def _out_of_time(ctx, part):
  return ctx.time_left() <= 0 and \
      ctx.info.get("_n_" + part, 0) >= MIN_CASES[part]


def _count(ctx, part):
  ctx.info["_n_" + part] = ctx.info.get("_n_" + part, 0) + 1


def _finite(a):
  return np.isfinite(np.asarray(a, dtype=np.float64))


# ===========================================================================
# Part A


def _err_bucket(part, worst):
  """Label recording the measured worst interpolation error of a case."""
  for b in (0.5, 1.0, 2.0, 4.0):
    if worst <= b:
      return "%s:err<=%gulp" % (part, b)
  return "%s:err>4ulp" % part


def _fclass(f):
  return "zero" if f == 0 else ("one" if f == 1 else "mid")


def oracle_a(ctx, case):
  """Returns [(sub_check, signature, detail)] and ticks once."""
  cfg = case["cfg"]
  fs = case["fs"]
  x = np.asarray(case["xs"], dtype=np.float32).reshape(case["shape"])
  core.reset_globals()
  has_ste = G.has_ste(cfg)
  ste_eff = bool(cfg.get("use_ste", True)) if has_ste else True
  form = "linear" if not has_ste else ("ste" if ste_eff else "noste")
  base = {"cls": cfg["cls"], "variant": G.variant(cfg), "form": form}
  fails = []
  labels = ["A", "A:" + cfg["cls"], "A:" + form,
            "A:var_" + case.get("var_route", "ctor")]
  if isinstance(cfg["kw"].get("alpha"), str):
    labels.append("A:auto_alpha")
  if case.get("hyp"):
    labels.append("A:hyp")

  def done(nontrivial=False):
    seen, labs = set(), []
    for l in labels:
      if l not in seen:
        seen.add(l)
        labs.append(l)
    ctx.tick(case, labels=labs, nontrivial=nontrivial)
    return fails

  try:
    s = G.call(G.build(cfg, qnoise_factor=0.0), x)
    if has_ste:
      xq = G.call(G.build(cfg, qnoise_factor=1.0, use_ste=False), x)
    else:
      xq = G.call(G.build(cfg, qnoise_factor=1.0), x)
  except Exception as e:  # pylint: disable=broad-except
    fails.append(("call_raises", dict(core.exc_signature(e), **base),
                  repr(e)[:300]))
    return done()
  ok = _finite(s) & _finite(xq)
  if not ok.all():
    labels.append("A:nonfinite_ref")
    if not ok.any():
      return done()

  # f = 0 is the documented unquantized activation
  sc, exact = G.surrogate(cfg, x)
  if sc is not None:
    labels.append("A:surrogate_checked")
    if exact:
      bad = ok & (s.astype(np.float64) != sc)
    else:
      bad = ok & (np.abs(s.astype(np.float64) - sc) >
                  3.0 * R.ulp32(sc) + 1e-38)
    if bad.any():
      i = int(np.argmax(bad.reshape(-1)))
      fails.append(("surrogate", dict(base),
                    "x=%r q_0(x)=%r closed-form=%r" % (
                        x.reshape(-1)[i], s.reshape(-1)[i], sc.reshape(-1)[i])))

  # instances that are updated later
  try:
    q_upd = G.build(cfg, qnoise_factor=OTHER_F)
    route = case.get("var_route", "ctor")
    if route == "ctor":
      q_var = G.build(cfg, qnoise_factor=OTHER_F, use_variables=True)
    else:
      q_var = G.build(cfg, qnoise_factor=OTHER_F)
      G.call(q_var, x)                     # built float-backed by first call
      q_var.build(use_variables=True)      # then rebuilt variable-backed
  except Exception as e:  # pylint: disable=broad-except
    fails.append(("call_raises", dict(core.exc_signature(e), **base),
                  repr(e)[:300]))
    return done()

  worst = 0.0
  for f in fs:
    if f == 0:
      labels.append("A:f0")
    elif f == 1:
      labels.append("A:f1")
    else:
      labels.append("A:f_mid")
    ys = {}
    for path in ("ctor", "update", "variable"):
      try:
        if path == "ctor":
          q = G.build(cfg, qnoise_factor=f)
        elif path == "update":
          q = q_upd
          q.update_qnoise_factor(f)
        else:
          q = q_var
          q.update_qnoise_factor(f)
        y = G.call(q, x)
        rb = float(q.qnoise_factor)
      except Exception as e:  # pylint: disable=broad-except
        fails.append(("call_raises", dict(core.exc_signature(e), path=path,
                                          **base), repr(e)[:300]))
        continue
      ys[path] = y
      sig = dict(base, path=path, f=_fclass(f))
      if not R.same_factor(rb, f):
        fails.append(("readback", dict(base, path=path),
                      "requested %r stored %r" % (f, rb)))
      err, ref = R.interp_err_ulp(y, s, xq, f)
      e = np.where(ok, err, 0.0)
      if np.isnan(y[ok]).any():
        e = np.where(ok & np.isnan(y), np.inf, e)
      m = float(e.max())
      if m > R.TOL_ULP:
        i = int(np.argmax(e.reshape(-1)))
        fails.append(("interp", sig,
                      "f=%r x=%r got=%r want=%r (s=%r xq=%r) err=%.3g ulp" % (
                          f, x.reshape(-1)[i], y.reshape(-1)[i],
                          ref.reshape(-1)[i], s.reshape(-1)[i],
                          xq.reshape(-1)[i], m)))
      else:
        worst = max(worst, m)
      if f == 0 and (ok & (y != s)).any():
        i = int(np.argmax((ok & (y != s)).reshape(-1)))
        fails.append(("endpoint", dict(sig, end="f0"),
                      "x=%r got=%r surrogate=%r" % (
                          x.reshape(-1)[i], y.reshape(-1)[i], s.reshape(-1)[i])))
      if f == 1 and form == "noste" and (ok & (y != xq)).any():
        i = int(np.argmax((ok & (y != xq)).reshape(-1)))
        fails.append(("endpoint", dict(sig, end="f1"),
                      "x=%r got=%r quantized=%r" % (
                          x.reshape(-1)[i], y.reshape(-1)[i],
                          xq.reshape(-1)[i])))
    # same result whichever way the factor got there
    if "ctor" in ys:
      for path in ("update", "variable"):
        if path not in ys:
          continue
        a, b = ys["ctor"].astype(np.float64), ys[path].astype(np.float64)
        if form == "noste" and path == "variable":
          d = np.abs(a - b) / R.ulp32(np.maximum(np.abs(s), np.abs(xq)))
          bad = ok & (d > R.TOL_ULP)
        else:
          bad = ok & (a != b)
        if bad.any():
          i = int(np.argmax(bad.reshape(-1)))
          fails.append(("same_result", dict(base, path=path),
                        "f=%r x=%r constructor=%r %s=%r" % (
                            f, x.reshape(-1)[i], a.reshape(-1)[i], path,
                            b.reshape(-1)[i])))
  labels.append(_err_bucket("A", worst))
  changed = bool((ok & (s != xq)).any())
  mid = any(0 < f < 1 for f in fs)
  if changed:
    labels.append("A:changed")
  return done(nontrivial=changed and mid)


def run_a(ctx):
  cfgs = G.lattice(ctx.tier)
  if ctx.idx == 0:
    ctx.info["A_lattice_size"] = len(cfgs)
  n_done = 0
  keep_for_hyp = 0.3 * max(ctx.time_left(), 0.0)   # of this part's slice
  for k, cfg in ctx.shard(list(enumerate(cfgs))):
    if ctx.time_left() <= keep_for_hyp:
      ctx.labels["inconclusive_time"] += 1
      break
    case = {"part": "A", "cfg": cfg, "xs": G.clean(G.PROBE),
            "shape": G.PROBE_SHAPE, "fs": G.F_GRID,
            "var_route": "ctor" if k % 2 == 0 else "rebuild"}
    for sc, sig, d in oracle_a(ctx, case):
      ctx.fail(sc, sig, case, d)
    n_done += 1
  ctx.info["A_lattice_done"] = n_done

  from hypothesis import strategies as st  # pylint: disable=g-import-not-at-top

  @st.composite
  def case_st(draw):
    cfg = draw(G.cfg_strategy(cfgs))
    t = draw(G.tensor_strategy())
    fs = draw(st.lists(G.f_strategy(), min_size=1, max_size=3))
    return {"part": "A", "cfg": cfg, "xs": t["xs"], "shape": t["shape"],
            "fs": fs, "var_route": draw(st.sampled_from(["ctor", "rebuild"])),
            "hyp": True}

  def orc(case):
    if _out_of_time(ctx, "A"):
      ctx.labels["inconclusive_time"] += 1
      return []
    _count(ctx, "A")
    return oracle_a(ctx, case)

  _chunked(ctx, "A", (800 if ctx.quick else 24000) // ctx.n + 1,
           20 if ctx.quick else 100,
           lambda n, nm: core.hyp_run(ctx, case_st(), orc, n, name="c07" + nm))


# ===========================================================================
# Part B: one quantizer, history of API calls


class QuantSim(object):
  """Executes a Part-B history on real quantizers next to model floats.

  State: one or two quantizers of the same configuration (init["second"]),
  and a pool of tf.Variables owned by the *caller* (init["pool"]) that carry
  values into update_qnoise_factor.  The model of a quantizer's factor is the
  value last set THROUGH ITS OWN update API (or constructor/set_quantizers);
  assignments the owner makes to a pool variable afterwards, and updates of
  the sibling quantizer, must not change it."""

  def __init__(self, init):
    import tensorflow as tf  # pylint: disable=g-import-not-at-top
    core.reset_globals()
    self.init = init
    cfg = self.cfg = init["cfg"]
    self.x = np.asarray(init["xs"], dtype=np.float32).reshape(init["shape"])
    self.base = {"cls": cfg["cls"]}
    self.s = G.call(G.build(cfg, qnoise_factor=0.0), self.x)
    if G.has_ste(cfg):
      self.xq = G.call(G.build(cfg, qnoise_factor=1.0, use_ste=False), self.x)
    else:
      self.xq = G.call(G.build(cfg, qnoise_factor=1.0), self.x)
    self.ok = _finite(self.s) & _finite(self.xq)
    starts = [{"f0": init["f0"], "use_variables": init["use_variables"]}]
    if init.get("second"):
      starts.append(init["second"])
    self.qs = [G.build(cfg, qnoise_factor=st["f0"],
                       use_variables=bool(st["use_variables"]))
               for st in starts]
    self.fs = [st["f0"] for st in starts]
    self.var_pending = [bool(st["use_variables"]) for st in starts]
    self.var_built = [False for _ in starts]
    self.pool_model = [float(np.float32(v)) for v in init.get("pool", [])]
    self.pool = [tf.Variable(v, dtype=tf.float32, trainable=False)
                 for v in self.pool_model]
    self.fed = [set() for _ in self.pool]   # quantizers fed from pool var k
    self.labels = set(["B", "B:" + cfg["cls"]])
    if len(self.qs) > 1:
      self.labels.add("B:two_quantizers")
    self.nontrivial = False
    self.worst = 0.0

  def _value(self, f, kind):
    import tensorflow as tf  # pylint: disable=g-import-not-at-top
    if kind == "py":
      return float(f)
    if kind == "np32":
      return np.float32(f)
    if kind == "np64":
      return np.float64(f)
    if kind == "tfvar":
      return tf.Variable(f, dtype=tf.float32, trainable=False)
    return tf.constant(f, dtype=tf.float32)

  def _is_var(self, qi):
    import tensorflow as tf  # pylint: disable=g-import-not-at-top
    return isinstance(self.qs[qi].qnoise_factor, tf.Variable)

  def step(self, op):
    fails = []
    name = op["op"]
    qi = op.get("q", 0)
    if qi >= len(self.qs):
      raise core.HarnessError("no quantizer %d in %r" % (qi, op))
    sig0 = dict(self.base, op=name)
    if name == "update":
      sig0["kind"] = op["kind"]
    touched = qi
    try:
      if name == "call":
        pass
      elif name == "pool_assign":
        # the owner re-uses its variable; no quantizer API is involved
        touched = None
        k = op["var"]
        self.pool[k].assign(op["f"])
        self.pool_model[k] = float(np.float32(op["f"]))
        if self.fed[k]:
          self.labels.add("B:pool_reassigned_after_feed")
      elif name == "update" and op["kind"] == "pool":
        k = op["var"]
        if not self._is_var(qi):           # observed for the label only
          self.labels.add("B:pool_update_float_backed")
        if self.fed[k] - {qi}:
          self.labels.add("B:pool_shared_by_siblings")
        self.qs[qi].update_qnoise_factor(self.pool[k])
        self.fs[qi] = self.pool_model[k]
        self.fed[k].add(qi)
        self.labels.add("B:kind_pool")
      elif name == "update":
        if any(qi in fed and (fed - {qi}) for fed in self.fed):
          self.labels.add("B:sibling_update_after_shared")
        self.qs[qi].update_qnoise_factor(self._value(op["f"], op["kind"]))
        self.fs[qi] = op["f"]
        self.labels.add("B:kind_" + op["kind"])
        if self.var_built[qi]:
          self.labels.add("B:update_after_var_build")
          self.nontrivial = True
      elif name == "build":
        self.qs[qi].build(use_variables=bool(op["use_variables"]))
        if op["use_variables"]:
          self.var_built[qi] = True
          self.labels.add("B:build_var")
        else:
          self.labels.add("B:build_float")
      elif name == "set_quantizers":
        from qkeras.callbacks import QNoiseScheduler  # pylint: disable=g-import-not-at-top
        cb = QNoiseScheduler(start=1, finish=2, use_ste=bool(op["use_ste"]))
        cb.quantizers = [self.qs[qi]]
        cb.set_quantizers()
        self.fs[qi] = 0.0     # "Set the qnoise_factor to 0.0 to pretrain"
        self.var_pending[qi] = True
        self.labels.add("B:set_quantizers")
        if G.has_ste(self.cfg) and \
            bool(self.qs[qi].use_ste) != bool(op["use_ste"]):
          fails.append(("use_ste_propagated", dict(self.base),
                        "scheduler use_ste=%r quantizer.use_ste=%r" % (
                            op["use_ste"], self.qs[qi].use_ste)))
      elif name == "roundtrip":
        old_q = self.qs[qi]
        self.qs[qi] = type(old_q).from_config(old_q.get_config())
        self.labels.add("B:roundtrip")
        # The rebuilt quantizer must carry the factor AND behave like the
        # original for every later factor: the references (surrogate and
        # quantized value of the ORIGINAL configuration) are kept, so an
        # option lost by get_config that changes the output shows up here.
        # use_variables is not part of the config: float-backed again.
        self.var_pending[qi] = False
        self.var_built[qi] = False
        # the rebuilt quantizer owns its factor: moving the discarded
        # original must not move it (skipped if the discarded object holds
        # one of the caller's variables, which only a defect can cause and
        # which the pool invariants below report on their own)
        try:
          if not any(old_q.qnoise_factor is v for v in self.pool):
            old_q.update_qnoise_factor(1.0 if self.fs[qi] < 0.5 else 0.0)
        except Exception:  # pylint: disable=broad-except
          pass
      else:
        raise core.HarnessError("unknown op %r" % (op,))
    except core.HarnessError:
      raise
    except Exception as e:  # pylint: disable=broad-except
      sig = dict(core.exc_signature(e), **sig0)
      if "use_variables" in str(e) and "setter" in str(e):
        sig["what"] = "use_variables_has_no_setter"
      fails.append(("op_raises", sig, repr(e)[:300]))
      return fails

    # invariants after every step, for every quantizer
    for j, q in enumerate(self.qs):
      f = self.fs[j]
      who = dict(self.base, after=name)
      if j != touched:
        who["bystander"] = True    # this quantizer's API was not used
      try:
        rb = float(q.qnoise_factor)
        y = G.call(q, self.x)
      except Exception as e:  # pylint: disable=broad-except
        fails.append(("op_raises", dict(core.exc_signature(e),
                                        op="call_after_" + name, **self.base),
                      repr(e)[:300]))
        continue
      if self.var_pending[j]:
        self.var_built[j] = True   # first call builds with use_variables=True
        self.var_pending[j] = False
      if not R.same_factor(rb, f):
        fails.append(("readback", dict(who),
                      "quantizer %d: factor last set through its API %r, "
                      "stored %r" % (j, f, rb)))
      err, ref = R.interp_err_ulp(y, self.s, self.xq, f)
      e = np.where(self.ok, err, 0.0)
      e = np.where(self.ok & np.isnan(y), np.inf, e)
      m = float(e.max()) if e.size else 0.0
      if m > R.TOL_ULP:
        i = int(np.argmax(e.reshape(-1)))
        fails.append(("history_output", dict(who, f=_fclass(f)),
                      "quantizer %d: model f=%r x=%r got=%r want=%r err=%.3g "
                      "ulp" % (j, f, self.x.reshape(-1)[i], y.reshape(-1)[i],
                               ref.reshape(-1)[i], m)))
      else:
        self.worst = max(self.worst, m)
      if f == 0 and (self.ok & (y != self.s)).any():
        fails.append(("history_output", dict(who, f="zero", end="f0"),
                      "f=0 does not return the surrogate exactly"))
    # the caller's variables are only ever written by the caller
    for k, v in enumerate(self.pool):
      got = float(v.numpy())
      if got != self.pool_model[k]:
        fails.append(("pool_variable_written", dict(self.base, after=name),
                      "caller's variable %d holds %r, its owner last assigned "
                      "%r" % (k, got, self.pool_model[k])))
        self.pool_model[k] = got
    return fails


def make_machine_b(ctx, cfgs):
  from hypothesis import strategies as st  # pylint: disable=g-import-not-at-top
  from hypothesis.stateful import RuleBasedStateMachine, initialize, rule  # pylint: disable=g-import-not-at-top

  qidx = st.sampled_from([0, 0, 1])

  class MachineB(RuleBasedStateMachine):

    def __init__(self):
      super().__init__()
      self.sim = None
      self.ops = []
      self.skip = _out_of_time(ctx, "B")

    def case(self):
      return {"part": "B", "init": self.sim.init, "ops": list(self.ops)}

    def do(self, op):
      if self.skip or self.sim is None:
        return
      self.ops.append(op)
      for sc, sig, d in self.sim.step(op):
        ctx.report(sc, sig, self.case(), d)

    @initialize(cfg=G.cfg_strategy(cfgs), t=G.tensor_strategy(12),
                f0=G.f_strategy(), uv=st.booleans(), f0b=G.f_strategy(),
                uvb=st.sampled_from([False, False, True]))
    def start(self, cfg, t, f0, uv, f0b, uvb):
      if self.skip:
        return
      self.sim = QuantSim({"cfg": cfg, "xs": t["xs"], "shape": t["shape"],
                           "f0": f0, "use_variables": uv,
                           "second": {"f0": f0b, "use_variables": uvb},
                           "pool": [0.5, 0.5]})

    @rule()
    def call(self):
      self.do({"op": "call"})

    @rule(q=qidx, f=G.f_strategy(),
          kind=st.sampled_from(["py", "np32", "np64", "tf", "tfvar"]))
    def update(self, q, f, kind):
      self.do({"op": "update", "q": q, "f": f, "kind": kind})

    @rule(q=st.sampled_from([0, 1]), k=st.sampled_from([0, 0, 1]))
    def update_from_pool(self, q, k):
      self.do({"op": "update", "q": q, "kind": "pool", "var": k})

    @rule(k=st.sampled_from([0, 0, 1]), f=G.f_strategy())
    def owner_reassigns(self, k, f):
      self.do({"op": "pool_assign", "var": k, "f": f})

    @rule(q=qidx, uv=st.booleans())
    def build(self, q, uv):
      self.do({"op": "build", "q": q, "use_variables": uv})

    @rule(q=qidx, ste=st.booleans())
    def set_quantizers(self, q, ste):
      self.do({"op": "set_quantizers", "q": q, "use_ste": ste})

    @rule(q=qidx)
    def roundtrip(self, q):
      self.do({"op": "roundtrip", "q": q})

    def teardown(self):
      if self.skip:
        ctx.labels["inconclusive_time"] += 1
        return
      if self.sim is None:
        return
      _count(ctx, "B")
      ctx.tick(self.case(), labels=sorted(self.sim.labels) +
               [_err_bucket("B", self.sim.worst)],
               nontrivial=self.sim.nontrivial)

  return MachineB


def replay_b(ctx, case):
  sim = QuantSim(case["init"])
  for k, op in enumerate(case["ops"]):
    for sc, sig, d in sim.step(op):
      ctx.fail(sc, sig, case, "op#%d %s" % (k, d))
  ctx.tick(case, labels=sorted(sim.labels) + ["replay"],
           nontrivial=sim.nontrivial)


# ===========================================================================
# Part C: scheduler on a stub model


class StubModel(object):
  """What QNoiseScheduler needs from a model: .layers"""

  def __init__(self, layers):
    self.layers = layers


def _snapshot(obj):
  out = []
  for k, v in sorted(vars(obj).items()):
    if k.startswith("_tf_") or k.startswith("_self_") or k.startswith("_obj_"):
      continue
    out.append((k, repr(v)))
  return out


class SchedSim(object):
  """Executes a Part-C history on a real QNoiseScheduler next to the
  reference schedule."""

  HOOKS = ("train_begin", "epoch_begin", "batch_begin", "batch_end",
           "epoch_end")

  def __init__(self, init):
    from qkeras.callbacks import QNoiseScheduler  # pylint: disable=g-import-not-at-top
    core.reset_globals()
    self.init = init
    self.p = sp = init["sched"]
    self.layers = [G.build_layer(s) for s in init["layers"]]
    self.labels = set(["C", "C:" + sp["freq_type"]])
    # independent enumeration of the model's quantizers from the description
    self.knob, self.nonknob = [], []
    for li, (spec, layer) in enumerate(zip(init["layers"], self.layers)):
      kind = spec["kind"]
      if kind == "QBatchNormalization":
        qspecs = {"gamma_quantizer_internal": {"cls": "quantized_relu_po2"},
                  "beta_quantizer_internal": {"cls": "quantized_po2"},
                  "mean_quantizer_internal": {"cls": "quantized_po2"},
                  "variance_quantizer_internal": {"cls": "quantized_relu_po2"}}
      else:
        qspecs = {
            "kernel_quantizer_internal": spec.get("kq"),
            "bias_quantizer_internal": spec.get("bq"),
            "average_quantizer_internal": spec.get("q") if
                                          kind == "QAveragePooling2D" else None,
            "quantizer": spec.get("q") if kind == "QActivation" else None,
            "activation": spec.get("act")}
      for slot in G.LAYER_SLOTS[kind]:
        qs = qspecs.get(slot)
        if qs is None:
          continue
        obj = getattr(layer, slot)
        ent = {"layer": kind, "li": li, "slot": slot, "cls": qs["cls"],
               "obj": obj, "f_ctor": qs.get("kw", {}).get("qnoise_factor", 1.0)}
        if qs["cls"] in G.KNOB_CLASSES:
          self.knob.append(ent)
          if slot == "quantizer":
            self.labels.add("C:has_singular")
          if slot == "activation":
            self.labels.add("C:has_act_quantizer")
          if qs["cls"] == "quantized_linear":
            self.labels.add("C:has_quantized_linear")
        else:
          ent["snap"] = _snapshot(obj)
          self.nonknob.append(ent)
          self.labels.add("C:has_nonknob")
    if not self.knob:
      self.labels.add("C:no_knob_model")
    self.cb = QNoiseScheduler(
        start=sp["start"], finish=sp["finish"], freq_type=sp["freq_type"],
        update_freq=sp["update_freq"],
        initial_step_or_epoch=sp["initial_step_or_epoch"],
        exponent=sp["exponent"], use_ste=sp["use_ste"])
    self.cb.set_model(StubModel(self.layers))
    if sp["start"] == sp["finish"]:
      self.labels.add("C:start_eq_finish")
    self.begun = False
    self.dead = False
    self.pos = sp["initial_step_or_epoch"]
    self.last = None
    self.epoch = -1
    self.batch = 0
    self.x = np.asarray(G.clean(G.PROBE[:12]), dtype=np.float32).reshape(2, 6)
    self.refs = {}
    self.nontrivial = False
    self.base = {"freq_type": sp["freq_type"]}

  # -- helpers
  def _factors(self):
    return [float(e["obj"].qnoise_factor) for e in self.knob]

  def _cbf(self):
    v = self.cb.qnoise_factor
    return None if v is None else float(v)

  def _check_applied(self, expected, fails, when):
    for e in self.knob:
      got = float(e["obj"].qnoise_factor)
      if not R.same_factor(got, expected):
        fails.append(("applied_to_all",
                      {"layer": e["layer"], "slot": e["slot"], "when": when},
                      "%s.%s (%s) carries %r, scheduler applied %r" % (
                          e["layer"], e["slot"], e["cls"], got, expected)))

  def _check_nonknob(self, fails, when):
    for e in self.nonknob:
      if _snapshot(e["obj"]) != e["snap"]:
        fails.append(("nonknob_touched", {"cls": e["cls"], "when": when},
                      "%s.%s changed: %r -> %r" % (
                          e["layer"], e["slot"], e["snap"],
                          _snapshot(e["obj"]))))
        e["snap"] = _snapshot(e["obj"])

  def _forward(self, fails):
    """Calls every knob quantizer (as a forward pass would) and compares with
    the interpolation identity for the factor the reference says it carries."""
    for k, e in enumerate(self.knob):
      q = e["obj"]
      want = self.last if (self.begun and self.last is not None) else (
          None if self.begun else e["f_ctor"])
      if want is None or not R.same_factor(float(q.qnoise_factor), want):
        continue        # unobservable, or already reported by applied_to_all
      if k not in self.refs:
        q0 = copy.copy(q)
        q0.qnoise_factor = 0.0
        q1 = copy.copy(q)
        q1.qnoise_factor = 1.0
        if e["cls"] != "quantized_linear":
          q1.use_ste = False
        s, xq = G.call(q0, self.x), G.call(q1, self.x)
        self.refs[k] = (s, xq, _finite(s) & _finite(xq))
      s, xq, ok = self.refs[k]
      y = G.call(q, self.x)
      err, ref = R.interp_err_ulp(y, s, xq, want)
      er = np.where(ok, err, 0.0)
      er = np.where(ok & np.isnan(y), np.inf, er)
      self.labels.add("C:forward_checked")
      if float(er.max()) > R.TOL_ULP:
        i = int(np.argmax(er.reshape(-1)))
        fails.append(("forward_output",
                      {"cls": e["cls"], "begun": self.begun},
                      "%s.%s factor=%r x=%r got=%r want=%r" % (
                          e["layer"], e["slot"], want, self.x.reshape(-1)[i],
                          y.reshape(-1)[i], ref.reshape(-1)[i])))

  # -- one step
  def step(self, op):
    fails = []
    if self.dead:
      return fails
    name = op["op"]
    sp = self.p
    if name == "call":
      try:
        self._forward(fails)
      except Exception as e:  # pylint: disable=broad-except
        fails.append(("forward_raises", dict(core.exc_signature(e)),
                      repr(e)[:300]))
        self.dead = True
      if not self.begun:
        self.labels.add("C:prebuilt")
      self._check_nonknob(fails, "call")
      return fails
    if name not in self.HOOKS:
      raise core.HarnessError("unknown op %r" % (op,))
    if name != "train_begin" and not self.begun:
      raise core.HarnessError("hook before on_train_begin in %r" % (op,))
    # A later on_train_begin (training continued with another fit() and the
    # same scheduler) is no update step: the applied factor stays what the
    # schedule last set ("never decreases", "1 from finish on").
    first_begin = name == "train_begin" and not self.begun
    if name == "train_begin" and self.begun:
      self.labels.add("C:train_begin_again")
      if self.last is not None and self.last > 0:
        self.labels.add("C:train_begin_again_after_positive")

    before = self._factors()
    cbf_before = self._cbf()
    try:
      if name == "train_begin":
        self.cb.on_train_begin()
      elif name == "epoch_begin":
        self.epoch += 1
        self.batch = 0
        self.cb.on_epoch_begin(self.epoch)
      elif name == "batch_begin":
        self.cb.on_train_batch_begin(self.batch)
      elif name == "batch_end":
        self.cb.on_train_batch_end(self.batch)
        self.batch += 1
      elif name == "epoch_end":
        self.cb.on_epoch_end(max(self.epoch, 0))
    except Exception as e:  # pylint: disable=broad-except
      sig = dict(core.exc_signature(e), hook=name)
      if "use_variables" in str(e) and "setter" in str(e):
        sig["what"] = "use_variables_has_no_setter"
      fails.append(("hook_raises", sig, repr(e)[:300]))
      self.dead = True       # Keras would abort fit() here
      return fails
    cbf = self._cbf()

    if first_begin:
      self.begun = True
      if cbf is not None:
        if not 0.0 <= cbf <= 1.0:
          fails.append(("schedule", dict(self.base, clause="range"),
                        "factor %r at on_train_begin" % cbf))
        self._check_applied(cbf, fails, "train_begin")
        self.last = cbf
      for e in self.knob:
        if e["cls"] != "quantized_linear" and \
            bool(e["obj"].use_ste) != bool(sp["use_ste"]):
          fails.append(("use_ste_propagated", {"layer": e["layer"],
                                               "slot": e["slot"]},
                        "scheduler use_ste=%r, %s.%s has %r" % (
                            sp["use_ste"], e["layer"], e["slot"],
                            e["obj"].use_ste)))
      self._check_nonknob(fails, name)
      return fails

    relevant = (name == "epoch_begin" and sp["freq_type"] == "epoch") or (
        name == "batch_begin" and sp["freq_type"] == "step")
    is_update = False
    if relevant:
      p = self.pos
      self.pos += 1
      is_update = (p % sp["update_freq"] == 0)
    if is_update:
      ref = R.sched_ref(sp["start"], sp["finish"], sp["exponent"], p)
      sig = dict(self.base, start_eq_finish=sp["start"] == sp["finish"])
      if p < sp["start"]:
        self.labels.add("C:before_start")
      elif p >= sp["finish"]:
        self.labels.add("C:from_finish")
      else:
        self.labels.add("C:between")
        if self.knob:
          self.nontrivial = True
      if cbf is not None:
        d = "position %d (start %d finish %d exponent %r update_freq %d): " \
            "applied %r" % (p, sp["start"], sp["finish"], sp["exponent"],
                            sp["update_freq"], cbf)
        if p < sp["start"]:
          if cbf != 0.0:
            fails.append(("schedule", dict(sig, clause="before_start"), d))
        elif p >= sp["finish"]:
          if cbf != 1.0:
            fails.append(("schedule", dict(sig, clause="from_finish"), d))
        else:
          if not 0.0 <= cbf <= 1.0:
            fails.append(("schedule", dict(sig, clause="range"), d))
          elif abs(cbf - ref) > 1e-9:
            fails.append(("schedule", dict(sig, clause="formula"),
                          d + " documented %r" % ref))
        if self.last is not None and cbf < self.last - 1e-12:
          fails.append(("schedule", dict(sig, clause="monotone"),
                        d + " after %r" % self.last))
        self.last = cbf
      expected = cbf if cbf is not None else ref
      if cbf is None:
        self.last = ref
      self._check_applied(expected, fails, "update")
    else:
      self.labels.add("C:nonupdate_step" if relevant else "C:other_hook")
      after = self._factors()
      if after != before or cbf != cbf_before:
        fails.append(("nonupdate_changed",
                      dict(self.base, hook=name, relevant=relevant),
                      "factors %r -> %r, callback %r -> %r" % (
                          before, after, cbf_before, cbf)))
    self._check_nonknob(fails, name)
    return fails


def make_machine_c(ctx):
  from hypothesis import strategies as st  # pylint: disable=g-import-not-at-top
  from hypothesis.stateful import RuleBasedStateMachine, initialize, rule  # pylint: disable=g-import-not-at-top

  class MachineC(RuleBasedStateMachine):

    def __init__(self):
      super().__init__()
      self.sim = None
      self.ops = []
      self.skip = _out_of_time(ctx, "C")

    def case(self):
      return {"part": "C", "init": self.sim.init, "ops": list(self.ops)}

    def do(self, op):
      if self.skip or self.sim is None or self.sim.dead:
        return
      self.ops.append(op)
      for sc, sig, d in self.sim.step(op):
        ctx.report(sc, sig, self.case(), d)

    @initialize(layers=G.model_strategy(), sched=G.sched_strategy(),
                pre=st.booleans())
    def start(self, layers, sched, pre):
      if self.skip:
        return
      self.sim = SchedSim({"layers": layers, "sched": sched})
      if pre:
        self.do({"op": "call"})
      self.do({"op": "train_begin"})

    @rule(n=st.integers(1, 4))
    def epochs(self, n):
      for _ in range(n):
        self.do({"op": "epoch_begin"})

    @rule(n=st.integers(1, 6))
    def batches(self, n):
      for _ in range(n):
        self.do({"op": "batch_begin"})
        self.do({"op": "batch_end"})

    @rule()
    def epoch_begin(self):
      self.do({"op": "epoch_begin"})

    @rule()
    def batch_begin(self):
      self.do({"op": "batch_begin"})

    @rule()
    def batch_end(self):
      self.do({"op": "batch_end"})

    @rule()
    def epoch_end(self):
      self.do({"op": "epoch_end"})

    @rule()
    def train_begin_again(self):
      # training is continued: fit() called again with the same scheduler
      self.do({"op": "train_begin"})

    @rule()
    def forward(self):
      self.do({"op": "call"})

    def teardown(self):
      if self.skip:
        ctx.labels["inconclusive_time"] += 1
        return
      if self.sim is None:
        return
      _count(ctx, "C")
      ctx.tick(self.case(), labels=sorted(self.sim.labels),
               nontrivial=self.sim.nontrivial)

  return MachineC


def replay_c(ctx, case):
  sim = SchedSim(case["init"])
  for k, op in enumerate(case["ops"]):
    for sc, sig, d in sim.step(op):
      ctx.fail(sc, sig, case, "op#%d %s" % (k, d))
  ctx.tick(case, labels=sorted(sim.labels) + ["replay"],
           nontrivial=sim.nontrivial)


# ===========================================================================


# ===========================================================================
# Part D: the real Keras protocol (model.fit, compiled train step)

_PROBE = {}


def _probe_cls():
  """Stock-Keras layer that stores its input in a variable: the observable is
  written by the compiled training step itself."""
  if "cls" not in _PROBE:
    import tensorflow as tf  # pylint: disable=g-import-not-at-top

    class Probe(tf.keras.layers.Layer):

      def __init__(self, shape):
        super().__init__()
        self.last = tf.Variable(tf.zeros(shape, tf.float32), trainable=False)
        self.count = tf.Variable(0, trainable=False, dtype=tf.int64)

      def call(self, inputs):
        self.last.assign(inputs)
        self.count.assign_add(1)
        return inputs

    _PROBE["cls"] = Probe
  return _PROBE["cls"]


def prescribed_factors(sp, epochs, steps_per_epoch):
  """Factor the documented schedule prescribes for every training step of a
  training that starts with a fresh callback (0.0 until the first update step:
  'Set the qnoise_factor to 0.0 to pretrain without quantization').  `epochs`
  is the total over all fit() calls: continuing with the same scheduler
  continues the count and is no update step by itself."""
  out = []
  last = 0.0
  pos = sp["initial_step_or_epoch"]
  for _ in range(epochs):
    if sp["freq_type"] == "epoch":
      if pos % sp["update_freq"] == 0:
        last = R.sched_ref(sp["start"], sp["finish"], sp["exponent"], pos)
      pos += 1
    for _ in range(steps_per_epoch):
      if sp["freq_type"] == "step":
        if pos % sp["update_freq"] == 0:
          last = R.sched_ref(sp["start"], sp["finish"], sp["exponent"], pos)
        pos += 1
      out.append(last)
  return out


def oracle_d(ctx, case):
  """One model.fit in graph mode with learning rate 0: the output of training
  step k, as computed inside the compiled step, must be the model output for
  the factor the schedule prescribes at step k."""
  import tensorflow as tf  # pylint: disable=g-import-not-at-top
  from qkeras.callbacks import QNoiseScheduler  # pylint: disable=g-import-not-at-top
  core.reset_globals()
  sp = case["sched"]
  fails = []
  labels = ["D", "D:lazy" if case["lazy"] else "D:prebuilt",
            "D:" + sp["freq_type"]]
  base = {"lazy": bool(case["lazy"]), "freq_type": sp["freq_type"]}
  x = G.fit_data(case["seed"])
  fits = case.get("fits") or [case["epochs"]]     # epochs of each fit()
  n_steps = sum(fits) * case["steps_per_epoch"]
  want_f = prescribed_factors(sp, sum(fits), case["steps_per_epoch"])
  if len(fits) > 1:
    labels.append("D:two_fits")
  if len(set(want_f[1:])) > 1 or (want_f and want_f[-1] != want_f[0]):
    labels.append("D:factor_changes_after_first_step")

  def done(nontrivial=False):
    ctx.tick(case, labels=labels, nontrivial=nontrivial)
    return fails

  seen = []
  try:
    model, probe, width = G.build_fit_model(case, _probe_cls())
    model.compile(optimizer=tf.keras.optimizers.SGD(0.0),
                  loss=lambda yt, yp: tf.reduce_mean(tf.square(yp)))
    if not model.run_eagerly and not tf.config.functions_run_eagerly():
      labels.append("D:graph_mode")
    cb = QNoiseScheduler(
        start=sp["start"], finish=sp["finish"], freq_type=sp["freq_type"],
        update_freq=sp["update_freq"],
        initial_step_or_epoch=sp["initial_step_or_epoch"],
        exponent=sp["exponent"], use_ste=sp["use_ste"])
    rec = tf.keras.callbacks.LambdaCallback(
        on_train_batch_end=lambda b, logs: seen.append(
            (int(probe.count.numpy()), np.array(probe.last.numpy()))))
    xs = np.tile(x, (case["steps_per_epoch"], 1))
    ys = np.zeros((xs.shape[0], width), np.float32)
    for ne in fits:
      model.fit(xs, ys, batch_size=G.FIT_BATCH, epochs=ne, shuffle=False,
                verbose=0, callbacks=[cb, rec])
  except Exception as e:  # pylint: disable=broad-except
    fails.append(("fit_raises", dict(core.exc_signature(e), **base),
                  repr(e)[:300]))
    return done()
  if len(seen) != n_steps:
    raise core.HarnessError("recorded %d steps, expected %d" % (len(seen),
                                                               n_steps))

  # the model's knob quantizers, enumerated from the description
  knob = []
  for spec, layer in zip(case["layers"], [l for l in model.layers
                                          if not isinstance(l, _probe_cls())]):
    for slot, key in (("kernel_quantizer_internal", "kq"),
                      ("bias_quantizer_internal", "bq"), ("quantizer", "q")):
      qs = spec.get(key)
      if qs is not None and qs["cls"] in G.KNOB_CLASSES and \
          hasattr(layer, slot):
        knob.append((spec["kind"], slot, qs["cls"], getattr(layer, slot)))
  for kind, slot, cls, q in knob:
    if not R.same_factor(float(q.qnoise_factor), want_f[-1]):
      fails.append(("fit_final_factor", dict(base, layer=kind, slot=slot),
                    "%s.%s (%s) carries %r after fit, schedule prescribes %r" %
                    (kind, slot, cls, float(q.qnoise_factor), want_f[-1])))

  # reference: the same model evaluated eagerly with every knob quantizer set
  # to the prescribed factor through the update API
  refs = {}
  try:
    for f in sorted(set(want_f + [0.0, 1.0])):
      for _, _, _, q in knob:
        q.update_qnoise_factor(f)
      refs[f] = np.array(model(tf.constant(x), training=True).numpy())
  except Exception as e:  # pylint: disable=broad-except
    fails.append(("fit_raises", dict(core.exc_signature(e), **base),
                  repr(e)[:300]))
    return done()
  sensitive = bool(np.max(np.abs(refs[0.0] - refs[1.0])) > 1e-2)
  if sensitive:
    labels.append("D:sensitive")
  worst = 0.0
  for k, ((cnt, y), f) in enumerate(zip(seen, want_f)):
    ref = refs[f]
    tol = 1e-5 + 1e-5 * np.abs(ref)
    d = np.abs(y.astype(np.float64) - ref.astype(np.float64))
    if (d > tol).any() or not np.isfinite(y).all():
      i = int(np.argmax(d.reshape(-1)))
      # which factor did the step use, if any of the references?
      used = [g for g in sorted(refs) if np.allclose(y, refs[g], atol=1e-5)]
      sig = dict(base, f=_fclass(f))
      if len(fits) > 1:
        sig["fit"] = "first" if k < fits[0] * case["steps_per_epoch"] \
            else "later"
      fails.append(("fit_step_output", sig,
                    "training step %d: compiled step computed %r, prescribed "
                    "factor %r gives %r (max diff %.3g; step output matches "
                    "factor(s) %r)" % (k, y.reshape(-1)[i], f,
                                       ref.reshape(-1)[i], float(d.max()),
                                       used)))
    else:
      worst = max(worst, float(d.max()))
  labels.append("D:maxdiff<=1e-6" if worst <= 1e-6 else "D:maxdiff<=1e-5")
  return done(nontrivial=sensitive and
              "D:factor_changes_after_first_step" in labels)


def run_d(ctx):
  import tensorflow as tf  # pylint: disable=g-import-not-at-top
  cases = G.fit_cases(ctx.tier)
  if ctx.idx == 0:
    ctx.info["D_cases"] = len(cases)
  for case in ctx.shard(cases):
    for sc, sig, d in oracle_d(ctx, case):
      ctx.fail(sc, sig, case, d)
    tf.keras.backend.clear_session()


class _Slice(object):
  """Gives a part of the check its own share of the worker's time budget (so
  a slow machine cannot starve the later parts); restores the budget after."""

  def __init__(self, ctx, upto_frac, name):
    self.ctx, self.frac, self.name = ctx, upto_frac, name

  def __enter__(self):
    import time  # pylint: disable=g-import-not-at-top
    self.total = self.ctx.budget_s
    self.t = time.time()
    # never start a part with less than 12% of the budget left for it
    self.ctx.budget_s = max(self.total * self.frac,
                            (self.t - self.ctx.t0) + 0.12 * self.total)

  def __exit__(self, *a):
    import time  # pylint: disable=g-import-not-at-top
    self.ctx.budget_s = self.total
    self.ctx.info[self.name + "_cpu_s"] = round(time.time() - self.t, 1)


def _chunked(ctx, part, total, chunk, fn):
  """Runs fn(n_examples, name_suffix) in small Hypothesis runs until `total`
  generated cases of this part are done or its time slice is used up (a
  Hypothesis run cannot be stopped from inside, small runs can simply not be
  started).  MIN_CASES is honoured by extending the slice when necessary."""
  k = 0
  while ctx.info.get("_n_" + part, 0) < total and not _out_of_time(ctx, part):
    if ctx.time_left() <= 2.0:
      ctx.budget_s += 10.0
    before = ctx.info.get("_n_" + part, 0)
    nm = "%s%d" % (part.lower(), k)
    fn(max(1, min(chunk, total - before)), nm)
    r = ctx.info.pop("hyp_rounds_c07" + nm, 0)
    ctx.info["hyp_rounds_" + part] = ctx.info.get("hyp_rounds_" + part, 0) + r
    k += 1
    if ctx.info.get("_n_" + part, 0) == before:
      break                      # nothing ran (time): do not spin
  if ctx.info.get("_n_" + part, 0) < total:
    ctx.labels["inconclusive_time"] += 1


def run(ctx):
  import tensorflow as tf  # pylint: disable=g-import-not-at-top
  quick = ctx.quick
  # Part D first: its deterministic shard (a few fits) is always completed,
  # the time-sliced parts after it share what is left of the budget.
  with _Slice(ctx, 0.12, "D"):
    run_d(ctx)
  with _Slice(ctx, 0.40, "A"):
    run_a(ctx)
  tf.keras.backend.clear_session()
  cfgs = G.lattice(ctx.tier)
  with _Slice(ctx, 0.66, "B"):
    mb = make_machine_b(ctx, cfgs)
    _chunked(ctx, "B", (1200 if quick else 16000) // ctx.n + 1,
             20 if quick else 100,
             lambda n, nm: core.hyp_machine(
                 ctx, mb, n, step_count=12 if quick else 25, name="c07" + nm))
  tf.keras.backend.clear_session()
  with _Slice(ctx, 1.0, "C"):
    mc = make_machine_c(ctx)
    _chunked(ctx, "C", (1600 if quick else 24000) // ctx.n + 1,
             20 if quick else 100,
             lambda n, nm: core.hyp_machine(
                 ctx, mc, n, step_count=14 if quick else 30, name="c07" + nm))


def replay(ctx, case):
  part = case.get("part", "A")
  if part == "A":
    for sc, sig, d in oracle_a(ctx, case):
      ctx.fail(sc, sig, case, d)
  elif part == "B":
    replay_b(ctx, case)
  elif part == "C":
    replay_c(ctx, case)
  elif part == "D":
    for sc, sig, d in oracle_d(ctx, case):
      ctx.fail(sc, sig, case, d)
  else:
    raise core.HarnessError("unknown part %r" % part)
