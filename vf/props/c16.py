"""C16 - qtools multiplier output types represent every product of their
operand types; implemented_as() is the kind the operand kinds call for."""
import itertools

from vf import core
from vf.gen import qtypes as G
from vf.ref import qtypes as R

RULE = ("a case is an ORDERED PAIR of type descriptions (weight type, input "
        "type) + an enumeration mode; the oracle evaluates value pairs inside "
        "the case but one case = one evaluation.  Part A (mode 'all', the only "
        "part for which coverage.exhaustive=true is claimed): every ordered "
        "pair of the finite small lattice {fixed bits 1..5 x int 0..bits x "
        "signed/unsigned, po2 bits 1..5 (signed 2..5) x max_val_po2 in "
        "{-1,2^-2,2^-1,1,2,4,16} and the non-power-of-two settings "
        "{1.5,3,5,6,12} where they lie inside the exponent range, ternary, binary+-1, binary01, bernoulli, "
        "stochastic_binary, stochastic_ternary, quantized_relu(1,1), "
        "quantized_tanh/ulaw/leaky relu/unsigned quantized_bits of 2 and 4 "
        "bits} with ALL value pairs multiplied exactly (both tiers).  Part B (mode 'ext'): wide types "
        "(fixed 6..16 bits, po2 6..8 bits) paired with each other and with a "
        "sample of small types, extreme values only (min, max, +-1 code, "
        "smallest magnitudes, zero).  Part C: Hypothesis-drawn pairs with bits "
        "<= 16 (all value pairs when <= 4096 of them, else extremes) and a "
        "float operand in ~1/7 of the draws.  Part A2/D (mode 'seq'): a case "
        "is a SEQUENCE of type pairs served in order by ONE MultiplierFactory "
        "instance (families of types that agree in kind/bits/sign/name and "
        "differ only in max_val_po2 or int_bits, or only in class name/route, "
        "in ascending, descending and interleaved order, against 7 partner "
        "types, in either operand role; plus Hypothesis-drawn sequences); "
        "every result goes through the same product-membership oracle; a "
        "pair failing only on the shared factory is 'stale_factory_state'.  Part H/H2 (mode 'hist'): one or both "
        "operand OBJECTS carry a history before they reach a fresh factory: created as another type of the same "
        "kind family (po2 / fixed / binary+-1|01), observed 0..3 times through the public API (get_min_max_exp, "
        "accumulator_impl.po2_to_qbits, convert_to_qkeras_quantizer, being served by make_multiplier in either "
        "role, QuantizerFactory clone, deepcopy, update_inference_values, field reads), RE-SIZED to the target "
        "type by one of three routes (direct re-assignment of the public fields, convert_qkeras_quantizer of the "
        "target's qkeras quantizer, PowerOfTwo.update_quantizer(+-2^e, reset)), observed again; deterministic: "
        "every (start, target) pair of a small family per kind x route with prefixes/suffixes/partners/roles "
        "rotating, plus Hypothesis-drawn histories; the value sets are those of the types the objects report "
        "after the history, a pair that passes with freshly built objects of the same types but fails with the "
        "historied ones is 'stale_operand_state'.  Construction route (direct "
        "quantizer_impl object vs QuantizerFactory().make_quantizer(qkeras "
        "quantizer)) alternates deterministically.  Non-trivial = the two "
        "operands differ in kind or in signedness; distinct by hash of the "
        "(w, x, mode) description.")
ASSUMPTIONS = [
    "all arithmetic is exact (Fractions / integers scaled by powers of two); no tolerance anywhere",
    "fixed type value set = k*2^-(bits-sign-int_bits), k a two's-complement (signed) or unsigned code of `bits` bits",
    "po2 OPERAND value set = +-2^e, e in [-2^(n-1), 2^(n-1)-1], n = bits-sign, cut at max_val_po2 (DESIGN C16 decision i)",
    "a max_val_po2 that is not a power of two is read as the qkeras quantizers apply it: |x| is clipped to max_value and log2 is then rounded to nearest, so the operand holds magnitudes up to 2^round(log2(max_value)) (1.5->2, 3->4, 5->4, 6->8, 12->16), which can exceed max_value; for power-of-two caps this is decision (i) unchanged",
    "po2 OUTPUT membership uses the exponent interval its reported fields encode: cap rounded up to a power of two and never below 2^0 (decision i); 0 counts as a member of every output type (decision ii)",
    "ternary / binary kinds are judged by their value sets {-1,0,1}, {-1,1}, {0,1}, not by bits/int_bits (decision iii)",
    "the product of the two most-negative values of two signed operands is exempt (the statement's two's-complement corner; DESIGN (b) applies it to every kind); how many exempt products would not fit is reported in coverage.info.exempt_minmin_overflow",
    "implemented_as table: class docstrings of multiplier_impl (Mux: binary(1,-1)/ternary * other; AndGate: binary(0,1) * any; Shifter: po2*qbits; Adder: po2*po2; XorGate) which agree with the make_multiplier docstring table in 19 of 25 cells; in the 6 cells where that (mis-aligned) docstring table differs both readings are accepted",
    "quantized_relu(1,1) is routed by the factory as binary(0,1): both the fixed and the binary01 table rows are accepted for it",
    "leaky quantized_relu is given the full signed fixed lattice of its qtools type (a superset of what the qkeras quantizer emits)",
    "history cases: the operand type is the one the object's public fields (kind/mode, bits, int_bits, is_signed, max_val_po2) describe at the moment it is handed to make_multiplier; for the assign / convert routes that is the target description (convert: additionally checked by the operand_conversion clause), for update_quantizer it is read back from the fields; an update_quantizer call that leaves max_val_po2 <= 0 (other than -1) or below the smallest exponent describes no type and is counted (hist_update_malformed) but not judged",
    "a re-sized object must still report the kind of its target type (mode / is_po2), else kind_after_resize",
]
BUDGET_S = {"quick": 70, "thorough": 800}
_IMPLS = ["FixedPointMultiplier", "Shifter", "Mux", "AndGate", "XorGate", "Adder",
          "FloatingPointMultiplier"]
_HIST_LABELS = ["hist", "hyp_hist", "hist_resize:assign", "hist_resize:convert", "hist_resize:update",
                "hist_kind:po2", "hist_kind:fixed", "hist_pre:exp", "hist_pre:acc", "hist_pre:clone",
                "hist_pre:mul", "hist_widen", "hist_narrow", "hist_role:w", "hist_role:x", "hist_role:both"]
REQUIRED_LABELS = {
    "quick": ["all", "ext", "hyp", "via:impl*impl", "via:factory*factory",
              "float", "po2_cap_not_pow2", "seq", "seq_po2_caps", "hyp_seq"] + _HIST_LABELS + ["impl:" + c for c in _IMPLS],
    "thorough": ["all", "ext", "hyp", "via:impl*impl", "via:factory*factory",
                 "float", "po2_cap_not_pow2", "seq", "seq_po2_caps", "hyp_seq"] + _HIST_LABELS + ["impl:" + c for c in _IMPLS],
}

_T = {
    ("fixed", "fixed"): {"mul"},
    ("fixed", "po2"): {"shifter"},
    ("fixed", "ternary"): {"mux"},
    ("fixed", "binary"): {"mux"},
    ("fixed", "binary01"): {"and"},
    ("po2", "po2"): {"add"},
    ("po2", "ternary"): {"mux"},
    ("po2", "binary"): {"mux", "xor"},
    ("po2", "binary01"): {"and", "mux"},
    ("ternary", "ternary"): {"mux"},
    ("ternary", "binary"): {"mux"},
    ("ternary", "binary01"): {"and", "xor"},
    ("binary", "binary"): {"xor"},
    ("binary", "binary01"): {"and", "xor"},
    ("binary01", "binary01"): {"and"},
}


def expected_impl(w, x):
  def kinds(d):
    ks = [d["k"]]
    if d["k"] == "fixed" and d["bits"] == 1 and d["int"] == 1 and not d["signed"]:
      ks.append("binary01")
    return ks
  if w["k"] == "float" or x["k"] == "float":
    return {"mul"}
  out = set()
  for a in kinds(w):
    for b in kinds(x):
      out |= _T.get((a, b)) or _T[(b, a)]
  return out


def conversion_defect(d, q, lat):
  """None, or (clause, detail) when the qtools type built by the factory cannot
  hold the values of the quantizer it was built from."""
  try:
    lq = R.obj_lat(q, "operand")
  except ValueError as e:
    return ("fields", "%s: %r" % (e, R.fields(q)))
  if (lat.kind == "float") != (lq.kind == "float"):
    return ("float", "description %s, converted %s" % (lat.describe(), lq.describe()))
  if lat.kind == "float":
    return None if q.bits == d["bits"] else ("float_bits", "%r" % (R.fields(q),))
  for v in lat.extremes():
    why = lq.why_not(v)
    if why:
      return (why, "value %s of %s is not in the converted type %s %r" % (
          v, lat.describe(), lq.describe(), R.fields(q)))
  return None


def _scaled(vals):
  den = 1
  for v in vals:
    den = max(den, v.denominator)
  return [int(v * den) for v in vals], den.bit_length() - 1


def oracle(case, stats=None, factory=None, objs=None):
  """-> list of (sub_check, signature, detail).  `factory`: a shared
  MultiplierFactory instance (sequence cases); default a fresh one.  `objs`:
  (qw, qx) operand objects already built (history cases); default: built
  fresh from the descriptions."""
  w, x, mode = case["w"], case["x"], case.get("mode", "ext")
  st = stats if stats is not None else {}
  lw, lx = R.desc_lat(w), R.desc_lat(x)
  base = {"w": R.desc_label(w), "x": R.desc_label(x),
          "signs": "us"[R.desc_sign(w)] + "us"[R.desc_sign(x)]}
  from qkeras.qtools.quantized_operators import multiplier_factory  # pylint: disable=g-import-not-at-top
  try:
    qw, qx = objs if objs is not None else (R.build(w), R.build(x))
  except Exception as e:  # pylint: disable=broad-except
    if core.qkeras_frame(e.__traceback__) is None:
      raise
    return [("build_raises", dict(core.exc_signature(e), **base), repr(e)[:300])]
  try:
    m = (factory or multiplier_factory.MultiplierFactory()).make_multiplier(qw, qx)
    impl = type(m).__name__
    how = m.implemented_as()
    out = m.output
  except Exception as e:  # pylint: disable=broad-except
    if core.qkeras_frame(e.__traceback__) is None:
      raise
    return [("make_multiplier_raises", dict(core.exc_signature(e), **base), repr(e)[:300])]
  st["impl"] = impl
  fails = []
  sig0 = dict(base, impl=impl)

  # the type the factory reports for an operand must hold the operand's values
  for role, d, q, lat in (("w", w, qw, lw), ("x", x, qx, lx)):
    if d.get("via") != "factory":
      continue
    bad_conv = conversion_defect(d, q, lat)
    if bad_conv:
      fails.append(("operand_conversion",
                    {"q": d.get("q") or R.desc_label(d), "cls": type(q).__name__,
                     "clause": bad_conv[0]}, bad_conv[1]))
  if fails:
    st["nprod"] = 0
    return fails
  f_out = R.fields(out)

  # (c) implementation kind
  want = expected_impl(w, x)
  if how not in want:
    fails.append(("impl_kind", dict(sig0, got=how, want="|".join(sorted(want))),
                  "implemented_as()=%r, operand kinds call for %s" % (how, sorted(want))))

  # floating point anywhere -> floating output with the widest float operand
  if w["k"] == "float" or x["k"] == "float":
    fb = max(d["bits"] for d in (w, x) if d["k"] == "float")
    if not out.is_floating_point or R.obj_kind(out) != "float":
      fails.append(("float_output", dict(sig0, clause="not_float"), "output %r" % (f_out,)))
    elif out.bits != fb:
      fails.append(("float_output", dict(sig0, clause="bits"),
                    "output bits %r, widest float operand %d" % (out.bits, fb)))
    st["nprod"] = 0
    return fails
  if out.is_floating_point:
    fails.append(("float_output", dict(sig0, clause="float_from_quantized"), "output %r" % (f_out,)))
    return fails

  try:
    lo = R.obj_lat(out, "output")
  except ValueError as e:
    fails.append(("bad_output_type", dict(sig0, clause="fields"), "%s: %r" % (e, f_out)))
    return fails

  mnw, mnx = lw.most_negative(), lx.most_negative()
  exempt = (mnw, mnx) if (mnw is not None and mnx is not None) else None
  seen = {}

  def bad(a, b):
    p = a * b
    why = lo.why_not(p)
    if why is None:
      raise core.HarnessError("integer and Fraction membership disagree: %s*%s in %s" % (a, b, lo.describe()))
    if exempt is not None and (a, b) == exempt:
      st["exempt_overflow"] = 1
      return
    if why not in seen:
      seen[why] = "w=%s x=%s product=%s not in %s (clause %s); reported %r; operands %s * %s" % (
          a, b, p, lo.describe(), why, f_out, lw.describe(), lx.describe())

  nprod = 0
  if mode == "all":
    vw, vx = lw.values(), lx.values()
    iw, sw = _scaled(vw)
    ix, sx = _scaled(vx)
    sc = sw + sx
    cs = lo.contains_scaled
    for i, a in enumerate(iw):
      for j, b in enumerate(ix):
        if not cs(a * b, sc):
          bad(vw[i], vx[j])
    nprod = len(iw) * len(ix)
  # extremes through the Fraction path (also the cross-check of the fast path)
  for a in lw.extremes():
    for b in lx.extremes():
      p = a * b
      why = lo.why_not(p)
      nprod += 1
      if why is not None:
        if exempt is not None and (a, b) == exempt:
          st["exempt_overflow"] = 1
          continue
        if mode == "all" and why not in seen:
          raise core.HarnessError("fast path missed %s*%s not in %s" % (a, b, lo.describe()))
        if why not in seen:
          seen[why] = "w=%s x=%s product=%s not in %s (clause %s); reported %r; operands %s * %s" % (
              a, b, p, lo.describe(), why, f_out, lw.describe(), lx.describe())
  st["nprod"] = nprod
  for why, detail in sorted(seen.items()):
    fails.append(("product_not_representable", dict(sig0, clause=why, out=lo.kind), detail))
  return fails


def labels_of(case, st):
  w, x = case["w"], case["x"]
  labs = [case.get("mode", "ext"), "impl:" + st.get("impl", "none"),
          R.desc_label(w) + "*" + R.desc_label(x),
          "via:%s*%s" % (w.get("via", "impl"), x.get("via", "impl"))]
  if w["k"] == "float" or x["k"] == "float":
    labs.append("float")
  if w.get("mv") is not None or x.get("mv") is not None:
    labs.append("po2_cap_not_pow2")
  if st.get("exempt_overflow"):
    labs.append("exempt_minmin_overflow")
  return labs


def nontrivial(case):
  w, x = case["w"], case["x"]
  return w["k"] != x["k"] or R.desc_sign(w) != R.desc_sign(x)


def run_case(ctx, case, extra=()):
  st = {}
  fails = oracle(case, st)
  ctx.tick(case, labels=list(extra) + labels_of(case, st), nontrivial=nontrivial(case),
           sample_label=R.desc_label(case["w"]) + "*" + R.desc_label(case["x"]))
  ctx.info["value_pairs"] = ctx.info.get("value_pairs", 0) + st.get("nprod", 0)
  if st.get("exempt_overflow"):
    k = "exempt_minmin_overflow:" + st.get("impl", "?")
    ctx.info[k] = ctx.info.get(k, 0) + 1
  return fails


def _auto_mode(w, x):
  lw, lx = R.desc_lat(w), R.desc_lat(x)
  return "all" if (lw.finite and lx.finite and lw.size * lx.size <= 4096) else "ext"


def seq_oracle(case, st=None):
  """One MultiplierFactory instance serves the pairs of case["seq"] in order;
  every result is judged by the pair oracle.  A pair that fails on the shared
  factory but not on a fresh one is reported as stale_factory_state."""
  from qkeras.qtools.quantized_operators import multiplier_factory  # pylint: disable=g-import-not-at-top
  st = st if st is not None else {}
  shared = multiplier_factory.MultiplierFactory()
  fails = []
  impls = set()
  nprod = 0
  for pos, (w, x) in enumerate(case["seq"]):
    pc = {"w": w, "x": x, "mode": _auto_mode(w, x)}
    s1 = {}
    f_shared = oracle(pc, s1, factory=shared)
    impls.add(s1.get("impl", "none"))
    nprod += s1.get("nprod", 0)
    if not f_shared:
      continue
    fresh_keys = set(core.fkey(sc, sig) for sc, sig, _ in oracle(pc, {}))
    for sc, sig, detail in f_shared:
      if core.fkey(sc, sig) in fresh_keys:
        fails.append((sc, sig, detail))          # fails on its own as well
      else:
        sig2 = dict(sig, was=sc)
        fails.append(("stale_factory_state", sig2,
                      "pair #%d of the sequence passes on a fresh MultiplierFactory but fails on the shared one: %s" % (pos, detail)))
  st["impls"] = impls
  st["nprod"] = nprod
  return fails


def run_seq(ctx, case, extra=()):
  st = {}
  fails = seq_oracle(case, st)
  labs = list(extra) + ["seq", "seq_len%d" % min(len(case["seq"]), 9)] + ["impl:" + i for i in sorted(st["impls"])]
  if any(d.get("k") == "po2" for pr in case["seq"] for d in pr):
    labs.append("seq_po2_caps")
  ctx.tick(case, labels=labs, nontrivial=len(case["seq"]) >= 2, sample_label="seq")
  ctx.info["value_pairs"] = ctx.info.get("value_pairs", 0) + st.get("nprod", 0)
  return fails


def _widens(start, target):
  """does the re-sized type hold a value the start type could not hold?"""
  ls, lt = R.desc_lat(start), R.desc_lat(target)
  return any(ls.why_not(v) is not None for v in lt.extremes())


def hist_oracle(case, st=None):
  """Operand objects with a history (created as another type of the same
  kind, observed through the public API, re-sized, observed again) go into a
  fresh MultiplierFactory; the result is judged by the pair oracle against the
  value sets of the types the objects NOW report.  A pair that fails with the
  historied objects but passes with freshly built objects of the same types is
  reported as stale_operand_state."""
  st = st if st is not None else {}
  labs = st.setdefault("labels", [])
  objs, descs = [], []
  base = {"w": R.desc_label(case["w"]), "x": R.desc_label(case["x"])}
  for role in ("w", "x"):
    d, h = case[role], case.get("h" + role)
    try:
      if h is None:
        q, final = R.build(d), d
      else:
        q, final = R.apply_history(d, h)
    except Exception as e:  # pylint: disable=broad-except
      if core.qkeras_frame(e.__traceback__) is None:
        raise
      st["impl"] = "none"
      return [("history_raises", dict(core.exc_signature(e), role=role, resize=(h or {}).get("resize"), **base),
               repr(e)[:300])]
    if h is not None:
      labs.append("hist_resize:" + h["resize"])
      labs.append("hist_kind:" + d["k"])
      labs.extend("hist_pre:" + o for o in h.get("pre", ()))
      labs.extend("hist_post:" + o for o in h.get("post", ()))
      if final is None:
        # update_quantizer left max_val_po2 <= 0 (not the documented -1): the
        # fields describe no type whose value set could be stated
        labs.append("hist_update_malformed")
        st["impl"] = "none"
        st["skipped"] = True
        return []
      labs.append("hist_widen" if _widens(h["start"], final) else "hist_narrow")
      # the re-sized object must still report the kind of the target type
      # (mode = row/column of the multiplier table, is_po2)
      if R.obj_kind(q) != final["k"] and not (final["k"] == "fixed" and R.obj_kind(q) == "binary01"):
        st["impl"] = "none"
        return [("kind_after_resize",
                 {"cls": type(q).__name__, "resize": h["resize"], "target": R.desc_label(final),
                  "mode": int(q.mode), "is_po2": int(bool(getattr(q, "is_po2", 0)))},
                 "object created as %s, re-sized by %s to %s, reports %r" % (
                     R.desc_lat(h["start"]).describe(), h["resize"], R.desc_lat(final).describe(), R.fields(q)))]
      try:
        q = R.apply_ops(q, h.get("post", ()))
      except Exception as e:  # pylint: disable=broad-except
        if core.qkeras_frame(e.__traceback__) is None:
          raise
        st["impl"] = "none"
        return [("history_raises", dict(core.exc_signature(e), role=role, resize=h["resize"], **base),
                 repr(e)[:300])]
    objs.append(q)
    descs.append(final)
  labs.append("hist_role:" + ("both" if case.get("hw") and case.get("hx") else "w" if case.get("hw") else "x"))
  pc = {"w": descs[0], "x": descs[1]}
  pc["mode"] = _auto_mode(pc["w"], pc["x"])
  st["pc"] = pc
  fails = oracle(pc, st, objs=tuple(objs))
  if not fails:
    return []
  fresh_keys = set(core.fkey(sc, sig) for sc, sig, _ in oracle(pc, {}))
  out = []
  for sc, sig, detail in fails:
    if core.fkey(sc, sig) in fresh_keys:
      out.append((sc, sig, detail))            # the type pair fails on its own
    else:
      sig2 = dict(sig, was=sc, resize="+".join(sorted(set(
          case[h]["resize"] for h in ("hw", "hx") if case.get(h)))))
      out.append(("stale_operand_state", sig2,
                  "passes with freshly built operand objects of the same reported types, fails with the "
                  "re-sized objects (%s): %s" % (
                      "; ".join("%s: start %s pre=%s %s post=%s" % (
                          r, R.desc_lat(case["h" + r]["start"]).describe(), case["h" + r].get("pre"),
                          case["h" + r]["resize"], case["h" + r].get("post"))
                                for r in ("w", "x") if case.get("h" + r)), detail)))
  return out


def run_hist(ctx, case, extra=()):
  st = {}
  fails = hist_oracle(case, st)
  pc = st.get("pc")
  labs = list(extra) + ["hist"] + st["labels"]
  if pc is not None:
    labs += [l for l in labels_of(pc, st) if l not in ("all", "ext")]
  ctx.tick(case, labels=labs, nontrivial=not st.get("skipped"), sample_label="hist")
  ctx.info["value_pairs"] = ctx.info.get("value_pairs", 0) + st.get("nprod", 0)
  return fails


def run(ctx):
  from hypothesis import strategies as st_  # pylint: disable=g-import-not-at-top
  maxb = 5
  small = [d for d in G.small_lattice() if R.desc_bits(d) <= maxb]
  pairs = list(itertools.product(small, small))
  if ctx.idx == 0:
    ctx.info["small_lattice_types"] = len(small)
    ctx.info["small_lattice_pairs"] = len(pairs)
  # Part A: exhaustive, never cut by the time budget
  for w, x in ctx.shard(G.pair_index(pairs)):
    case = {"w": w, "x": x, "mode": "all"}
    for f in run_case(ctx, case):
      ctx.fail(f[0], f[1], case, f[2])
  ctx.info["exhaustive"] = True
  ctx.info["exhaustive_scope"] = "part A only: all value pairs of all ordered type pairs with <= %d bits" % maxb

  # Part A2: shared-factory sequences (deterministic)
  seqs = G.pair_sequences(ctx.tier)
  if ctx.idx == 0:
    ctx.info["sequences"] = len(seqs)
  for sq in ctx.shard(seqs):
    case = {"seq": sq, "mode": "seq"}
    for f in run_seq(ctx, case):
      ctx.fail(f[0], f[1], case, f[2])

  # Part H: operand objects with a history (deterministic)
  hcs = G.history_cases(ctx.tier)
  if ctx.idx == 0:
    ctx.info["history_cases"] = len(hcs)
  for case in ctx.shard(hcs):
    for f in run_hist(ctx, case):
      ctx.fail(f[0], f[1], case, f[2])

  # Part B: wide types, extremes
  wide = G.wide_lattice(ctx.tier)
  ssm = G.small_sample(ctx.tier) + G.float_types()
  pb = list(itertools.product(wide, wide)) + list(itertools.product(wide, ssm)) + \
      list(itertools.product(ssm, wide)) + list(itertools.product(G.float_types(), ssm)) + \
      list(itertools.product(ssm, G.float_types()))
  if ctx.idx == 0:
    ctx.info["wide_pairs"] = len(pb)
  for n, (w, x) in enumerate(ctx.shard(G.pair_index(pb))):
    if n % 64 == 0 and ctx.time_left() <= 0:
      ctx.labels["inconclusive_time"] += 1
      break
    case = {"w": w, "x": x, "mode": "ext"}
    for f in run_case(ctx, case):
      ctx.fail(f[0], f[1], case, f[2])

  # Part C: random pairs
  ts = G.type_strategy(st_, 16, nonpo2_caps=True)

  @st_.composite
  def case_st(draw):
    w, x = draw(ts), draw(ts)
    return {"w": w, "x": x, "mode": "auto"}

  def orc(case):
    c = dict(case)
    if c["mode"] == "auto":
      lw, lx = R.desc_lat(c["w"]), R.desc_lat(c["x"])
      small_ = lw.finite and lx.finite and lw.size * lx.size <= 4096
      c["mode"] = "all" if small_ else "ext"
    return run_case(ctx, c, extra=("hyp",))

  n = (3000 if ctx.quick else 120000) // ctx.n + 1
  core.hyp_run(ctx, case_st(), orc, n, name="c16")

  # Part D: random shared-factory sequences
  vs = G.variant_strategy(st_)

  @st_.composite
  def seq_st(draw):
    ws, xs = draw(vs), draw(vs)
    k = draw(st_.integers(2, 6))
    picks = draw(st_.lists(st_.tuples(st_.integers(0, 3), st_.integers(0, 3)), min_size=k, max_size=k))
    return {"seq": [[ws[i % len(ws)], xs[j % len(xs)]] for i, j in picks], "mode": "seq"}

  n = (400 if ctx.quick else 20000) // ctx.n + 1
  core.hyp_run(ctx, seq_st(), lambda c: run_seq(ctx, c, extra=("hyp_seq",)), n, name="c16seq")

  # Part H2: random histories
  n = (1500 if ctx.quick else 40000) // ctx.n + 1
  core.hyp_run(ctx, G.history_strategy(st_), lambda c: run_hist(ctx, c, extra=("hyp_hist",)), n, name="c16hist")


def replay(ctx, case):
  if case.get("mode") == "hist":
    for f in run_hist(ctx, case, extra=("replay",)):
      ctx.fail(f[0], f[1], case, f[2])
    return
  if "seq" in case:
    for f in run_seq(ctx, case, extra=("replay",)):
      ctx.fail(f[0], f[1], case, f[2])
    return
  c = dict(case)
  if c.get("mode", "auto") == "auto":
    lw, lx = R.desc_lat(c["w"]), R.desc_lat(c["x"])
    c["mode"] = "all" if (lw.finite and lx.finite and lw.size * lx.size <= 4096) else "ext"
  for f in run_case(ctx, c, extra=("replay",)):
    ctx.fail(f[0], f[1], case, f[2])
