"""C02 - fixed-point quantization is the nearest-code projection of the
underlying activation (round, clip), monotone, and idempotent for linear /
plain-ReLU formats with a data-independent scale."""
import numpy as np

from vf import core
from vf.gen import fixed as G
from vf.props.c01 import variant

RULE = ("cases = (configuration from the fixed-point option lattice) x (tensor); "
        "deterministic part: every configuration with its full sorted breakpoint "
        "walk; random part: Hypothesis tensors of rank 0..4 (sorted copies are "
        "used for monotonicity); plus Hypothesis (n x channels) tensors with per-channel magnitudes for the "
        "data-dependent scales. Non-trivial = tensor has an element within 2 ulp "
        "of a rounding breakpoint (k+1/2)*step; distinct by hash of (config, tensor).")
TAU_ULPS = 4.0
ASSUMPTIONS = [
    "checks run under TF_USE_LEGACY_KERAS=1 (tf_keras), float32, eager",
    "linear/ReLU families: surrogate exact in float64 -> exact comparison, ties accept both neighbours",
    "tanh/sigmoid families: surrogate evaluated in float64; absolute tolerance "
    "u/2 + 4*2^-24*max(1,|s(x)|) (the library evaluates the surrogate in float32 before rounding; "
    "measured worst excess over u/2 on the unchanged tree is recorded in coverage.info.max_excess_ulps)",
    "quantized_relu(use_sigmoid=1) is checked for monotonicity only (its quantized value is not a rounding "
    "of the ReLU surrogate); the 1-bit sign modes are checked against sign(x)*code (either code at +-0 and for "
    "float32 subnormal inputs, which TF kernels flush to zero)",
    "the legacy quantized_bits with constant alpha returns alpha*Q(x): the literal nearest-code/idempotence "
    "clauses are reported per signature (known finding), and y/alpha is additionally checked to be the "
    "nearest code of x on the unscaled grid so mutants stay detectable there",
    "idempotence compares numerically (0.0 == -0.0)",
    "data-dependent scales (alpha='auto'/'auto_po2' of quantized_bits and quantized_linear, per-channel, channel maxima "
    "from 2^-31 to 2^10): only the nearest-code clause, on the grid of the scale the quantizer exposes after the call, "
    "tolerance step/2 + 8*2^-24*max(|x|, step) (the library divides by a non-power-of-two scale in float32)",
]
BUDGET_S = {"quick": 80, "thorough": 900}
_REQ = ["walk", "hyp", "near_breakpoint", "idempotence_checked", "monotone_checked", "nearest_checked",
        "sign_checked", "auto_scale", "auto_tiny_channel", "auto_near_breakpoint", "auto_saturating"]
REQUIRED_LABELS = {"quick": _REQ, "thorough": _REQ}


def _idempotent_family(cfg, m):
  kw = cfg["kw"]
  if cfg["cls"] in ("quantized_bits", "quantized_linear"):
    return True
  if cfg["cls"] == "quantized_relu":
    return not kw.get("use_sigmoid") and not kw.get("negative_slope")
  return False


def oracle(cfg, xs, shape=None, stats=None):
  fails = []
  m = G.model(cfg)
  u, ui = m["u"], m["u_in"]
  base = {"cls": cfg["cls"], "variant": variant(cfg)}
  if cfg["kw"].get("use_stochastic_rounding"):
    base["sr_infer"] = True     # stochastic-rounding flag set, inference phase
  if cfg.get("from") is not None:
    base["redeclared"] = True   # attributes re-assigned on a live object
  if cfg["kw"].get("use_ste") is False:
    base["nonste"] = True       # use_ste=False blend
  xs = np.asarray(xs, dtype=np.float32)
  try:
    q = G.build(cfg)
    xin = xs.reshape(shape) if shape is not None else xs
    y = G.call(q, xin).reshape(-1)
    y2 = None
    if _idempotent_family(cfg, m):
      y2 = G.call(q, y.reshape(xin.shape)).reshape(-1)
  except Exception as e:  # pylint: disable=broad-except
    sig = dict(core.exc_signature(e), **base)
    return [("call_raises", sig, repr(e)[:300], {"cfg": cfg, "xs": [float(v) for v in xs.reshape(-1)[:4]], "shape": None})]
  finally:
    core.reset_globals()
  xs = xs.reshape(-1)
  x64, y64 = xs.astype(np.float64), y.astype(np.float64)
  if not np.isfinite(y64).all():
    i = int(np.argmax(~np.isfinite(y64)))
    return [("nonfinite", dict(base), "x=%r y=%r" % (xs[i], y[i]), {"cfg": cfg, "xs": [float(xs[i])], "shape": [1]})]

  def one(i):
    return {"cfg": cfg, "xs": [float(xs[i])], "shape": [1]}

  def pick(mask):
    idx = np.nonzero(mask)[0]
    return int(idx[np.argmin(np.abs(x64[idx]))])

  # ---- nearest code ------------------------------------------------------
  do_nearest = not m["sign"] and m["surr"] != "relu_sigmoid"
  if do_nearest:
    lo_v = (m["neg_sat"] if m["neg_sat"] is not None else m["kmin"]) * u
    hi_v = m["kmax"] * u
    if m["surr"] in ("id", "relu"):
      t = G.surrogate64(m, x64)
      tau = 0.0
    else:
      t = G.surrogate64(m, x64)
      tau = TAU_ULPS * 2.0 ** -24 * np.maximum(1.0, np.abs(t))
    err = np.abs(y64 - np.clip(t, lo_v, hi_v))
    excess = err - u / 2
    if stats is not None and m["surr"] in ("tanh", "sigmoid"):
      stats["max_excess_ulps"] = float(np.max(excess / (2.0 ** -24 * np.maximum(1.0, np.abs(t)))))
    bad = excess > tau
    scaled = cfg["cls"] == "quantized_bits" and ui != u
    if bad.any():
      i = pick(bad)
      sig = dict(base, clause="nearest")
      fails.append(("nearest", sig, "x=%r y=%r target=%r |err|=%r step/2=%r" % (xs[i], y[i], float(np.clip(t, lo_v, hi_v)[i]), float(err[i]), u / 2), one(i)))
    if scaled:
      # y/alpha must be the nearest code of x on the unscaled grid
      a = u / ui
      err2 = np.abs(y64 / a - np.clip(x64, m["kmin"] * ui, m["kmax"] * ui))
      bad2 = err2 > ui / 2
      if bad2.any():
        i = pick(bad2)
        fails.append(("nearest_unscaled", dict(base, clause="nearest_unscaled"),
                      "x=%r y=%r y/alpha=%r |err|=%r step/2=%r" % (xs[i], y[i], y64[i] / a, float(err2[i]), ui / 2), one(i)))
    if stats is not None:
      stats["nearest_checked"] = True
      kk = x64 / ui if m["surr"] in ("id", "relu") else t / u
      bp = np.abs(kk - np.floor(kk) - 0.5) < 1e-5
      stats["near_breakpoint"] = bool(bp.any())
  elif m["sign"]:
    # 1-bit sign modes: the two codes are -u and +u, so the nearest code of a
    # non-zero input is sign(x)*u (either code for +-0)
    # (float32 subnormal inputs count as zero: TF kernels run flush-to-zero)
    zero = np.abs(x64) < 2.0 ** -126
    want = np.sign(x64) * u
    bad = np.where(zero, np.abs(y64) != u, y64 != want)
    tn = (x64 < 0) & (np.abs(x64) <= 2.0 ** -21 * ui)
    for bmask, region in ((bad & tn & ~zero, "tiny_negative"), (bad & zero, "zero"), (bad & ~tn & ~zero, "regular")):
      if bmask.any():
        i = pick(bmask)
        fails.append(("nearest_sign", dict(base, clause="nearest_sign", region=region),
                      "x=%r y=%r codes=+-%r" % (xs[i], y[i], u), one(i)))
    if stats is not None:
      stats["sign_checked"] = True
      kk = x64 / ui
      stats["near_breakpoint"] = bool((np.abs(kk - np.floor(kk) - 0.5) < 1e-5).any())
  elif stats is not None:
    kk = x64 / ui
    stats["near_breakpoint"] = bool((np.abs(kk - np.floor(kk) - 0.5) < 1e-5).any())

  # ---- monotone ----------------------------------------------------------
  order = np.argsort(x64, kind="stable")
  xs_s, ys_s = x64[order], y64[order]
  d = np.diff(ys_s)
  same_x = np.diff(xs_s) == 0
  badm = (d < 0) | (same_x & (d != 0))
  if badm.any():
    j = int(np.argmin(np.where(badm, np.abs(xs_s[1:]), np.inf)))
    # region: an inversion by exactly one step between two inputs whose
    # (float64) surrogate lies within the float32 evaluation tolerance of the
    # same rounding breakpoint is 'breakpoint_ulp' (the float32 tanh/sigmoid
    # kernels are not monotone at the ulp level); anything else is 'gross'.
    region = "gross"
    if m["surr"] in ("tanh", "sigmoid"):
      tt = G.surrogate64(m, np.array([xs_s[j], xs_s[j + 1]])) / u
      tol = TAU_ULPS * 2.0 ** -24 * max(1.0, float(np.max(np.abs(tt * u)))) / u
      fr = tt - np.floor(tt) - 0.5
      if (np.abs(fr) <= tol).all() and np.floor(tt[0]) == np.floor(tt[1]) and abs(abs(ys_s[j] - ys_s[j + 1]) - u) < 1e-12:
        region = "breakpoint_ulp"
    fails.append(("monotone", dict(base, clause="monotone", region=region),
                  "x1=%r -> %r ; x2=%r -> %r" % (xs_s[j], ys_s[j], xs_s[j + 1], ys_s[j + 1]),
                  {"cfg": cfg, "xs": [float(xs_s[j]), float(xs_s[j + 1])], "shape": [2]}))
  if stats is not None and len(xs) > 1:
    stats["monotone_checked"] = True

  # ---- idempotence -------------------------------------------------------
  if y2 is not None:
    bad = y2.astype(np.float64) != y64
    if m["sign"]:
      # 1-bit sign modes: inputs below the float32 resolution of the shifted
      # argument are bucketed apart, so a failure anywhere else is not hidden
      tn = (x64 < 0) & (np.abs(x64) <= 2.0 ** -21 * ui)
      parts = [(bad & tn, {"region": "tiny_negative"}), (bad & ~tn, {"region": "regular"})]
    else:
      parts = [(bad, {})]
    for bmask, extra in parts:
      if bmask.any():
        i = pick(bmask)
        fails.append(("idempotent", dict(base, clause="idempotent", **extra),
                      "x=%r q(x)=%r q(q(x))=%r" % (xs[i], y[i], y2[i]), one(i)))
    if stats is not None:
      stats["idempotence_checked"] = True
  return fails


# ---------------------------------------------------------------------------
# data-dependent scales: the nearest-code clause on the grid of the exposed scale
# (the idempotence clause is stated for data-independent scales only)

AUTO_TOL_ULPS = 8.0


def auto_oracle(case, stats=None):
  """case = {"auto": True, "cfg": {"cls","kw"}, "shape": [n, c], "xs": [...]}.
  Output must be, per channel, within half a step (of the grid defined by the scale
  the quantizer exposes after the call) of the input clipped to the end codes."""
  from vf.gen import scaled as S  # pylint: disable=g-import-not-at-top
  cfg = case["cfg"]
  kw = cfg["kw"]
  x = np.asarray(case["xs"], dtype=np.float32).reshape(case["shape"])
  base = {"cls": cfg["cls"], "alpha": kw["alpha"], "clause": "nearest_auto"}
  try:
    q = S.build(cfg)
    y = S.call(q, x)
    sc = S.scale_of(q)
  except Exception as e:  # pylint: disable=broad-except
    return [("call_raises", dict(core.exc_signature(e), **base), repr(e)[:300])]
  finally:
    core.reset_globals()
  b, i = kw["bits"], kw.get("integer", 0)
  sym = int(kw.get("symmetric", 1))
  if cfg["cls"] == "quantized_bits":
    # documented: y = scale * z with z an integer in [-levels/2, levels/2] in units of
    # 2^integer / 2^(bits-1) of the exposed scale
    g = sc * 2.0 ** i / 2.0 ** (b - 1)
    levels = (2 ** (b - 1) - 1) * 2 if sym else 2 ** b - 1
    lo, hi = -levels / 2.0, levels / 2.0
  else:
    # documented: scale = quantization_scale / data_type_scale with
    # data_type_scale = 2^(integer - bits + keep_negative); codes of the declared width
    g = sc * 2.0 ** (i - b + 1)
    lo, hi = -(2 ** (b - 1)) + sym, 2 ** (b - 1) - 1
  x64, y64 = x.astype(np.float64), y.astype(np.float64)
  fails = []
  try:
    g = np.broadcast_to(g, x64.shape)
  except ValueError:
    return [("scale_shape", dict(base), "scale shape %r vs input %r" % (np.shape(sc), x64.shape))]
  if not (np.isfinite(y64).all() and np.isfinite(g).all() and (g > 0).all()):
    return [("nonfinite_auto", dict(base), "non-finite output or non-positive scale")]
  target = np.clip(x64, lo * g, hi * g)
  err = np.abs(y64 - target)
  tol = AUTO_TOL_ULPS * 2.0 ** -24 * np.maximum(np.abs(x64), g)
  bad = err > g / 2 + tol
  chmax = np.max(np.abs(x64), axis=0, keepdims=True) / 2.0 ** i
  tiny = np.broadcast_to(chmax < 1e-5, x64.shape)
  for bmask, regime in ((bad & tiny, "tiny_channel"), (bad & ~tiny, "regular")):
    if bmask.any():
      j = np.unravel_index(int(np.argmax(np.where(bmask, err / g, -1))), x64.shape)
      fails.append(("nearest_auto", dict(base, regime=regime),
                    "x=%r y=%r step=%r |err|/step=%.4f (channel max %r)" % (x[j], y[j], g[j], err[j] / g[j], float(np.max(np.abs(x64[:, j[1]]))))))
  if stats is not None:
    kk = x64 / g
    stats["near_breakpoint"] = bool((np.abs(kk - np.floor(kk) - 0.5) < 1e-3).any())
    stats["tiny_channel"] = bool(tiny.any())
    stats["saturating"] = bool(((x64 < lo * g) | (x64 > hi * g)).any())
  return fails


def auto_strategy():
  from hypothesis import strategies as st  # pylint: disable=g-import-not-at-top

  @st.composite
  def s(draw):
    cls = draw(st.sampled_from(["quantized_bits", "quantized_linear"]))
    b = draw(st.integers(2, 8))
    i = draw(st.integers(0, min(3, b - 1)))
    alpha = draw(st.sampled_from(["auto", "auto_po2"]))
    kw = {"bits": b, "integer": i, "symmetric": 1, "keep_negative": True, "alpha": alpha}
    if cls == "quantized_linear":
      kw["symmetric"] = draw(st.sampled_from([0, 1]))
    n = draw(st.integers(1, 8))
    c = draw(st.integers(1, 4))
    cols = []
    for _ in range(c):
      # channel magnitude 2^e: the epsilon neighbourhood (2^-23), tiny, and ordinary
      e = draw(st.one_of(st.integers(-30, 10), st.integers(-26, -18), st.integers(-4, 4)))
      mant = draw(st.lists(st.one_of(st.floats(-1.0, 1.0, width=32), st.sampled_from([0.0, 1.0, -1.0, 0.5, 0.75])),
                           min_size=n, max_size=n))
      top = draw(st.floats(0.5, 1.0, width=32)) * draw(st.sampled_from([-1.0, 1.0]))
      mant[draw(st.integers(0, n - 1))] = top      # channel maximum in [2^(e-1), 2^e] by construction
      cols.append([float(np.float32(v * 2.0 ** e)) for v in mant])
    xs = [cols[cc][r] for r in range(n) for cc in range(c)]
    return {"auto": True, "cfg": {"cls": cls, "kw": kw}, "shape": [n, c], "xs": xs}
  return s()


def _emit(ctx, fails):
  for sc, sig, detail, case in fails:
    ctx.fail(sc, sig, case, detail)


def run(ctx):
  cfgs = G.lattice(ctx.tier)
  ctx.info["lattice_size"] = len(cfgs) if ctx.idx == 0 else 0
  mx = 0.0
  for cfg in ctx.shard(cfgs):
    mm = G.model(cfg)
    xs = G.walk(cfg, mm, full=(mm["kmax"] - mm["kmin"]) <= 70000)
    st = {}
    fails = oracle(cfg, xs, stats=st)
    mx = max(mx, st.pop("max_excess_ulps", 0.0))
    labs = ["walk", cfg["cls"], cfg["cls"] + ":" + variant(cfg)] + [k for k, v in st.items() if v]
    ctx.tick({"cfg": cfg, "walk": True, "n_points": int(len(xs))}, labels=labs,
             nontrivial=st.get("near_breakpoint", False))
    _emit(ctx, fails)

  from hypothesis import strategies as st_  # pylint: disable=g-import-not-at-top

  @st_.composite
  def case_st(draw):
    cfg = draw(st_.sampled_from(cfgs))
    t = draw(G.tensor_strategy(G.model(cfg)))
    return {"cfg": cfg, "xs": t["xs"], "shape": t["shape"]}

  def orc(case):
    st = {}
    fails = oracle(case["cfg"], case["xs"], shape=case["shape"], stats=st)
    st.pop("max_excess_ulps", None)
    labs = ["hyp", "rank%d" % len(case["shape"])] + [k for k, v in st.items() if v]
    ctx.tick(case, labels=labs, nontrivial=st.get("near_breakpoint", False))
    return [(sc, sig, d) for sc, sig, d, _ in fails]

  n = (3000 if ctx.quick else 40000) // ctx.n + 1
  core.hyp_run(ctx, case_st(), orc, n, name="c02")

  def orc_auto(case):
    st = {}
    fails = auto_oracle(case, stats=st)
    labs = ["auto_scale", "auto:" + case["cfg"]["cls"] + ":" + case["cfg"]["kw"]["alpha"]] + \
        ["auto_" + k for k, v in st.items() if v]
    ctx.tick(case, labels=labs, nontrivial=st.get("near_breakpoint", False))
    return fails

  na = (1600 if ctx.quick else 30000) // ctx.n + 1
  core.hyp_run(ctx, auto_strategy(), orc_auto, na, name="c02_auto")
  ctx.info["max_excess_ulps_w%d" % ctx.idx] = round(mx, 3)


def replay(ctx, case):
  cfg = case["cfg"]
  if case.get("auto"):
    ctx.tick(case, labels=["replay"])
    for sc, sig, detail in auto_oracle(case):
      ctx.fail(sc, sig, case, detail)
    return
  if case.get("walk"):
    m = G.model(cfg)
    fails = oracle(cfg, G.walk(cfg, m, full=(m["kmax"] - m["kmin"]) <= 70000))
  else:
    fails = oracle(cfg, case["xs"], shape=case.get("shape"))
  ctx.tick(case, labels=["replay"])
  _emit(ctx, fails)
