"""C03 - power-of-two quantizers emit signed powers of two with in-range
exponents: exact reference exponent (frexp), sign rule, max_value bound,
monotone per sign, idempotent without a leaky slope, min()/max() enclose.
"""
import time

import numpy as np

from vf import core
from vf.gen import po2 as G
from vf.ref import po2 as R

RULE = ("cases = (configuration from the po2 option lattice: class x bits 2..8 x "
        "max_value {None, 2^k} x negative_slope {0, 2^-k} x log2_rounding x "
        "use_ste) x (tensor). Deterministic part: every configuration with its "
        "breakpoint walk (2^e and sqrt(2)*2^e for every admissible exponent and "
        "beyond both ends, each with +-1,2,3,8,64,2^10,2^14,2^18 ulp "
        "neighbours, 1.25*2^e, 1.75*2^e, max_value and epsilon +-ulps, +-0, "
        "subnormals, largest magnitudes inside the generation bound), plus the "
        "same exact powers / breakpoints in 7-element tensors (scalar kernel "
        "path). Random part: Hypothesis tensors of rank 0..4 built from "
        "(family, exponent, ulp offset, sign). Non-trivial = tensor has at "
        "least one element whose unclipped exponent is outside the admissible "
        "interval (or clamped by max_value) and one element inside the "
        "tolerance band of a rounding breakpoint or an exact power of two; "
        "distinct by hash of (config, tensor).")
ASSUMPTIONS = [
    "checks run under TF_USE_LEGACY_KERAS=1 (tf_keras), float32, eager, "
    "qnoise_factor=1, no stochastic rounding",
    "reference exponent computed exactly from frexp of the float32 input in "
    "float64; outputs compared exactly (no tolerance) outside the band below",
    "breakpoint band: when log2 of the (clamped) magnitude is within %g float32 "
    "ulps of the log2 value (ulp taken at max(1,|log2|)) of a rounding "
    "breakpoint (k+1/2 for 'rnd'; k for 'floor', input not an exact power of "
    "two) the neighbouring exponent is accepted too - the library evaluates "
    "log(x)/log(2) in float32; measured worst deviation on the unchanged tree "
    "1.76 ulp (all k in -22..126, +-300 ulp, vectorised and scalar kernels)"
    % R.BAND_ULPS,
    "an input that is an exact power of two gets no tolerance in either mode",
    "K.epsilon() == 1e-7 (asserted); |x| < float32(1e-7) maps to the smallest "
    "magnitude (documented epsilon floor)",
    "subnormal float32 inputs: either output sign accepted (TF kernels run in "
    "denormals-are-zero mode, tf.sign(-1e-40) == 0)",
    "straight-through cancellation regime |s| >= 2^24*|xq| (known finding "
    "C03-KF1) is excluded from generation by construction, where s is the "
    "surrogate of the documented forward expression: s = x for quantized_po2 "
    "and for quantized_relu_po2 on 0 <= x <= max_value (or without "
    "max_value), s = slope*x on the leaky side, s = max_value for "
    "quantized_relu_po2 above max_value - there nothing is excluded, positive "
    "inputs up to float32 max are generated and must give the exact result "
    "(label huge_clamped_exact) (large side: |s| < "
    "2^23 * 2^top; small side, only when the smallest exponent lo <= -48: "
    "|x| outside [2^(lo+23), epsilon)); excluded walk points are counted in "
    "info.excluded_ste_cancellation; the oracle itself uses the exact bound "
    "2^24 and judges everything below it without tolerance (x + (xq - x) is "
    "exact there: Sterbenz for xq/2 <= |x| <= 2xq, half-ulp argument below, "
    "common-ulp argument above)",
    "monotone: pairs with equal inputs are not compared (the same value can "
    "get different exponents in the vectorised and the scalar TF kernel when "
    "it lies inside the breakpoint band)",
    "expected codes below the smallest normal float32 (2^-128, 2^-256) are "
    "classified separately (region subnormal_code)",
    "quadratic_approximation=True is only smoke-tested (finite, non-zero, "
    "power-of-two outputs with use_ste=False)",
]
BUDGET_S = {"quick": 80, "thorough": 800}
REQUIRED_LABELS = {
    "quick": ["walk", "scalar_path", "hyp", "smoke", "quantized_po2",
              "quantized_relu_po2", "mode:rnd", "mode:floor", "leaky",
              "r:saturated_low", "r:saturated_high", "r:breakpoint_band",
              "r:exact_power_of_two", "r:eps_floor", "r:zero",
              "r:clamped_to_max_value", "r:subnormal_input", "r:interior",
              "subnormal_code", "ste_off", "idempotence_checked",
              "huge_clamped_exact"],
    "thorough": ["walk", "scalar_path", "hyp", "smoke", "quantized_po2",
                 "quantized_relu_po2", "mode:rnd", "mode:floor", "leaky",
                 "r:saturated_low", "r:saturated_high", "r:breakpoint_band",
                 "r:exact_power_of_two", "r:eps_floor", "r:zero",
                 "r:clamped_to_max_value", "r:subnormal_input", "r:interior",
                 "subnormal_code", "ste_off", "idempotence_checked",
                 "huge_clamped_exact"],
}

_checked_eps = []


def _check_env():
  if _checked_eps:
    return
  import tensorflow as tf  # pylint: disable=g-import-not-at-top
  if float(tf.keras.backend.epsilon()) != 1e-7:
    raise core.HarnessError("K.epsilon() is %r, reference assumes 1e-7" %
                            tf.keras.backend.epsilon())
  _checked_eps.append(1)


def _delta(d):
  d = int(d)
  return "%+d" % d if abs(d) <= 1 else ("<-1" if d < 0 else ">+1")


def observe(cfg, xs, shape=None, chunk=None):
  """Calls the code under test: y = q(x), y2 = q(y) (when no leaky slope),
  min(), max().  chunk=n evaluates n elements per call (scalar kernels)."""
  f = R.fmt(cfg)
  xs = np.asarray(xs, dtype=G.F32).reshape(-1)
  try:
    q = G.build(cfg)
    if chunk:
      parts = [G.call(q, xs[a:a + chunk]) for a in range(0, len(xs), chunk)]
      y = np.concatenate(parts) if parts else np.zeros(0, G.F32)
    else:
      xin = xs.reshape(shape) if shape is not None else xs
      y = G.call(q, xin).reshape(-1)
    y2 = None
    if not f["slope"]:
      if chunk:
        parts = [G.call(q, y[a:a + chunk]) for a in range(0, len(y), chunk)]
        y2 = np.concatenate(parts) if parts else np.zeros(0, G.F32)
      else:
        yin = y.reshape(shape) if shape is not None else y
        y2 = G.call(q, yin).reshape(-1)
    return {"y": y, "y2": y2, "min": float(q.min()), "max": float(q.max())}
  finally:
    core.reset_globals()


def evaluate(cfg, xs, shape=None, stats=None, chunk=None):
  """Runs the quantizer on xs and judges every element.

  Returns list of (sub_check, signature, detail, index-or-pair) where the last
  item points at the offending element(s) of the flattened tensor."""
  _check_env()
  f = R.fmt(cfg)
  xs = np.asarray(xs, dtype=G.F32).reshape(-1)
  base = {"cls": cfg["cls"], "mode": f["mode"]}
  if f["relu"]:
    base["leaky"] = bool(f["slope"])
  fails = []
  try:
    ob = observe(cfg, xs, shape, chunk)
  except Exception as e:  # pylint: disable=broad-except
    if isinstance(e, core.HarnessError):
      raise
    sig = dict(core.exc_signature(e), **base)
    return [("call_raises", sig, repr(e)[:300], None)]
  y, qmin, qmax = ob["y"], ob["min"], ob["max"]
  ref = R.reference(f, xs)
  x64 = ref["x"]
  y64 = y.astype(np.float64)
  reg = ref["region"]
  rname = lambda i: R.REGIONS[int(reg[i])]

  def first(mask):
    idx = np.nonzero(mask)[0]
    # prefer the element of smallest magnitude, deterministic
    return int(idx[np.argmin(np.abs(x64[idx]))])

  def per_region(mask, fn):
    """One failure per region present in mask."""
    for r in np.unique(reg[mask]):
      i = first(mask & (reg == r))
      fn(i, R.REGIONS[int(r)])

  def desc(i):
    return "x=%r y=%r expected=%s2^%d%s region=%s" % (
        float(xs[i]), float(y[i]), {1: "+", -1: "-", 0: "+-"}[int(ref["sign"][i])],
        int(ref["e"][i]),
        "" if ref["alt"][i] == ref["e"][i] else " (or 2^%d)" % int(ref["alt"][i]),
        rname(i))

  fin = np.isfinite(y64)
  if not fin.all():
    per_region(~fin, lambda i, r: fails.append(
        ("nonfinite", dict(base, region=r), desc(i), i)))
  live = fin.copy()

  # -- float32 cancellation regime of the straight-through expression --------
  cancel = ref["cancel"] & live
  if cancel.any():
    want = np.ldexp(1.0, ref["e"]) * np.where(ref["sign"] == 0, 1, ref["sign"])
    want2 = np.ldexp(1.0, ref["alt"]) * np.where(ref["sign"] == 0, 1, ref["sign"])
    bad = cancel & (y64 != want) & (y64 != want2)
    if bad.any():
      i = first(bad)
      fails.append(("ste", {"cls": cfg["cls"], "region": "ste_cancellation",
                            "side": "below_epsilon" if ref["below"][i] else
                                    "above_top",
                            "surrogate": ("x", "slope*x", "max_value")[
                                int(ref["skind"][i])]},
                    desc(i) + " |s|>=2^24*|xq|", i))
  live &= ~ref["cancel"]

  # -- codes below the smallest normal float32 ---------------------------------
  subc = ref["subcode"] & live
  if subc.any():
    zero = subc & (y64 == 0)
    if zero.any():
      i = first(zero)
      fails.append(("subnormal", {"cls": cfg["cls"], "region": "subnormal_code",
                                  "observed": "zero"}, desc(i), i))
    want = np.ldexp(1.0, ref["e"])
    other = subc & (y64 != 0) & (np.abs(y64) != want)
    if other.any():
      i = first(other)
      fails.append(("subnormal", {"cls": cfg["cls"], "region": "subnormal_code",
                                  "observed": "other"}, desc(i), i))
  live &= ~ref["subcode"]

  # -- (a) power of two ------------------------------------------------------------
  isp, eo = R.exponent_of(y64)
  notp = live & ~isp
  if notp.any():
    per_region(notp, lambda i, r: fails.append(
        ("power_of_two", dict(base, region=r,
                              observed="zero" if y64[i] == 0 else "non_power"),
         desc(i), i)))
  ok = live & isp
  # -- (b) exponent interval, (e) max_value ------------------------------------------
  lo, hi, top = f["lo"], f["hi"], f["top"]
  below = ok & (eo < lo)
  above = ok & (eo > top)
  if below.any():
    per_region(below, lambda i, r: fails.append(
        ("exponent_range", dict(base, region=r, side="below"),
         desc(i) + " interval=[%d,%d]" % (lo, top), i)))
  if above.any():
    per_region(above, lambda i, r: fails.append(
        ("exponent_range", dict(base, region=r, side="above"),
         desc(i) + " interval=[%d,%d]" % (lo, top), i)))
  if f["max_value"] is not None:
    over = ok & (np.abs(y64) > f["max_value"])
    if over.any():
      per_region(over, lambda i, r: fails.append(
          ("max_value", dict(base, region=r), desc(i), i)))
  # -- (c) sign ----------------------------------------------------------------------
  sg = np.where(np.signbit(y64), -1, 1)
  bsign = ok & (ref["sign"] != 0) & (sg != ref["sign"])
  if bsign.any():
    per_region(bsign, lambda i, r: fails.append(
        ("sign", dict(base, region=r,
                      side="neg" if x64[i] < 0 else "nonneg"), desc(i), i)))
  # -- (d) reference exponent --------------------------------------------------------
  bexp = ok & (eo != ref["e"]) & (eo != ref["alt"])
  if bexp.any():
    d = eo - ref["e"]
    for r in np.unique(reg[bexp]):
      for dl in sorted(set(_delta(v) for v in d[bexp & (reg == r)])):
        m = bexp & (reg == r) & np.array([_delta(v) == dl for v in d])
        i = first(m)
        fails.append(("exponent", dict(base, region=R.REGIONS[int(r)], delta=dl),
                      desc(i), i))
  # -- (h) min()/max() ---------------------------------------------------------------
  for mask, clause, lim in ((live & (y64 < qmin), "min", qmin),
                            (live & (y64 > qmax), "max", qmax)):
    if mask.any():
      i = first(mask)
      fails.append(("minmax", dict(base, clause=clause),
                    desc(i) + " %s()=%r" % (clause, lim), i))
  # -- (f) monotone on each sign -------------------------------------------------------
  for side, sel in (("pos", x64 > 0), ("neg", x64 < 0)):
    idx = np.nonzero(sel & fin & ~ref["cancel"])[0]
    if idx.size < 2:
      continue
    order = idx[np.argsort(x64[idx], kind="stable")]
    yy = y64[order]
    xx = x64[order]
    # equal inputs are not a monotonicity matter: compare the smallest output
    # of every distinct input with the largest output over strictly smaller
    # inputs
    ux, inv = np.unique(xx, return_inverse=True)
    if ux.size < 2:
      continue
    gmax = np.full(ux.size, -np.inf)
    gmin = np.full(ux.size, np.inf)
    np.maximum.at(gmax, inv, yy)
    np.minimum.at(gmin, inv, yy)
    pmax = np.maximum.accumulate(gmax)[:-1]
    badg = np.nonzero(pmax > gmin[1:])[0] + 1
    seen = set()
    for g in badg:
      jb = int(np.nonzero((inv == g) & (yy == gmin[g]))[0][0])
      ja = int(np.nonzero((inv < g) & (yy == pmax[g - 1]))[0][-1])
      a, b = int(order[ja]), int(order[jb])
      if ref["subcode"][a] or ref["subcode"][b]:
        r = "subnormal_code"
      elif (ref["nearbp"][a] and ref["nearbp"][b] and
            ref["bp"][a] == ref["bp"][b]):
        r = "breakpoint_band"
      elif ref["exact"][a] or ref["exact"][b]:
        r = "exact_power_of_two"
      else:
        r = "other"
      if r in seen:
        continue
      seen.add(r)
      fails.append(("monotone", dict(base, region=r, side=side),
                    "x1=%r < x2=%r but y1=%r > y2=%r" %
                    (float(xs[a]), float(xs[b]), float(y[a]), float(y[b])),
                    (a, b)))
  # -- (g) idempotent without a leaky slope ------------------------------------------------
  idem = False
  if ob["y2"] is not None and ok.any():
    idem = True
    y2 = ob["y2"].astype(np.float64)
    chg = ok & (y2 != y64)
    if chg.any():
      # is the reference itself idempotent at this code?  (a code below the
      # epsilon floor is sent to the smallest magnitude by the documented rule)
      ref2 = R.reference(f, y)
      isp2, eo2 = R.exponent_of(y2)
      spec = chg & ref2["below"] & (eo != lo) & (
          (isp2 & (eo2 == ref2["e"])) | (ref2["subcode"] & (y2 == 0)) |
          ref2["cancel"])
      if spec.any():
        i = first(spec)
        fails.append(("idempotent", dict(base, region="code_below_epsilon"),
                      "x=%r q(x)=%r q(q(x))=%r (code below K.epsilon() is sent "
                      "to the smallest magnitude)" %
                      (float(xs[i]), float(y[i]), float(y2[i])), i))
      chg &= ~spec
      dl = np.where(isp2, eo2 - eo, 99)
      for v in sorted(set(_delta(t) for t in dl[chg])):
        m = chg & np.array([_delta(t) == v for t in dl])
        i = first(m)
        fails.append(("idempotent",
                      dict(base, region="exact_power_of_two", delta=v),
                      "x=%r q(x)=%r q(q(x))=%r" % (float(xs[i]), float(y[i]), float(y2[i])),
                      i))
  if stats is not None:
    for r in np.unique(reg):
      stats["r:" + R.REGIONS[int(r)]] = True
    stats["saturated"] = bool((ref["saturated"] & live).any())
    stats["near_breakpoint"] = bool(((ref["band"] | ref["exact"]) & live).any())
    stats["subnormal_code"] = bool(ref["subcode"].any())
    stats["in_cancellation_regime"] = bool(ref["cancel"].any())
    stats["idempotence_checked"] = idem
    stats["neg_leaky"] = bool(f["slope"] and (x64 < 0).any())
    # ReLU variant with max_value, x >= 2^24 * 2^top: surrogate is max_value,
    # the result must still be exact (no cancellation there)
    stats["huge_clamped_exact"] = bool(
        f["use_ste"] and ((ref["skind"] == 2) &
                          (x64 >= 2.0 ** (24 + f["top"]))).any())
  return fails


def _labels(cfg, st, kind):
  f = R.fmt(cfg)
  labs = [kind, cfg["cls"], "mode:" + f["mode"], "bits%d" % f["bits"],
          "max_value:" + ("none" if f["max_value"] is None else
                          ("le1" if f["max_value"] <= 1 else "gt1"))]
  if f["slope"]:
    labs.append("leaky")
  if not f["use_ste"]:
    labs.append("ste_off")
  labs += [k for k, v in st.items() if v]
  return labs


def _same(fails, sc, sig):
  key = core.fkey(sc, sig)
  return any(core.fkey(a, b) == key for a, b, _, _ in fails)


def _minimal_case(cfg, xs, where, sc, sig, fallback, chunk=None):
  """Smallest case that still shows (sc, sig): the element(s) alone, then the
  aligned chunk they were evaluated in (TF's vectorised and scalar float
  kernels differ in the last ulp, so a failure can depend on the position in
  the tensor), else the fallback (whole walk)."""
  if where is None:
    return {"cfg": cfg, "xs": [0.0], "shape": [1]}
  ids = list(where) if isinstance(where, tuple) else [where]
  cands = [[float(xs[i]) for i in ids]]
  w = chunk or 16
  a = (min(ids) // w) * w
  b = max(max(ids) + 1, a + w)
  cands.append([float(v) for v in xs[a:b]])
  for c in cands:
    if _same(evaluate(cfg, c), sc, sig):
      return {"cfg": cfg, "xs": c, "shape": [len(c)]}
  return fallback


def _emit(ctx, cfg, xs, fails, fallback, chunk=None):
  for sc, sig, detail, where in fails:
    key = core.fkey(sc, sig)
    tk = "first_unknown_failure_s_w%d" % ctx.idx
    if tk not in ctx.info and not ctx.is_known(sc, sig):
      ctx.info[tk] = round(time.time() - ctx.t0, 1)   # sensitivity runs only
    b = ctx.failures.get(key)
    if b is not None and b["size"] < 400:
      ctx.fail(sc, sig, b["case"], detail)     # already have a small case
      continue
    ctx.fail(sc, sig, _minimal_case(cfg, xs, where, sc, sig, fallback, chunk),
             detail)


def smoke(cfg, xs):
  """quadratic_approximation=True: finite, non-zero power-of-two outputs."""
  base = {"cls": cfg["cls"], "mode": cfg["kw"]["log2_rounding"],
          "clause": "quadratic_smoke"}
  try:
    q = G.build(cfg)
    y = G.call(q, xs).reshape(-1).astype(np.float64)
  except Exception as e:  # pylint: disable=broad-except
    return [("call_raises", dict(core.exc_signature(e), **base), repr(e)[:300], None)]
  finally:
    core.reset_globals()
  isp, _ = R.exponent_of(y)
  bad = ~(np.isfinite(y) & isp)
  if bad.any():
    i = int(np.nonzero(bad)[0][0])
    return [("quadratic_smoke", base, "x=%r y=%r" % (float(xs[i]), float(y[i])), i)]
  return []


def _smoke_points():
  e = np.arange(-20, 20)
  p = np.concatenate([np.ldexp(1.0, e), 1.5 * np.ldexp(1.0, e), [0.0]])
  return np.concatenate([p, -p]).astype(G.F32)


def run(ctx):
  cfgs = G.lattice(ctx.tier)
  if ctx.idx == 0:
    ctx.info["lattice_size"] = len(cfgs)
  excluded = 0
  for cfg in ctx.shard(cfgs):
    f = R.fmt(cfg)
    xs, nex = G.walk(cfg, f)
    excluded += nex
    st = {}
    fails = evaluate(cfg, xs, stats=st)
    if st.pop("in_cancellation_regime", False):
      raise core.HarnessError("walk contains an element in the cancellation "
                              "regime: %r" % (cfg,))
    case = {"cfg": cfg, "walk": True, "n_points": int(len(xs))}
    ctx.tick(case, labels=_labels(cfg, st, "walk"),
             nontrivial=st.get("saturated", False) and st.get("near_breakpoint", False))
    _emit(ctx, cfg, xs, fails, {"cfg": cfg, "walk": True})
    # the same breakpoints through the scalar kernels (7-element tensors)
    if f["use_ste"] or not ctx.quick:
      offs = [0] if ctx.quick else [0, 1, 2]
      sp = G.scalar_points(cfg, f, offs)
      st2 = {}
      fl = evaluate(cfg, sp, stats=st2, chunk=7)
      if st2.get("in_cancellation_regime"):
        raise core.HarnessError("scalar points contain an element in the "
                                "cancellation regime: %r" % (cfg,))
      ctx.tick({"cfg": cfg, "scalar_points": True, "n_points": int(len(sp))},
               labels=["scalar_path"], nontrivial=False)
      _emit(ctx, cfg, sp, fl, {"cfg": cfg, "scalar_points": offs}, chunk=7)
    if ctx.time_left() < 0:
      ctx.labels["inconclusive_time"] += 1
      break
  ctx.info["excluded_ste_cancellation"] = excluded
  ctx.info["exhaustive"] = False

  sp = _smoke_points()
  for cfg in ctx.shard(G.smoke_lattice()):
    fl = smoke(cfg, sp)
    ctx.tick({"cfg": cfg, "smoke": True}, labels=["smoke"])
    for sc, sig, detail, _ in fl:
      ctx.fail(sc, sig, {"cfg": cfg, "smoke": True}, detail)

  from hypothesis import strategies as st_  # pylint: disable=g-import-not-at-top

  cache = {}

  def tensors(cfg):
    f = R.fmt(cfg)
    key = (f["relu"], f["lo"], f["hi"], f["top"], f["slope"], f["use_ste"],
           f["max_value"])
    if key not in cache:
      cache[key] = G.tensor_strategy(f)
    return cache[key]

  @st_.composite
  def case_st(draw):
    cfg = draw(st_.sampled_from(cfgs))
    t = draw(tensors(cfg))
    return {"cfg": cfg, "xs": t["xs"], "shape": t["shape"]}

  def orc(case):
    st = {}
    fails = evaluate(case["cfg"], case["xs"], shape=case["shape"], stats=st)
    if st.get("in_cancellation_regime"):
      raise core.HarnessError("generator produced an element in the "
                              "cancellation regime: %r" % (case,))
    labs = _labels(case["cfg"], st, "hyp") + ["rank%d" % len(case["shape"])]
    ctx.tick(case, labels=labs,
             nontrivial=st.get("saturated", False) and st.get("near_breakpoint", False))
    return [(sc, sig, d) for sc, sig, d, _ in fails]

  n = (4000 if ctx.quick else 120000) // ctx.n + 1
  core.hyp_run(ctx, case_st(), orc, n, name="c03")


def replay(ctx, case):
  cfg = case["cfg"]
  if case.get("smoke"):
    fl = smoke(cfg, _smoke_points())
    ctx.tick(case, labels=["replay"])
    for sc, sig, detail, _ in fl:
      ctx.fail(sc, sig, case, detail)
    return
  chunk = None
  if case.get("walk"):
    xs, _ = G.walk(cfg)
    shape = None
  elif case.get("scalar_points"):
    offs = case["scalar_points"]
    xs, shape, chunk = G.scalar_points(cfg, None, offs if isinstance(offs, list) else [0]), None, 7
  else:
    xs, shape = case["xs"], case.get("shape")
  fails = evaluate(cfg, xs, shape=shape, chunk=chunk)
  ctx.tick(case, labels=["replay"])
  for sc, sig, detail, _ in fails:
    ctx.fail(sc, sig, case, detail)
