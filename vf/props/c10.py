"""C10 - quantizer strings parse as the equivalent Python call (safe_eval) and
str(q) re-parses to a quantizer computing the same function.
"""
import numpy as np

from vf import core
from vf.gen import literals as L
from vf.gen import qoptions as O

RULE = ("direction 1: case = (head name, argument items with literal kind and "
        "spelling, whitespace after commas) rendered to text; modes: 'stub' "
        "(sound grammar, recording stub bound under every registry name: "
        "bound (args, kwargs) must equal Python's ast evaluation incl. types), "
        "'order' (positional after keyword: must raise), 'exotic' (nested "
        "calls, attribute access, sentinel callable, malformed text: sentinel "
        "never invoked, only plain literals bound), 'quant' (a lattice "
        "configuration printed through the grammar: get_quantizer(text) equals "
        "the Python call in attributes, attribute types and outputs). "
        "stateful part: 'seq' = list of 2..8 parser calls in one process "
        "(safe_eval with and without caller args/kwargs, get_quantizer, str "
        "round trip, GetParams) over argument texts shared between names; "
        "every step must equal the stateless reference for that call alone and "
        "GetParams results must not be aliased. "
        "direction 2: case = configuration of the C09 option lattice (every "
        "single option per alpha kind + pairwise cover + Hypothesis draws): "
        "str(q) must not raise, get_quantizer(str(q)) must build and give "
        "bit-equal outputs on 2 probe tensors (rank 1 and 2) under learning phase 0 and 1. "
        "value carriers ('vt'): every non-default numeric option value of the "
        "lattice (in its smallest enabling configuration) is also handed over "
        "as np.float16/32/64, np.int32/64 (ints, integral floats, int lists "
        "element-wise), np.bool_ and as Python int for an integral float; "
        "Hypothesis draws carry a random subset of the numeric options. "
        "Non-trivial: text cases with >= 1 argument; configurations with >= 1 "
        "non-default option whose original returned on some probe.")
ASSUMPTIONS = [
    "checks run under TF_USE_LEGACY_KERAS=1 (tf_keras), float32, eager",
    "reference for parsing = ast.parse of the call + ast.literal_eval per "
    "argument; number lists are written space separated ('[1 2 3]', the only "
    "list form the parser knows) and compared with the Python list [1, 2, 3]; "
    "lists only in keyword position",
    "equality of bound values includes the type (1 vs 1.0 vs True) and the "
    "sign of zero",
    "whitespace only after commas; strings are quoted and identifier-like "
    "(may be empty or look like numbers / True / None)",
    "outputs compared exactly (np.array_equal, NaN==NaN); TF seed re-armed "
    "before the call sequence of every quantizer object; `scale` is not "
    "compared in C10",
    "a str()/parse failure is reduced to the 1-minimal set of non-default "
    "options (values included) that still shows it; a mismatch is attributed "
    "to the options the re-parsed quantizer lost (behavioural test against a "
    "directly built quantizer without them)",
    "value carriers never change the value (lattice values are small dyadic "
    "numbers, checked: HarnessError otherwise); a carried configuration is "
    "only judged when the library accepts the carrier, i.e. the ORIGINAL "
    "quantizer built with the carried values gives bit-equal outputs to the "
    "one built with plain Python values (label carrier_accepted; otherwise "
    "carrier_rejected and only the plain configuration is judged); failures "
    "that the plain configuration shows as well are reported once, without "
    "carrier; a carrier-only failure carries the 1-minimal carrier set in "
    "the signature as option:family (np.floating / np.integer / np.bool_ / "
    "int)",
]
BUDGET_S = {"quick": 70, "thorough": 840}
# carrier name -> family used in failure signatures (see "value carriers")
CARRIER_FAMILY = {"np.float16": "np.floating", "np.float32": "np.floating",
                  "np.float64": "np.floating", "np.int32": "np.integer",
                  "np.int64": "np.integer", "np.bool_": "np.bool_",
                  "int": "int"}
CARRIER_NAMES = sorted(CARRIER_FAMILY)
_LITS = ["lit:int", "lit:float", "lit:bool", "lit:none", "lit:str", "lit:list",
         "lit:list1"]
_REQ = (["stub", "order", "exotic", "quant", "str_lattice", "str_hyp", "seq",
         "seq_kwargs_then_parse", "seq_op:eval", "seq_op:eval_kw",
         "seq_op:get_quantizer", "seq_op:str_rt", "seq_op:getparams",
         "slot:pos", "slot:kw", "ws", "sentinel_text", "quant_built",
         "mutate:trainable", "mutate:qdense", "mutate:assign_symmetric",
         "orig_ok", "carrier_accepted"] +
        ["carrier:" + c for c in CARRIER_NAMES] + _LITS + ["str:" + c for c in O.CLASSES] +
        ["head:" + c for c in O.CLASSES])
REQUIRED_LABELS = {"quick": _REQ, "thorough": _REQ}

PROBES = ["r1", "r2"]
SEED = 4321
ROUTE = "str"


# ---------------------------------------------------------------------------
# direction 1: parsing


class Rec(object):
  """Recording stub: observes the argument binding directly."""
  head = None

  def __init__(self, *args, **kwargs):
    self.args = list(args)
    self.kwargs = dict(kwargs)


_SENT = [0]


def _sentinel(*a, **k):
  _SENT[0] += 1
  return 0


_tables = {}


def stub_table():
  """Every registry name (and 'rec') bound to its own recording stub."""
  if "stub" not in _tables:
    t = {}
    for n in O.CLASSES + ["rec"]:
      t[n] = type("Rec_" + n, (Rec,), {"head": n})
    t[L.SENTINEL] = _sentinel
    _tables["stub"] = t
  return _tables["stub"]


HEADS = O.CLASSES + ["rec"]


def _safe_eval(text):
  from qkeras.safe_eval import safe_eval  # pylint: disable=g-import-not-at-top
  return safe_eval(text, stub_table())


def _slot(it):
  return "pos" if it[0] is None else "kw"


def _min_items(case, pred):
  """1-minimal sub-list of items for which pred(case') holds."""
  items = list(case["items"])
  changed = True
  while changed:
    changed = False
    for i in range(len(items)):
      cand = items[:i] + items[i + 1:]
      c2 = dict(case, items=cand)
      if pred(c2):
        items = cand
        changed = True
        break
  return dict(case, items=items)


def _lits(case):
  return sorted(set("%s:%s" % (_slot(it), it[1]) for it in case["items"]))


def check_stub(case):
  text = L.render(case)
  try:
    name, eargs, ekw = L.py_eval_call(L.render(case, python=True))
  except Exception as e:  # pylint: disable=broad-except
    raise core.HarnessError("grammar produced text Python rejects: %r (%r)" %
                            (text, e))
  if name != case["head"]:
    raise core.HarnessError("reference head %r != %r" % (name, case["head"]))

  def run(c):
    try:
      return ("ok", _safe_eval(L.render(c)))
    except Exception as e:  # pylint: disable=broad-except
      return ("raise", e)

  kind, r = run(case)
  if kind == "raise":
    et = type(r).__name__
    m = _min_items(case, lambda c: run(c)[0] == "raise" and
                   type(run(c)[1]).__name__ == et)
    return [("parse", {"clause": "binding", "what": "raises", "exc": et,
                       "lits": _lits(m)},
             "%r raises %r (minimal: %r)" % (text, r, L.render(m)))]
  if not isinstance(r, Rec) or r.head != case["head"]:
    return [("parse", {"clause": "binding", "what": "wrong_callee"},
             "%r -> %r" % (text, r))]
  pos = [it for it in case["items"] if it[0] is None]
  kws = [it for it in case["items"] if it[0] is not None]
  if len(r.args) != len(eargs):
    return [("parse", {"clause": "binding", "what": "arity", "slot": "pos"},
             "%r: %d positional bound, Python binds %d" %
             (text, len(r.args), len(eargs)))]
  for it, got, want in zip(pos, r.args, eargs):
    if not L.same_value(got, want):
      return [("parse", _vsig(it, got, want),
               "%r: positional %r bound as %r, Python gives %r" %
               (text, it[2], got, want))]
  if sorted(r.kwargs) != sorted(ekw):
    return [("parse", {"clause": "binding", "what": "keys", "slot": "kw"},
             "%r: keywords %r, Python gives %r" %
             (text, sorted(r.kwargs), sorted(ekw)))]
  for it in kws:
    got, want = r.kwargs[it[0]], ekw[it[0]]
    if not L.same_value(got, want):
      return [("parse", _vsig(it, got, want),
               "%r: %s=%r bound as %r, Python gives %r" %
               (text, it[0], it[2], got, want))]
  return []


def _vsig(it, got, want):
  loose = False
  try:
    loose = bool(got == want) and not isinstance(got, str)
  except Exception:  # pylint: disable=broad-except
    pass
  return {"clause": "binding", "what": "type" if loose else "value",
          "lit": it[1], "slot": _slot(it),
          "got_type": type(got).__name__}


def check_order(case):
  text = L.render(case)
  try:
    L.py_eval_call(L.render(case, python=True))
    raise core.HarnessError("order grammar produced valid Python: %r" % text)
  except SyntaxError:
    pass
  try:
    r = _safe_eval(text)
  except Exception:  # pylint: disable=broad-except
    return []
  return [("parse", {"clause": "order", "what": "not_rejected"},
           "%r (positional after keyword) returned %r args=%r kwargs=%r" %
           (text, type(r).__name__, getattr(r, "args", None),
            getattr(r, "kwargs", None)))]


def check_exotic(case):
  def run(c):
    _SENT[0] = 0
    try:
      r = _safe_eval(L.render(c))
      out = ("ok", r)
    except Exception as e:  # pylint: disable=broad-except
      out = ("raise", e)
    except BaseException as e:  # pylint: disable=broad-except
      out = ("escape", e)
    return out, _SENT[0]

  def verdict(c):
    (kind, r), n = run(c)
    if n:
      return "sentinel_called"
    if kind == "escape":
      return "escape:" + type(r).__name__
    if kind == "ok" and isinstance(r, Rec):
      vals = list(r.args) + list(r.kwargs.values())
      if not all(L.is_plain(v) for v in vals):
        return "non_literal_value"
    return None

  v = verdict(case)
  _SENT[0] = 0
  if v is None:
    return []
  m = _min_items(case, lambda c: verdict(c) == v)
  _SENT[0] = 0
  frags = sorted(set(it[2] for it in m["items"] if it[1] == "exotic"))
  return [("no_exec", {"clause": "no_exec", "what": v, "fragments": frags},
           "%r: %s (minimal: %r)" % (L.render(case), v, L.render(m)))]


def _attr_same(a, b):
  if type(a) is not type(b):
    return "type"
  try:
    if isinstance(a, (list, tuple)):
      ok = len(a) == len(b) and all(_attr_same(x, y) is None
                                    for x, y in zip(a, b))
    elif isinstance(a, float):
      ok = repr(a) == repr(b)
    else:
      r = (a == b)
      ok = bool(r) if isinstance(r, (bool, np.bool_)) else bool(np.all(r))
  except Exception:  # pylint: disable=broad-except
    ok = False
  return None if ok else "value"


def check_quant(case, stats=None):
  from qkeras import quantizers as Q  # pylint: disable=g-import-not-at-top
  text = L.render(case)
  cls = case["head"]
  try:
    name, args, kwargs = L.py_eval_call(L.render(case, python=True))
  except Exception as e:  # pylint: disable=broad-except
    raise core.HarnessError("quant grammar produced text Python rejects: %r "
                            "(%r)" % (text, e))
  base = {"clause": "quantizer", "cls": cls}
  try:
    direct, derr = getattr(Q, name)(*args, **kwargs), None
  except Exception as e:  # pylint: disable=broad-except
    direct, derr = None, e
  try:
    parsed, perr = Q.get_quantizer(text), None
  except Exception as e:  # pylint: disable=broad-except
    parsed, perr = None, e
  try:
    if derr is not None:
      if perr is None:
        return [("parse", dict(base, what="accepts_what_python_call_rejects"),
                 "%r builds but the Python call raises %r" % (text, derr))]
      return []
    if perr is not None:
      es = core.exc_signature(perr)
      return [("parse", dict(base, what="raises", exc=es["exc"],
                             frame=es["frame"], lits=_lits(case)),
               "get_quantizer(%r) raises %r" % (text, perr))]
    if stats is not None:
      stats["quant_built"] = True
    if type(parsed) is not type(direct):  # pylint: disable=unidiomatic-typecheck
      return [("parse", dict(base, what="wrong_class"),
               "get_quantizer(%r) -> %s" % (text, type(parsed).__name__))]
    for p in O.signature_params(cls):
      if not hasattr(direct, p):
        continue
      if not hasattr(parsed, p):
        return [("parse", dict(base, what="attr_missing", param=p), text)]
      d = _attr_same(getattr(parsed, p), getattr(direct, p))
      if d is not None:
        return [("parse", dict(base, what="attr_" + d, param=p),
                 "get_quantizer(%r).%s = %r, Python call gives %r" %
                 (text, p, getattr(parsed, p), getattr(direct, p)))]
    o1 = O.observe(direct, ["r2"], SEED)
    o2 = O.observe(parsed, ["r2"], SEED)
    d = O.obs_diff(o1, o2, ["r2"], with_scale=False)
    if d is not None:
      return [("parse", dict(base, what="output"),
               "get_quantizer(%r) vs Python call: %s: %s" % ((text,) + d))]
    return []
  finally:
    core.reset_globals()


def quant_case_strategy():
  """A lattice configuration printed through the sound grammar."""
  from hypothesis import strategies as st  # pylint: disable=g-import-not-at-top

  @st.composite
  def case(draw):
    c = draw(O.config_strategy(text_only=True))
    cls, kw = c["cls"], c["kw"]
    # one-element lists are the known mis-parse C10-KF01 (checked in mode
    # 'stub' and in the str round trip); keep them out of the object oracle
    kw = {k: v for k, v in kw.items()
          if not (isinstance(v, list) and len(v) == 1)}
    if not O.admissible(cls, kw):
      kw = {k: v for k, v in kw.items() if k != "elements_per_scale"}
    sp_ = O.signature_params(cls)
    names = list(sp_)
    # positional prefix: scalar literals only (lists are keyword-only in the
    # sound grammar)
    maxpos = 0
    for n in names:
      v = kw[n] if n in kw else sp_[n]
      if not isinstance(v, (int, float, bool, str, type(None))):
        break
      maxpos += 1
    npos = draw(st.integers(0, min(maxpos, 5)))
    items = []
    for n in names[:npos]:
      v = kw[n] if n in kw else sp_[n]
      kind, t = draw(st.sampled_from(L.spellings(v)))
      items.append([None, kind, t])
    rest = [n for n in names[npos:] if n in kw]
    rest = draw(st.permutations(rest)) if rest else []
    for n in rest:
      kind, t = draw(st.sampled_from(L.spellings(kw[n])))
      items.append([n, kind, t])
    sp = draw(st.lists(st.integers(0, 2), min_size=1, max_size=3))
    return {"mode": "quant", "head": cls, "items": items, "sp": sp}
  return case()


# ---------------------------------------------------------------------------
# stateful part: sequences of parser calls inside one process.  Every step is
# judged against the stateless reference for that call alone.

SEQ_TEMPLATES = ["(4,0,1,var_name='s%d')", "(8,var_name='s%d')",
                 "(var_name='s%d')", "(4,0,1,alpha='auto_po2',var_name='s%d')"]
# real classes for which the template is a valid constructor call
SEQ_REAL = {0: ["quantized_bits", "quantized_linear", "quantized_relu",
                "quantized_hswish"],
            1: ["quantized_bits", "quantized_linear", "quantized_relu",
                "quantized_po2", "quantized_relu_po2", "quantized_hswish"],
            2: ["quantized_bits", "quantized_linear", "quantized_relu",
                "quantized_po2", "quantized_relu_po2", "quantized_hswish"],
            3: ["quantized_bits", "quantized_linear", "quantized_hswish"]}
SEQ_EXTRA = [{"alpha": "auto"}, {"use_stochastic_rounding": True},
             {"qnoise_factor": 0.5, "alpha": "auto_po2"}, {"bits": 3}]
SEQ_OPS = ["eval", "eval_kw", "get_quantizer", "str_rt", "getparams"]


def check_seq(case):
  """case = {"mode": "seq", "steps": [{"op", "name", "tpl", "extra",
  "params"}]}.  The argument texts carry a nonce derived from the step list,
  so a case never shares parser state with another one (a shrunk case replays
  in a fresh process exactly as it ran)."""
  from qkeras import quantizers as Q  # pylint: disable=g-import-not-at-top
  from qkeras import safe_eval as _unused  # pylint: disable=g-import-not-at-top,unused-import
  import sys  # pylint: disable=g-import-not-at-top
  SE = sys.modules["qkeras.safe_eval"]
  nonce = core.jhash(case["steps"]) % (10 ** 9)
  returned = {}     # argument text -> objects returned by GetParams so far
  done = []
  try:
    for i, st in enumerate(case["steps"]):
      op, name = st["op"], st["name"]
      argtext = SEQ_TEMPLATES[st["tpl"]] % nonce
      text = name + argtext
      _, rargs, rkw = L.py_eval_call(text)
      base = {"clause": "stateful", "op": op,
              "after_call_with_kwargs": "eval_kw" in done}
      where = "step %d %s(%r) after %s" % (i, op, text, done)
      try:
        if op in ("eval", "eval_kw"):
          extra = SEQ_EXTRA[st["extra"]] if op == "eval_kw" else {}
          params = list(st.get("params") or []) if op == "eval_kw" else []
          r = SE.safe_eval(text, stub_table(), *params, **extra)
          want_a = rargs + params
          want_k = dict(rkw, **extra)
          if not (isinstance(r, Rec) and r.head == name):
            return [("stateful", dict(base, what="wrong_callee"), where)]
          if not (len(r.args) == len(want_a) and all(
              L.same_value(x, y) for x, y in zip(r.args, want_a))):
            return [("stateful", dict(base, what="args"),
                     "%s: args %r, stateless reference %r" %
                     (where, r.args, want_a))]
          if sorted(r.kwargs) != sorted(want_k) or not all(
              L.same_value(r.kwargs[k], want_k[k]) for k in want_k):
            return [("stateful", dict(base, what="kwargs"),
                     "%s: kwargs %r, stateless reference %r" %
                     (where, r.kwargs, want_k))]
        elif op == "getparams":
          a, k = SE.GetParams(argtext)
          if not (len(a) == len(rargs) and all(
              L.same_value(x, y) for x, y in zip(a, rargs))) or (
                  sorted(k) != sorted(rkw)) or not all(
                      L.same_value(k[x], rkw[x]) for x in rkw):
            return [("stateful", dict(base, what="getparams_value"),
                     "%s: (%r, %r), stateless reference (%r, %r)" %
                     (where, a, k, rargs, rkw))]
          for pa, pk in returned.get(argtext, []):
            if pa is a or pk is k:
              return [("stateful", dict(base, what="aliased_result"),
                       "%s: GetParams returned the same list/dict object "
                       "as an earlier call" % where)]
          returned.setdefault(argtext, []).append((a, k))
        else:
          direct = getattr(Q, name)(*rargs, **rkw)
          if op == "get_quantizer":
            got = Q.get_quantizer(text)
          else:
            got = Q.get_quantizer(str(direct))
          if type(got) is not type(direct):  # pylint: disable=unidiomatic-typecheck
            return [("stateful", dict(base, what="wrong_class"), where)]
          skip = ("var_name",) if op == "str_rt" else ()
          for p_ in O.signature_params(name):
            if p_ in skip or not hasattr(direct, p_):
              continue
            d = _attr_same(getattr(got, p_, None), getattr(direct, p_))
            if d is not None and not (op == "str_rt" and d == "type"):
              return [("stateful", dict(base, what="attr", param=p_),
                       "%s: .%s = %r, stateless reference %r" %
                       (where, p_, getattr(got, p_, None),
                        getattr(direct, p_)))]
      except Exception as e:  # pylint: disable=broad-except
        if isinstance(e, core.HarnessError):
          raise
        return [("stateful", dict(base, what="raises",
                                  exc=type(e).__name__),
                 "%s raises %r" % (where, e))]
      done.append(op)
  finally:
    core.reset_globals()
  return []


def seq_case_strategy():
  from hypothesis import strategies as st  # pylint: disable=g-import-not-at-top

  @st.composite
  def step(draw):
    op = draw(st.sampled_from(SEQ_OPS))
    tpl = draw(st.integers(0, len(SEQ_TEMPLATES) - 1))
    if op in ("get_quantizer", "str_rt"):
      name = draw(st.sampled_from(SEQ_REAL[tpl]))
    else:
      name = draw(st.sampled_from(HEADS))
    s = {"op": op, "name": name, "tpl": tpl}
    if op == "eval_kw":
      s["extra"] = draw(st.integers(0, len(SEQ_EXTRA) - 1))
      s["params"] = draw(st.lists(st.sampled_from([1, 0.5, "x", None, True]),
                                  max_size=2))
    return s

  return st.lists(step(), min_size=2, max_size=8).map(
      lambda steps: {"mode": "seq", "steps": steps})


# deterministic instances: a call with caller keyword arguments followed by
# parses of the same argument text under the same and under other names
SEQ_FIXED = [
    [{"op": "eval_kw", "name": "quantized_bits", "tpl": 0, "extra": 0,
      "params": []},
     {"op": "eval", "name": "quantized_bits", "tpl": 0},
     {"op": "eval", "name": "quantized_relu", "tpl": 0},
     {"op": "get_quantizer", "name": "quantized_bits", "tpl": 0},
     {"op": "get_quantizer", "name": "quantized_relu", "tpl": 0},
     {"op": "getparams", "name": "rec", "tpl": 0},
     {"op": "getparams", "name": "rec", "tpl": 0}],
    [{"op": "getparams", "name": "rec", "tpl": 1},
     {"op": "eval_kw", "name": "rec", "tpl": 1, "extra": 2, "params": [1]},
     {"op": "getparams", "name": "rec", "tpl": 1},
     {"op": "eval", "name": "quantized_po2", "tpl": 1},
     {"op": "str_rt", "name": "quantized_bits", "tpl": 1},
     {"op": "get_quantizer", "name": "quantized_po2", "tpl": 1}],
    [{"op": "eval_kw", "name": "quantized_linear", "tpl": 3, "extra": 1,
      "params": []},
     {"op": "eval_kw", "name": "quantized_linear", "tpl": 3, "extra": 3,
      "params": ["x"]},
     {"op": "eval", "name": "quantized_hswish", "tpl": 3},
     {"op": "get_quantizer", "name": "quantized_hswish", "tpl": 3},
     {"op": "str_rt", "name": "quantized_linear", "tpl": 3}],
    [{"op": "eval_kw", "name": "quantized_relu", "tpl": 2, "extra": 0,
      "params": []},
     {"op": "get_quantizer", "name": "quantized_relu", "tpl": 2},
     {"op": "eval", "name": "ternary", "tpl": 2}],
]


def seq_oracle(ctx, case):
  fails = check_seq(case)
  ops = [s["op"] for s in case["steps"]]
  labs = ["seq"] + sorted(set("seq_op:" + o for o in ops))
  if "eval_kw" in ops and ops.index("eval_kw") < len(ops) - 1:
    labs.append("seq_kwargs_then_parse")
  ctx.tick(case, labels=labs, nontrivial=len(ops) >= 2, sample_label="seq")
  return fails


def text_oracle(ctx, case):
  mode = case["mode"]
  if mode == "seq":
    return seq_oracle(ctx, case)
  st = {}
  if mode == "stub":
    fails = check_stub(case)
  elif mode == "order":
    fails = check_order(case)
  elif mode == "exotic":
    fails = check_exotic(case)
  else:
    fails = check_quant(case, st)
  labs = [mode, "head:" + case["head"]]
  labs += sorted(set("lit:" + it[1] for it in case["items"]))
  labs += sorted(set("slot:" + _slot(it) for it in case["items"]))
  if any(case.get("sp") or []) and len(case["items"]) > 1:
    labs.append("ws")
  if any(L.SENTINEL in it[2] for it in case["items"]):
    labs.append("sentinel_text")
  labs += [k for k, v in st.items() if v]
  labs.append("n_items=%d" % min(len(case["items"]), 6))
  ctx.tick(case, labels=labs, nontrivial=len(case["items"]) >= 1,
           sample_label=mode)
  return fails


# ---------------------------------------------------------------------------
# direction 2: print -> parse


# value carriers: the same option value handed over as another numeric Python
# type (numpy scalars are what np.mean / np.max / an element of an int array
# give; np.float64 even is a `float`).  A carrier never changes the value
# (every lattice value is dyadic and small), only its type.


def carriers_for(v):
  """Carriers applicable to the JSON option value v."""
  if isinstance(v, bool):
    return ["np.bool_"]
  if isinstance(v, int):
    return ["np.int64", "np.int32"]
  if isinstance(v, float):
    out = ["np.float32", "np.float64", "np.float16"]
    if v == int(v):
      out += ["int", "np.int64"]
    return out
  if isinstance(v, list) and v and all(
      isinstance(e, int) and not isinstance(e, bool) for e in v):
    return ["np.int64"]
  return []


def carry(v, c):
  if isinstance(v, list):
    return [carry(e, c) for e in v]
  if c not in CARRIER_FAMILY or c not in carriers_for(v):
    raise core.HarnessError("carrier %r does not apply to %r" % (c, v))
  w = int(v) if c == "int" else getattr(np, c[3:])(v)
  if not (w == v and float(w) == float(v)):
    raise core.HarnessError("carrier %r changes the value %r" % (c, v))
  return w


def carry_kw(kw, vt):
  if not vt:
    return kw
  return {k: (carry(v, vt[k]) if k in vt else v) for k, v in kw.items()}


def _vt_sub(vt, kw):
  return {k: c for k, c in sorted((vt or {}).items()) if k in kw}


def _plain(v):
  """numpy scalars (and lists of them) as the Python number they carry."""
  if isinstance(v, np.generic):
    return v.item()
  if isinstance(v, (list, tuple)):
    return type(v)(_plain(e) for e in v)
  return v


class _Memo(dict):
  def bounded(self, n=1500):
    if len(self) > n:
      self.clear()


_ev_memo = _Memo()
_direct_memo = _Memo()


def _observe_direct(cls, kw, probes, seed, mutate=None, vt=None):
  vt = _vt_sub(vt, kw)
  key = O.jkey([cls, kw, probes, seed, mutate, vt])
  if key not in _direct_memo:
    _direct_memo.bounded(6000)
    try:
      _direct_memo[key] = O.observe(
          O.build(cls, carry_kw(kw, vt), {"mutate": mutate} if mutate else None),
          probes, seed)
    finally:
      core.reset_globals()
  return _direct_memo[key]


class Ev(object):
  """One configuration printed and parsed back."""

  def __init__(self, cls, kw, probes, seed, mutate=None, vt=None):
    from qkeras import quantizers as Q  # pylint: disable=g-import-not-at-top
    self.cls, self.kw, self.probes, self.seed = cls, kw, probes, seed
    self.vt = vt or {}
    self.ctor, self.detail, self.text = True, {}, None
    self._fid = {}
    self._obs = self._robs = None
    self.q2 = None
    try:
      self.q = O.build(cls, carry_kw(kw, self.vt),
                       {"mutate": mutate} if mutate else None)
    except Exception as e:  # pylint: disable=broad-except
      self.ctor = False
      self.detail["ctor"] = repr(e)[:200]
      return
    try:
      try:
        self.text = str(self.q)
      except Exception as e:  # pylint: disable=broad-except
        es = core.exc_signature(e)
        self._fid[ROUTE] = ("str_raises", es["exc"], es["frame"])
        self.detail[ROUTE] = "str(q) raises %r" % (e,)
        return
      if not isinstance(self.text, str):
        self._fid[ROUTE] = ("str_not_text", type(self.text).__name__, None)
        self.detail[ROUTE] = "str(q) returned %r" % (self.text,)
        return
      try:
        self.q2 = Q.get_quantizer(self.text)
      except Exception as e:  # pylint: disable=broad-except
        es = core.exc_signature(e)
        self._fid[ROUTE] = ("parse_raises", es["exc"], es["frame"])
        self.detail[ROUTE] = "get_quantizer(%r) raises %r" % (self.text, e)
        return
      if type(self.q2) is not type(self.q):  # pylint: disable=unidiomatic-typecheck
        self._fid[ROUTE] = ("wrong_class", type(self.q2).__name__, None)
        self.detail[ROUTE] = "get_quantizer(%r) -> %s" % (
            self.text, type(self.q2).__name__)
    finally:
      core.reset_globals()

  def attrs_differ(self):
    """Constructor parameters whose public attribute differs between the
    re-parsed and the original quantizer."""
    saved, self.kw = self.kw, dict.fromkeys(O.signature_params(self.cls))
    try:
      return self.hint(ROUTE)
    finally:
      self.kw = saved

  def hint(self, route):
    out = []
    for k in sorted(self.kw):
      try:
        # the carrier type of the original's value is not a difference
        a = getattr(self.q, k)
        same = _attr_same(getattr(self.q2, k),
                          _plain(a) if self.vt else a) is None
      except Exception:  # pylint: disable=broad-except
        same = False
      if not same:
        out.append(k)
    return out

  def obs(self):
    if self._obs is None:
      try:
        self._obs = O.observe(self.q, self.probes, self.seed)
      finally:
        core.reset_globals()
    return self._obs

  def robs(self, route):
    if self._robs is None:
      try:
        self._robs = O.observe(self.q2, self.probes, self.seed)
      finally:
        core.reset_globals()
    return self._robs

  def static_fid(self, route):
    f = self._fid.get(route)
    return f if f is not None and f[0] != "mismatch" else None

  def fid(self, route):
    if route not in self._fid:
      d = O.obs_diff(self.obs(), self.robs(route), self.probes,
                     with_scale=False)
      if d is None:
        self._fid[route] = None
      else:
        self._fid[route] = ("mismatch", None, None)
        self.detail[route] = "str(q)=%r: %s: %s" % ((self.text,) + d)
    return self._fid[route]


def evaluate(cls, kw, probes, seed, mutate=None, vt=None):
  vt = _vt_sub(vt, kw)
  key = O.jkey([cls, kw, probes, seed, mutate, vt])
  if key not in _ev_memo:
    _ev_memo.bounded()
    _ev_memo[key] = Ev(cls, kw, probes, seed, mutate, vt)
  return _ev_memo[key]


def _analyse(ctx, cls, kw, probes, seed, mut, vt, extra):
  return O.analyse(
      cls, kw, ROUTE,
      lambda k: evaluate(cls, k, probes, seed, mut, vt),
      lambda k: _observe_direct(cls, k, probes, seed, mut, vt),
      lambda sg: ctx.is_known("str_roundtrip", dict(sg, cls=cls, **extra)),
      with_scale=False,
      unexplained=lambda e: {"attrs_differ": e.attrs_differ()})


def str_oracle(ctx, case, stats=None):
  cls, kw = case["cls"], O.nondefault(case["cls"], case["kw"])
  probes, seed = case["probes"], case["seed"]
  mut = case.get("mutate") or None
  vt = _vt_sub(case.get("vt"), kw)
  extra = {"mutation": O.mutation_name(mut)} if mut else {}
  ev = evaluate(cls, kw, probes, seed, mut)
  if stats is not None:
    stats["ctor"] = ev.ctor
    if ev.ctor:
      stats["orig_ok"] = O.any_ok(ev.obs())
      stats["printed"] = ev.text is not None
      stats["reparsed"] = ev.q2 is not None
  out, seen = [], set()
  if not ev.ctor:
    return out

  def emit(sig, detail, m, vm):
    s2 = {"cls": cls}
    s2.update(sig)
    s2.update(extra)
    if vm:
      s2["carrier"] = ",".join("%s:%s" % (k, CARRIER_FAMILY[vm[k]])
                               for k in sorted(vm))
      detail = "with %s: %s" % (
          ",".join("%s as %s" % (k, vm[k]) for k in sorted(vm)), detail)
    if mut:
      detail = "after %s: %s" % (O.jkey(mut), detail)
    k = core.fkey("str_roundtrip", s2)
    if k not in seen:
      seen.add(k)
      mc = {"cls": cls, "kw": m, "probes": probes, "seed": seed}
      if mut:
        mc["mutate"] = mut
      if vm:
        mc["vt"] = vm
      out.append(("str_roundtrip", s2, detail, mc))

  plain = _analyse(ctx, cls, kw, probes, seed, mut, None, extra)
  for sig, detail, m in plain:
    emit(sig, detail, m, None)
  if not vt:
    return out
  # the same configuration with some values carried by another numeric type.
  # Precondition (domain, not oracle): the library accepts the carrier, i.e.
  # the original behaves exactly as with the plain Python value.
  evc = evaluate(cls, kw, probes, seed, mut, vt)
  ok = evc.ctor and O.obs_diff(ev.obs(), evc.obs(), probes,
                               with_scale=False) is None
  if stats is not None:
    stats["carrier_accepted" if ok else "carrier_rejected"] = True
  if not ok:
    return out
  psigs = set(core.fkey("str_roundtrip", s) for s in
              (dict(sig) for sig, _, _ in plain))
  for sig, detail, m in _analyse(ctx, cls, kw, probes, seed, mut, vt, extra):
    if core.fkey("str_roundtrip", dict(sig)) in psigs:
      continue    # fails without the carriers as well: reported above
    vm = _vt_sub(vt, m)
    if not ctx.is_known("str_roundtrip", dict(sig, cls=cls, **extra)):
      # 1-minimal set of carriers that still shows this failure
      for k in sorted(vm):
        v2 = {a: b for a, b in vm.items() if a != k}
        if any(s_ == sig for s_, _, _ in
               _analyse(ctx, cls, m, probes, seed, mut, v2, extra)):
          vm = v2
    emit(sig, detail, m, vm)
  return out


def _str_labels(case, st):
  cls = case["cls"]
  labs = ["str:" + cls]
  labs += ["opt:%s.%s" % (cls, p) for p in sorted(case["kw"])]
  labs += [k for k in ("orig_ok", "printed", "reparsed", "carrier_accepted",
                       "carrier_rejected") if st.get(k)]
  for p, c in sorted((case.get("vt") or {}).items()):
    if p in case["kw"]:
      labs += ["carrier:" + c, "copt:%s.%s" % (cls, p)]
  if case.get("mutate"):
    labs.append("mutate:" + O.mutation_name(case["mutate"]))
  return labs


# ---------------------------------------------------------------------------


def carrier_cases(cfgs):
  """Every non-default numeric value of every option (in its smallest
  enabling lattice configuration) under every carrier that applies to it."""
  best = {}
  for c in cfgs:
    kw = c["kw"]
    o = c.get("single") or (sorted(kw)[0] if len(kw) == 1 else None)
    if o is None or not carriers_for(kw[o]):
      continue
    k = (c["cls"], o, O.jkey(kw[o]))
    if k not in best or len(kw) < len(best[k]):
      best[k] = kw
  out = []
  for (cls, o, _), kw in sorted(best.items()):
    for c in carriers_for(kw[o]):
      out.append({"cls": cls, "kw": kw, "probes": PROBES, "seed": SEED,
                  "vt": {o: c}})
  return out


def run(ctx):
  O.check_signatures()
  from hypothesis import strategies as st_  # pylint: disable=g-import-not-at-top

  # direction 1: Hypothesis over the grammar.  The pure parsing modes cost
  # microseconds per case and run first, so that a slow (loaded) machine that
  # exhausts the budget in the lattice still has explored them.
  def torc(case):
    return text_oracle(ctx, case)

  q = ctx.quick
  per = lambda a, b: (a if q else b) // ctx.n + 1   # noqa: E731
  core.hyp_run(ctx, L.stub_case_strategy(HEADS), torc, per(4800, 60000),
               name="c10_stub")
  core.hyp_run(ctx, L.order_case_strategy(HEADS), torc, per(1600, 40000),
               name="c10_order")
  core.hyp_run(ctx, L.exotic_case_strategy(HEADS), torc, per(2400, 60000),
               name="c10_exotic")

  # direction 2 over the deterministic lattice
  cfgs, info = O.lattice(ctx.tier)
  if ctx.idx == 0:
    ctx.info["lattice_size"] = len(cfgs)
  lcases = [{"cls": c["cls"], "kw": c["kw"], "probes": PROBES, "seed": SEED}
            for c in cfgs]
  # str(q) after a post-construction mutation must re-parse to the live
  # behaviour: the small configurations of every class, mutated
  j = 0
  for c in cfgs:
    if len(c["kw"]) > 1:
      continue
    for m in O.mutations(c["cls"]):
      j += 1
      lcases.append({"cls": c["cls"], "kw": c["kw"], "probes": PROBES,
                     "seed": SEED,
                     "mutate": dict(m, **({"after_call": True} if j % 2 else
                                          {}))})
  # the carrier cases are cheap (no failure analysis on a healthy tree): first
  lcases = carrier_cases(cfgs) + lcases
  for case in ctx.shard(lcases):
    if ctx.time_left() <= 0:
      ctx.labels["inconclusive_time"] += 1
      break
    st = {}
    fails = str_oracle(ctx, case, st)
    ctx.tick(case, labels=["str_lattice"] + _str_labels(case, st),
             nontrivial=bool(case["kw"]) and st.get("orig_ok", False),
             sample_label="str_lattice")
    for sc, sig, detail, mc in fails:
      ctx.fail(sc, sig, mc, detail)

  # direction 1, objects (needs quantizer calls)
  core.hyp_run(ctx, quant_case_strategy(), torc, per(480, 6000),
               name="c10_quant")

  # stateful part: fixed sequences (worker 0) + generated step lists
  if ctx.idx == 0:
    for steps in SEQ_FIXED:
      case = {"mode": "seq", "steps": steps}
      for sc, sig, detail in seq_oracle(ctx, case):
        ctx.fail(sc, sig, case, detail)
  core.hyp_run(ctx, seq_case_strategy(), torc, per(800, 30000),
               name="c10_seq")

  # direction 2: random configurations
  @st_.composite
  def scase(draw):
    c = draw(O.config_strategy())
    case = {"cls": c["cls"], "kw": c["kw"],
            "probes": [draw(O.probe_strategy()), "r2"],
            "seed": draw(st_.integers(0, 2 ** 16))}
    if draw(st_.integers(0, 3)) == 0:
      m = dict(draw(st_.sampled_from(O.mutations(c["cls"]))))
      if draw(st_.booleans()):
        m["after_call"] = True
      case["mutate"] = m
    if draw(st_.integers(0, 2)) == 0:
      vt = {}
      for p_ in sorted(c["kw"]):
        cs = carriers_for(c["kw"][p_])
        if cs and draw(st_.booleans()):
          vt[p_] = draw(st_.sampled_from(cs))
      if vt:
        case["vt"] = vt
    return case

  def sorc(case):
    st = {}
    fails = str_oracle(ctx, case, st)
    ctx.tick(case, labels=["str_hyp"] + _str_labels(case, st),
             nontrivial=bool(case["kw"]) and st.get("orig_ok", False),
             sample_label="str_hyp")
    return [(sc, sig, d) for sc, sig, d, _ in fails]

  core.hyp_run(ctx, scase(), sorc, per(240, 3000), name="c10_str")

  if not ctx.quick:
    left = ctx.time_left()
    atheris_phase(ctx, 120 if left > 150 else int(max(30, left * 0.5)))


def atheris_phase(ctx, seconds):
  """Thorough tier: the grammar oracle driven by libFuzzer (child process,
  see vf/gen/c10_fuzz.py); its counters and failure buckets are merged."""
  import json  # pylint: disable=g-import-not-at-top
  import os  # pylint: disable=g-import-not-at-top
  import subprocess  # pylint: disable=g-import-not-at-top
  import sys  # pylint: disable=g-import-not-at-top
  import tempfile  # pylint: disable=g-import-not-at-top
  fd, out = tempfile.mkstemp(prefix="c10_fuzz_", suffix=".json")
  os.close(fd)
  os.remove(out)
  logd = os.path.join(core.HERE, "out", "logs")
  os.makedirs(logd, exist_ok=True)
  with open(os.path.join(logd, "C10.fuzz%d.err" % ctx.idx), "w") as log:
    try:
      p = subprocess.run(
          [sys.executable, "-W", "ignore", "-m", "vf.gen.c10_fuzz", "--out",
           out, "--seconds", str(seconds), "--seed", str(ctx.wseed)],
          stdout=log, stderr=log, cwd=core.HERE, timeout=seconds + 180)
      rc = p.returncode
    except subprocess.TimeoutExpired:
      rc = -9
  if rc == 3:
    ctx.labels["atheris_unavailable"] += 1
    return
  if not os.path.exists(out):
    raise core.HarnessError("atheris child produced no result (rc=%s), see "
                            "out/logs/C10.fuzz%d.err" % (rc, ctx.idx))
  with open(out) as f:
    r = json.load(f)
  os.remove(out)
  if rc != 0 and not r["failures"]:
    raise core.HarnessError("atheris child failed (rc=%s), see "
                            "out/logs/C10.fuzz%d.err" % (rc, ctx.idx))
  ctx.evals += r["evals"]
  for k, v in r["labels"].items():
    ctx.labels[k] += v
  ctx.nontrivial.update(r["nontrivial"])
  for b in r["failures"].values():
    key = ctx.fail(b["sub_check"], b["signature"], b["case"], b["detail"])
    ctx.failures[key]["count"] += b["count"] - 1
  ctx.info["atheris_seconds"] = seconds
  ctx.info["atheris_evals"] = r["evals"]


def replay(ctx, case):
  O.check_signatures()
  if "mode" in case:
    for sc, sig, detail in text_oracle(ctx, case):
      ctx.fail(sc, sig, case, detail)
    return
  st = {}
  fails = str_oracle(ctx, case, st)
  ctx.tick(case, labels=["replay"] + _str_labels(case, st))
  for sc, sig, detail, _ in fails:
    ctx.fail(sc, sig, case, detail)
