"""C09 - quantizer configuration round trip reproduces the same quantization
function: from_config(get_config()), get_quantizer(serialized dict), the
framework's serialize/deserialize pair; registry names resolve to the class of
that name.
"""
import numpy as np

from vf import core
from vf.gen import qoptions as O

RULE = ("case = (class, non-default constructor options, get_config before/"
        "after the first call, qnoise_factor via constructor or "
        "update_qnoise_factor, optional post-construction mutation "
        "(_set_trainable_parameter as layers do, attach to a QDense, assign a "
        "documented modifiable attribute; before/after the first call), probe "
        "tensors, TF seed). Deterministic part: for "
        "each of the 14 classes every single non-default option value on top of "
        "every alpha kind, plus a greedy pairwise-covering set of admissible "
        "option combinations (thorough: plus the full admissible product of every "
        "class with <= 1600 configurations); "
        "random part: Hypothesis draws every option independently plus a probe "
        "tensor. Every case is rebuilt through 4 routes; from_config and the "
        "legacy-dict lookup share ONE get_config() dictionary, get_quantizer("
        "dict) and keras deserialize share ONE serialized identifier (order "
        "alternates with the case hash), and no route may change the "
        "dictionary it was given; original and "
        "rebuilt quantizers are called on every probe under learning phase 0 "
        "and 1. Non-trivial = at least one non-default option and at least one "
        "call of the original that returned; distinct by hash of the case.")
ASSUMPTIONS = [
    "checks run under TF_USE_LEGACY_KERAS=1 (tf_keras), float32, eager, "
    "single-threaded TF (bit-reproducible reductions)",
    "outputs and `scale` are compared exactly (np.array_equal, NaN==NaN, "
    "-0.0==0.0); no tolerance",
    "stochastic paths: tf.random.set_seed(case seed) is re-armed before the "
    "call sequence (probes x learning phases, fixed order) of every quantizer "
    "object, so equal configurations draw equal random numbers",
    "dictionaries are compared by value before/after a rebuild (a list turned "
    "into the equal ndarray is not a change; removed/added keys are)",
    "a call of the ORIGINAL quantizer that raises is not a C09 failure (the "
    "rebuilt one must then raise the same exception type)",
    "option values come from the admissible table in vf/gen/qoptions.py "
    "(docstrings/asserts); post_training_scale only as numpy array",
    "lost_options = a minimal set of options whose removal from a directly "
    "built quantizer reproduces the rebuilt one on all probes (the options "
    "missing from get_config() are tried first, then all subsets of size "
    "<=2); several lost options are reported one by one; raising routes are "
    "reduced to the 1-minimal failing option set instead",
]
BUDGET_S = {"quick": 100, "thorough": 840}
ROUTES = ["from_config", "get_quantizer_dict", "get_quantizer_legacy_dict",
          "keras_deserialize"]
# options without any effect on outputs (variable plumbing only); symmetric
# of quantized_hswish cannot matter (hswish >= -0.375 never reaches the
# negative clip)
UNOBSERVABLE = {"var_name", "use_variables"}
_REQ = (["lattice", "hyp", "registry", "call_first", "config_first",
         "orig_ok", "phase1_differs", "qnoise_zero", "qnoise_via_update",
         "qnoise_via_update_variable", "list1_option", "mutate:trainable",
         "mutate:qdense", "mutate:assign_symmetric", "mutate:assign_alpha",
         "mutate_after_call", "mutate_before_call", "dict_order_flipped",
         "dict_order_plain",
         "pts_keepdims"] + O.CLASSES +
        ["opt:%s.%s" % (c, p) for c in O.CLASSES for p, _ in O.SPEC[c]] +
        ["observable:%s.%s" % (c, p) for c in O.CLASSES for p, _ in O.SPEC[c]
         if p not in UNOBSERVABLE and (c, p) != ("quantized_hswish",
                                                   "symmetric")])
REQUIRED_LABELS = {"quick": _REQ, "thorough": _REQ}

LATTICE_PROBES = ["r1", "r2", "r4"]
LATTICE_SEED = 1234


# ---------------------------------------------------------------------------


def _table():
  from qkeras import utils  # pylint: disable=g-import-not-at-top
  t = {}
  utils._add_supported_quantized_objects(t)  # pylint: disable=protected-access
  return t


def _deep_equal(a, b):
  """Value equality of (nested) config objects; lists, tuples and arrays are
  compared by shape and value (a list turned into the equal ndarray is not a
  change), everything else by == and type."""
  if isinstance(a, dict) or isinstance(b, dict):
    if not (isinstance(a, dict) and isinstance(b, dict)):
      return False
    return sorted(a, key=str) == sorted(b, key=str) and all(
        _deep_equal(a[k], b[k]) for k in a)
  if isinstance(a, str) or isinstance(b, str) or a is None or b is None:
    return type(a) is type(b) and a == b
  try:
    x, y = np.asarray(a), np.asarray(b)
    if x.dtype == object or y.dtype == object:
      return bool(a == b)
    return x.shape == y.shape and bool(np.array_equal(x, y))
  except Exception:  # pylint: disable=broad-except
    return a is b


def _changed_keys(before, after, prefix=""):
  if isinstance(before, dict) and isinstance(after, dict):
    out = []
    for k in sorted(set(before) | set(after), key=str):
      if k not in after:
        out.append(prefix + str(k) + ":removed")
      elif k not in before:
        out.append(prefix + str(k) + ":added")
      else:
        out += _changed_keys(before[k], after[k], prefix + str(k) + ".")
    return out
  return [] if _deep_equal(before, after) else [prefix.rstrip(".") + ":changed"]


def _rebuild_all(q, cls, flip):
  """-> {route: (q2, None | (kind, exception), changed)}.

  from_config and get_quantizer_legacy_dict rebuild from ONE get_config()
  dictionary, get_quantizer_dict and keras_deserialize from ONE serialized
  identifier (a config must stay usable after it has been used once); `flip`
  decides which route of each pair uses the dictionary first.  `changed` lists
  the entries of the dictionary that differ after the route has used it."""
  import copy  # pylint: disable=g-import-not-at-top
  import tensorflow as tf  # pylint: disable=g-import-not-at-top
  from qkeras import quantizers as Q  # pylint: disable=g-import-not-at-top
  out = {}

  def use(route, given, fn):
    try:
      before = copy.deepcopy(given)
    except Exception:  # pylint: disable=broad-except
      before = None
    try:
      q2 = fn()
    except Exception as e:  # pylint: disable=broad-except
      out[route] = (None, ("rebuild_raises", e), [])
      return
    out[route] = (q2, None,
                  [] if before is None else _changed_keys(before, given))

  pair = ["from_config", "get_quantizer_legacy_dict"]
  try:
    cfg = q.get_config()
  except Exception as e:  # pylint: disable=broad-except
    for r in pair:
      out[r] = (None, ("get_config_raises", e), [])
  else:
    for r in (pair[::-1] if flip else pair):
      if r == "from_config":
        use(r, cfg, lambda: type(q).from_config(cfg))
      else:
        ident = {"class_name": cls, "config": cfg}
        use(r, ident, lambda: Q.get_quantizer(ident))   # pylint: disable=cell-var-from-loop
  pair = ["get_quantizer_dict", "keras_deserialize"]
  try:
    ser = tf.keras.utils.serialize_keras_object(q)
  except Exception as e:  # pylint: disable=broad-except
    for r in pair:
      out[r] = (None, ("serialize_raises", e), [])
  else:
    for r in (pair[::-1] if flip else pair):
      if r == "get_quantizer_dict":
        use(r, ser, lambda: Q.get_quantizer(ser))
      else:
        use(r, ser, lambda: tf.keras.utils.deserialize_keras_object(
            ser, custom_objects=_table()))
  return out


class _Memo(dict):
  def bounded(self, n=1500):
    if len(self) > n:
      self.clear()


_eval_memo = _Memo()
_direct_memo = _Memo()


def _observe_direct(cls, kw, probes, seed, mutate=None):
  key = O.jkey([cls, kw, probes, seed, mutate])
  if key not in _direct_memo:
    _direct_memo.bounded(6000)
    try:
      _direct_memo[key] = O.observe(
          O.build(cls, kw, {"mutate": mutate} if mutate else None), probes,
          seed)
    finally:
      core.reset_globals()
  return _direct_memo[key]


class Ev(object):
  """One configuration pushed through all routes.  Rebuilding happens in the
  constructor (after the first call of the original iff call_first);
  observations of the rebuilt quantizers are taken lazily."""

  def __init__(self, cls, kw, call_first, probes, seed, post=None):
    self.cls, self.kw, self.probes, self.seed = cls, kw, probes, seed
    self.ctor = True
    self.detail = {}
    self._obs = None
    self._robs = {}
    self._fid = {}
    self.changed = {}
    try:
      self.q = O.build(cls, kw, post)
    except Exception as e:  # pylint: disable=broad-except
      self.ctor = False
      self.detail["ctor"] = repr(e)[:200]
      return
    try:
      if call_first:
        self._obs = O.observe(self.q, probes, seed)
      self.flip = bool((post or {}).get("flip"))
      self.rebuilt = _rebuild_all(self.q, cls, self.flip)
      try:
        self.cfg = self.q.get_config()
      except Exception:  # pylint: disable=broad-except
        self.cfg = None
    finally:
      core.reset_globals()
    self.changed = {r: self.rebuilt[r][2] for r in ROUTES}
    for r in ROUTES:
      q2, err = self.rebuilt[r][:2]
      if err is not None:
        kind, e = err
        es = core.exc_signature(e)
        self._fid[r] = (kind, es["exc"], es["frame"])
        self.detail[r] = "%s: %r" % (kind, e)
      elif type(q2) is not type(self.q):  # pylint: disable=unidiomatic-typecheck
        self._fid[r] = ("wrong_class", type(q2).__name__, None)
        self.detail[r] = "rebuilt object is %s" % type(q2).__name__

  def hint(self, route):
    """Options that the configuration dictionary does not carry."""
    if self.cfg is None:
      return []
    return [k for k in sorted(self.kw)
            if k not in self.cfg or
            not _val_same(self.cfg[k], O.decode(self.kw[k]))]

  def obs(self):
    if self._obs is None:
      try:
        self._obs = O.observe(self.q, self.probes, self.seed)
      finally:
        core.reset_globals()
    return self._obs

  def robs(self, r):
    if r not in self._robs:
      try:
        self._robs[r] = O.observe(self.rebuilt[r][0], self.probes, self.seed)
      finally:
        core.reset_globals()
    return self._robs[r]

  def static_fid(self, r):
    f = self._fid.get(r)
    return f if f is not None and f[0] != "mismatch" else None

  def fid(self, r):
    """Failure identity of route r: None, ("mismatch", None, None) or
    (kind, exc, frame)."""
    if r not in self._fid:
      d = O.obs_diff(self.obs(), self.robs(r), self.probes)
      if d is None:
        self._fid[r] = None
      else:
        self._fid[r] = ("mismatch", None, None)
        self.detail[r] = "%s: %s" % d
    return self._fid[r]


def evaluate(cls, kw, call_first, probes, seed, post=None):
  key = O.jkey([cls, kw, call_first, probes, seed, post])
  if key not in _eval_memo:
    _eval_memo.bounded()
    _eval_memo[key] = Ev(cls, kw, call_first, probes, seed, post)
  return _eval_memo[key]


def _val_same(a, b):
  try:
    if isinstance(a, str) or isinstance(b, str) or a is None or b is None:
      return type(a) is type(b) and a == b
    if isinstance(a, bool) != isinstance(b, bool):
      return False
    x, y = np.asarray(a), np.asarray(b)
    return x.shape == y.shape and bool(np.array_equal(x, y))
  except Exception:  # pylint: disable=broad-except
    return False


def _analyse(ctx, cls, kw, call_first, probes, seed, route, post=None):
  """-> list of (sub_check, signature, detail, minimal_case)."""
  out = []
  mut = (post or {}).get("mutate")
  extra = {"mutation": O.mutation_name(mut)} if mut else {}
  for sig, detail, m in O.analyse(
      cls, kw, route,
      lambda k: evaluate(cls, k, call_first, probes, seed, post),
      lambda k: _observe_direct(cls, k, probes, seed, mut),
      lambda sg: ctx.is_known(route, dict(sg, cls=cls, route=route, **extra))):
    sig = dict(sig, **extra)
    if mut:
      detail = "after %s: %s" % (O.jkey(mut), detail)
    out.append((route, dict(sg_order(cls, route, sig)), detail,
                dict({"cls": cls, "kw": m, "call_first": call_first,
                      "probes": probes, "seed": seed},
                     **(post or {}))))
  return out


def sg_order(cls, route, sig):
  d = {"cls": cls, "route": route}
  d.update(sig)
  return d


def oracle(ctx, case, stats=None):
  cls, kw = case["cls"], O.nondefault(case["cls"], case["kw"])
  cf, probes, seed = case["call_first"], case["probes"], case["seed"]
  post = O.post_of(case)
  ev = evaluate(cls, kw, cf, probes, seed, post)
  if stats is not None:
    stats["ctor"] = ev.ctor
    if ev.ctor:
      obs = ev.obs()
      stats["orig_ok"] = O.any_ok(obs)
      stats["orig_raises"] = any(o[0] == "raise" for o in obs)
      # learning phase matters for this configuration?
      ph = False
      for i in range(0, len(obs), 2):
        a, b = obs[i], obs[i + 1]
        if a[0] != b[0] or (a[0] == "ok" and not np.array_equal(
            a[1], b[1], equal_nan=True)):
          ph = True
      stats["phase1_differs"] = ph
  fails = []
  if not ev.ctor:
    return fails
  seen = set()
  for r in ROUTES:
    if ev.changed.get(r):
      fails.append((r, {"cls": cls, "route": r, "kind": "mutates_argument",
                        "entries": ev.changed[r]},
                    "%s(%s): the dictionary handed to the route differs "
                    "afterwards: %s" % (cls, O.kwstr(kw), ev.changed[r]),
                    case))
    for f in _analyse(ctx, cls, kw, cf, probes, seed, r, post):
      k = core.fkey(f[0], f[1])
      if k not in seen:
        seen.add(k)
        fails.append(f)
  return fails


def registry_check(ctx):
  from qkeras import quantizer_registry as R  # pylint: disable=g-import-not-at-top
  from qkeras import quantizers as Q  # pylint: disable=g-import-not-at-top
  for name in O.CLASSES:
    case = {"registry": name}
    ctx.tick(case, labels=["registry"], nontrivial=True)
    try:
      got = R.lookup_quantizer(name)
    except Exception as e:  # pylint: disable=broad-except
      ctx.fail("registry", {"cls": name, "kind": "lookup_raises",
                            "exc": type(e).__name__}, case, repr(e)[:200])
      continue
    want = getattr(Q, name, None)
    if got is not want or getattr(got, "__name__", None) != name:
      ctx.fail("registry", {"cls": name, "kind": "wrong_object"}, case,
               "lookup_quantizer(%r) -> %r, quantizers.%s is %r" %
               (name, got, name, want))
  cont = R._QUANTIZERS_REGISTRY._container  # pylint: disable=protected-access
  for name in sorted(cont):
    if getattr(cont[name], "__name__", None) != name:
      ctx.fail("registry", {"cls": name, "kind": "name_mismatch"},
               {"registry": name}, "registered under %r: %r" % (name, cont[name]))


def _labels(case, st):
  cls = case["cls"]
  labs = [cls]
  labs += ["opt:%s.%s" % (cls, p) for p in sorted(case["kw"])]
  labs.append("call_first" if case["call_first"] else "config_first")
  if case.get("qn_update") and "qnoise_factor" in case["kw"]:
    labs.append("qnoise_via_update")
    if case["qn_update"] == "var":
      labs.append("qnoise_via_update_variable")
  if case["kw"].get("qnoise_factor") == 0.0:
    labs.append("qnoise_zero")
  labs.append("dict_order_flipped" if case.get("flip") else "dict_order_plain")
  if case.get("mutate"):
    labs.append("mutate:" + O.mutation_name(case["mutate"]))
    labs.append("mutate_after_call" if case["mutate"].get("after_call")
                else "mutate_before_call")
  if any(isinstance(v, list) and len(v) == 1 for v in case["kw"].values()):
    labs.append("list1_option")
  pts = case["kw"].get("post_training_scale")
  if isinstance(pts, dict) and np.ndim(pts["__nd__"]) >= 2:
    labs.append("pts_keepdims")
  labs.append("n_options=%d" % min(len(case["kw"]), 6))
  labs += [k for k in ("orig_ok", "orig_raises", "phase1_differs")
           if st.get(k)]
  if not st.get("ctor", True):
    labs.append("ctor_raises")
  return labs


def _emit(ctx, fails):
  for sc, sig, detail, case in fails:
    ctx.fail(sc, sig, case, detail)


def run(ctx):
  O.check_signatures()
  if ctx.idx == 0:
    registry_check(ctx)
  cfgs, info = O.lattice(ctx.tier)
  if ctx.idx == 0:
    ctx.info["lattice_size"] = len(cfgs)
    ctx.info["lattice"] = info
  cases = []
  for i, c in enumerate(cfgs):
    # get_config has extra branches once use_variables turned qnoise_factor
    # into a tf.Variable: run those configurations in both orders (thorough:
    # only the small ones, the full products alternate)
    both = c["kw"].get("use_variables") and (ctx.quick or len(c["kw"]) <= 3)
    orders = [True, False] if both else [i % 2 == 0]
    for cf in orders:
      cases.append(({"cls": c["cls"], "kw": c["kw"], "call_first": cf,
                     "probes": LATTICE_PROBES, "seed": LATTICE_SEED,
                     "flip": (i // 2) % 2 == 1}, c.get("single")))
    if "qnoise_factor" in c["kw"] and len(c["kw"]) <= 2:
      # the same function reached through update_qnoise_factor(value) and
      # update_qnoise_factor(tf.Variable)
      for mode in (True, "var"):
        cases.append(({"cls": c["cls"], "kw": c["kw"],
                       "call_first": (i % 2 == 1) == (mode is True),
                       "probes": LATTICE_PROBES, "seed": LATTICE_SEED,
                       "qn_update": mode, "flip": i % 2 == 0}, None))
  # post-construction mutations on the configurations with at most one
  # option (_set_trainable_parameter and attribute assignments on all, QDense
  # attachment on every third one), _set_trainable_parameter on every fourth
  # two-option configuration
  j = 0
  for c in cfgs:
    if len(c["kw"]) > 2:
      continue
    for m in O.mutations(c["cls"]):
      if m["kind"] == "assign" and m["attr"] in c["kw"] and (
          c["kw"][m["attr"]] == m["value"]):
        continue
      j += 1
      if len(c["kw"]) == 2 and (m["kind"] != "trainable" or j % 4):
        continue
      if m["kind"] == "qdense" and j % 3:
        continue
      cases.append(({"cls": c["cls"], "kw": c["kw"], "call_first": j % 4 < 2,
                     "probes": LATTICE_PROBES, "seed": LATTICE_SEED,
                     "flip": j % 2 == 0,
                     "mutate": dict(m, **({"after_call": True} if j % 3 == 0
                                          else {}))}, None))
  for case, single in ctx.shard(cases):
    if ctx.time_left() <= 0:
      ctx.labels["inconclusive_time"] += 1
      break
    st = {}
    fails = oracle(ctx, case, st)
    labs = ["lattice"] + _labels(case, st)
    if single is not None and st.get("orig_ok"):
      # generator power: does this option change the function at all here?
      base = {k: v for k, v in case["kw"].items() if k != single}
      if O.admissible(case["cls"], base):
        a = _observe_direct(case["cls"], case["kw"], LATTICE_PROBES,
                            LATTICE_SEED)
        b = _observe_direct(case["cls"], base, LATTICE_PROBES, LATTICE_SEED)
        if O.obs_diff(a, b) is not None:
          labs.append("observable:%s.%s" % (case["cls"], single))
    ctx.tick(case, labels=labs,
             nontrivial=bool(case["kw"]) and st.get("orig_ok", False))
    _emit(ctx, fails)

  from hypothesis import strategies as st_  # pylint: disable=g-import-not-at-top

  @st_.composite
  def case_st(draw):
    c = draw(O.config_strategy())
    case = {"cls": c["cls"], "kw": c["kw"],
            "call_first": draw(st_.booleans()),
            "probes": [draw(O.probe_strategy()), "r2"],
            "seed": draw(st_.integers(0, 2 ** 16))}
    if draw(st_.booleans()):
      case["flip"] = True
    if draw(st_.integers(0, 2)) == 0:
      m = dict(draw(st_.sampled_from(O.mutations(c["cls"]))))
      if draw(st_.booleans()):
        m["after_call"] = True
      case["mutate"] = m
    if "qnoise_factor" in c["kw"] and draw(st_.booleans()):
      case["qn_update"] = draw(st_.sampled_from([True, "var"]))
    return case

  def orc(case):
    st = {}
    fails = oracle(ctx, case, st)
    ctx.tick(case, labels=["hyp"] + _labels(case, st),
             nontrivial=bool(case["kw"]) and st.get("orig_ok", False))
    return [(sc, sig, d) for sc, sig, d, _ in fails]

  n = (400 if ctx.quick else 16000) // ctx.n + 1
  core.hyp_run(ctx, case_st(), orc, n, name="c09")


def replay(ctx, case):
  if "registry" in case:
    registry_check(ctx)
    return
  O.check_signatures()
  st = {}
  fails = oracle(ctx, case, st)
  ctx.tick(case, labels=["replay"] + _labels(case, st))
  for sc, sig, detail, _ in fails:
    ctx.fail(sc, sig, case, detail)
