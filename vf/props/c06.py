"""C06 - quantizers stay trainable: tf.GradientTape gradient of every quantizer
w.r.t. its input equals cotangent x (derivative of the documented
straight-through surrogate); gradients are finite everywhere and not
identically zero on the unclipped range.
"""
import numpy as np

from vf import core
from vf.gen import ste as G
from vf.ref import ste as R

RULE = ("case = (quantizer configuration, input tensor, cotangent). Deterministic part: "
        "option lattice over all 14 quantizer classes (use_ste on/off x qnoise_factor "
        "{1,.3,0}, alpha None/constant/per-channel/auto/auto_po2, leaky slopes, upper "
        "bounds, sigmoid modes, scale_axis/elements_per_scale, use_variables, stochastic "
        "variants in learning phase 0 and 1) x probe tensors placed on both sides of every "
        "kink of the surrogate derivative (>=1.5 margins away and at 0.2/0.49/0.51/1.3/3.7 "
        "steps), a spread over the range, zeros and +-1e-30/+-1e30. Random part: Hypothesis "
        "draws configuration, rank 1..4 tensor and cotangent. Non-trivial = the compared "
        "(not near-kink) elements fall into at least two different branches of the "
        "surrogate (both sides of a clip edge / ReLU kink / rounding clip; for kink-free "
        "surrogates both saturation states or both signs); distinct by hash of the case.")
ASSUMPTIONS = [
    "checks run under TF_USE_LEGACY_KERAS=1 (tf_keras), float32, eager GradientTape",
    "gradient compared with cotangent*s'(x) within 1e-5*max(1,|cotangent|) absolute "
    "(measured on the unchanged tree: worst absolute error 1.1e-6, from the 1-tanh^2 "
    "cancellation of unscaled binary/ternary with cotangent 3; <= 2.4e-7 elsewhere; the "
    "by_class labels err<=1e-7 / err<=1e-6 / err<=1e-5* give the per-run distribution)",
    "clip edges use TensorFlow's clip_by_value convention (gradient passes at the edge)",
    "elements closer to a kink than 8 float32 ulps of its location (16 for tanh/sigmoid/"
    "hswish) or 1e-3 of the quantization step are compared against both one-sided "
    "derivatives; generators place points >= 1.5 margins away by construction",
    "exception: quantized_linear(alpha='auto') puts each channel extremum exactly on the "
    "clip edge; the documentation says it is not clipped, so the passing value is required "
    "there (inclusive convention)",
    "data-dependent clip interval of quantized_linear(alpha='auto*') is taken from the "
    "documented attribute quantization_scale read after the call (its value is C05's subject)",
    "quantized_ulaw and bernoulli document no surrogate: finiteness of the gradient only",
    "stochastic_binary/ternary in learning phase 1 document a plain straight-through "
    "gradient (identity); in phase 0 they are binary/ternary",
    "binary(use_stochastic_rounding=True): in learning phase 0 it is plain binary; in learning "
    "phase 1 random tensors have rank>=2 and every channel contains a normal non-zero element, "
    "while channels that are all zero / all subnormal are exercised only by two deterministic "
    "probes (C06-KF3: NaN gradient there, signature region=zero_channel; a NaN anywhere else has "
    "region=other); phase 1 oracle: identity for constant/auto alpha; for alpha=None "
    "any value of 1-tanh^2 on [x-f/8, x+f/8], f=2*min(channel max|x|,1) <= 2 (tanh' is taken at "
    "the randomly rounded point); the maximal element(s) of a channel with max|x|<=1 are only "
    "checked for finiteness (f depends on them, an undocumented extra gradient term)",
    "post-construction mutation: after q._set_trainable_parameter() (called directly or by "
    "QDense(4, kernel_quantizer=q) on its kernel quantizer), before or after a first call, the "
    "expected gradient is the table entry of the configuration the object then documents "
    "(alpha None -> 'auto_po2', symmetric True for quantized_bits/quantized_linear; any other "
    "alpha unchanged); ternary/stochastic_ternary with an explicit threshold are not mutated "
    "(threshold is documented for non-string alpha only)",
    "inputs |x| <= 1e30 (2*max|x| must not overflow float32 in the 'auto' scale)",
]
BUDGET_S = {"quick": 35, "thorough": 800}
_CLS = ["quantized_bits", "quantized_linear", "quantized_relu", "quantized_po2",
        "quantized_relu_po2", "binary", "ternary", "stochastic_binary", "stochastic_ternary",
        "quantized_tanh", "quantized_sigmoid", "quantized_hswish", "quantized_ulaw", "bernoulli"]
_REQ = _CLS + ["lattice", "hyp", "both_sides", "clipped_region", "unclipped_region",
               "near_kink", "pinned_max", "nonste", "f_mid", "f_0", "phase1", "finite_only",
               "alpha_auto", "alpha_auto_po2", "alpha_const", "alpha_list", "extreme_inputs",
               "binary:stochastic_rounding", "ternary:stochastic_rounding", "band_oracle",
               "mut_trainable", "mut_qdense", "mut_after_first_call", "mut_before_first_call",
               "mut_alpha_none_to_auto_po2"]
REQUIRED_LABELS = {"quick": _REQ, "thorough": _REQ}

TOL = 1e-5
MIN_NORMAL = 1.1754943508222875e-38   # smallest normal float32; TF flushes smaller values to zero


def family(cfg):
  cls, kw = cfg["cls"], cfg["kw"]
  if cls == "quantized_relu":
    v = "leaky" if kw.get("negative_slope") else "plain"
    if kw.get("use_sigmoid"):
      v += "+sigmoid"
    if not kw.get("is_quantized_clip", True):
      v += "+upper" if kw.get("relu_upper_bound") is not None else "+unbounded"
    return v
  if cls in ("quantized_po2", "quantized_relu_po2"):
    v = "nomax" if kw.get("max_value") is None else "max_value"
    if kw.get("negative_slope"):
      v += "+leaky"
    return v
  if cls in ("quantized_tanh", "quantized_sigmoid"):
    if kw.get("use_real_tanh") or kw.get("use_real_sigmoid"):
      return "own_real"
    return cfg.get("sigmoid", "hard")
  if cls in ("quantized_bits", "quantized_linear"):
    ub = kw.get("bits", 8) - (1 if kw.get("keep_negative", True) else 0)
    return "sign" if ub == 0 else "multi_bit"
  if cls in ("binary", "ternary") and kw.get("use_stochastic_rounding"):
    return "stochastic_rounding"
  return "default"


def sig_base(cfg):
  kw = cfg["kw"]
  a = kw.get("alpha", "na") if "alpha" in kw else "na"
  if a is None:
    ak = "none"
  elif isinstance(a, str):
    ak = a
  elif isinstance(a, list):
    ak = "list"
  else:
    ak = "const"
  if "qnoise_factor" in kw or "use_ste" in kw or cfg["cls"] in (
      "quantized_bits", "quantized_linear", "quantized_relu", "quantized_po2",
      "quantized_relu_po2", "quantized_hswish"):
    f = float(kw.get("qnoise_factor", 1.0))
    fk = "1" if f == 1.0 else ("0" if f == 0.0 else "mid")
  else:
    fk = "na"
  return {"cls": cfg["cls"], "family": family(cfg), "alpha": ak,
          "ste": "nonste" if kw.get("use_ste", True) is False else "ste",
          "f": fk, "phase": int(cfg.get("phase", 0)),
          "sr": int(bool(kw.get("use_stochastic_rounding", False)))}


def run_tape(cfg, x, r):
  """Forward + gradient through the code under test."""
  import tensorflow as tf  # pylint: disable=g-import-not-at-top
  K = tf.keras.backend
  core.reset_globals()
  try:
    if cfg.get("phase", 0):
      K.set_learning_phase(1)
    tf.random.set_seed(int(cfg.get("tf_seed", 0)))
    q = G.build(cfg)
    xt = tf.constant(x)
    rt = tf.constant(r)
    mut = cfg.get("mutation", "none")
    if mut != "none":
      if cfg.get("when", "before") == "after":
        q(xt)                     # the object has already been used once
      if mut == "trainable":
        q._set_trainable_parameter()
      elif mut == "qdense":
        from qkeras import QDense  # pylint: disable=g-import-not-at-top
        q = QDense(4, kernel_quantizer=q).kernel_quantizer_internal
      else:
        raise core.HarnessError("unknown mutation %r" % mut)
    ecfg = R.effective(cfg)
    with tf.GradientTape() as tape:
      tape.watch(xt)
      y = q(xt)
      loss = tf.reduce_sum(y * rt)
    g = tape.gradient(loss, xt)
    qs = None
    if cfg["cls"] == "quantized_linear" and isinstance(ecfg["kw"].get("alpha"), str):
      qs = np.asarray(q.quantization_scale, dtype=np.float64)
    return (np.asarray(y.numpy()), None if g is None else np.asarray(g.numpy()), qs)
  finally:
    core.reset_globals()


def evaluate(case):
  """Returns (fails, labels, nontrivial); fails = [(sub_check, signature,
  detail, element_index or None)]."""
  raw = case["cfg"]
  cfg = R.effective(raw)        # what the object documents after the mutation
  shape = list(case["shape"])
  x = np.asarray(case["xs"], dtype=np.float32).reshape(shape)
  r = np.asarray(case["rs"], dtype=np.float32).reshape(shape)
  base = sig_base(cfg)
  mut = raw.get("mutation", "none")
  base["mut"] = mut if mut == "none" else "%s:%s" % (mut, raw.get("when", "before"))
  labels = [cfg["cls"], "%s:%s" % (cfg["cls"], base["family"]), "alpha_" + base["alpha"],
            "f_" + base["f"], "rank%d" % len(shape)]
  if base["ste"] == "nonste":
    labels.append("nonste")
  if base["phase"]:
    labels.append("phase1")
  if mut != "none":
    labels.append("mut_" + mut)
    labels.append("mut_" + raw.get("when", "before") + "_first_call")
    if raw["kw"].get("alpha", None) is None:
      labels.append("mut_alpha_none_to_auto_po2")
  if cfg["kw"].get("use_variables"):
    labels.append("use_variables")
  if cfg["kw"].get("scale_axis") is not None:
    labels.append("scale_axis")
  if cfg["kw"].get("elements_per_scale") is not None:
    labels.append("elements_per_scale")
  if (np.abs(x) >= 1e29).any() or ((np.abs(x) <= 1e-29) & (x != 0)).any():
    labels.append("extreme_inputs")
  fails = []
  try:
    y, g, qs = run_tape(raw, x, r)
  except Exception as e:  # pylint: disable=broad-except
    fr = core.qkeras_frame(e.__traceback__)
    if fr is None:
      raise                      # not raised inside the code under test: harness bug
    fails.append(("call_raises", dict(core.exc_signature(e), **base), repr(e)[:300], None))
    return fails, labels, False

  x64 = x.astype(np.float64)
  r64 = r.astype(np.float64)
  ref = R.reference(cfg, x64, qs)
  nonfinite_known = None
  if g is None:
    g64 = None
  else:
    g64 = g.astype(np.float64).reshape(shape)
    fin = np.isfinite(g64)
    if not fin.all():
      if base["family"] == "stochastic_rounding" and cfg["cls"] == "binary" and base["phase"] == 1:
        # region of each non-finite element: is every element of its channel
        # (last axis; the whole tensor for rank 1) zero or subnormal?
        tiny = np.abs(x64) < MIN_NORMAL
        ax = tuple(range(x.ndim - 1)) if x.ndim > 1 else None
        zc = np.broadcast_to(np.all(tiny, axis=ax, keepdims=True), shape)
        seen_r = set()
        for i in np.flatnonzero(~fin.reshape(-1)):
          region = "zero_channel" if zc.reshape(-1)[i] else "other"
          if region in seen_r:
            continue
          seen_r.add(region)
          labels.append("nonfinite:" + region)
          fails.append(("nonfinite_gradient", dict(base, region=region),
                        "x=%r grad=%r (channel max|x|=%r)" % (
                            x.reshape(-1)[i], g.reshape(-1)[i],
                            float(np.broadcast_to(np.max(np.abs(x64), axis=ax, keepdims=True), shape).reshape(-1)[i])), int(i)))
        if seen_r != {"zero_channel"}:
          return fails, labels, False
        # go on comparing the elements of the other channels
        nonfinite_known = ~fin
        g64 = np.where(fin, g64, 0.0)
      else:
        idx = np.argwhere(~fin)
        i = int(np.ravel_multi_index(tuple(idx[0]), shape))
        fails.append(("nonfinite_gradient", dict(base),
                      "x=%r grad=%r" % (x.reshape(-1)[i], g.reshape(-1)[i]), i))
        return fails, labels, False
  if ref["kind"] == "finite_only":
    labels.append("finite_only")
    return fails, labels, bool((x64 < 0).any() and (x64 > 0).any())

  d, near, skip = ref["d"], ref["near"], ref["skip"]
  if nonfinite_known is not None:
    skip = skip | nonfinite_known
  exp = r64 * d
  tol = TOL * np.maximum(1.0, np.abs(r64))
  live = (~near) & (~skip) & (np.abs(d) > 1e-6)
  if skip.any():
    labels.append("skipped_scale_dependent_max")
  if ref["band"] is not None:
    labels.append("band_oracle")
  if near.any():
    labels.append("near_kink")
  if ref["pinned"].any():
    labels.append("pinned_max")
  cmp_mask = (~near) & (~skip)
  if (cmp_mask & ref["clipped"]).any():
    labels.append("clipped_region")
  if (cmp_mask & ~ref["clipped"]).any():
    labels.append("unclipped_region")
  regs = set(int(v) for v in ref["region"][cmp_mask])
  nontrivial = len(regs) >= 2
  if nontrivial:
    labels.append("both_sides")

  # -- never identically zero where the documented expression is non-zero
  if live.any() and (g64 is None or not (g64[live] != 0).any()):
    i = int(np.flatnonzero(live.reshape(-1))[0])
    fails.append(("dead_gradient", dict(base, how="none" if g64 is None else "zeros"),
                  "gradient is %s while the documented surrogate derivative is non-zero "
                  "(e.g. x=%r expected %r)" % ("None" if g64 is None else "identically zero",
                                               x.reshape(-1)[i], exp.reshape(-1)[i]), i))
    return fails, labels, nontrivial
  if g64 is None:
    g64 = np.zeros(shape)

  err = np.abs(g64 - exp)
  if ref["band"] is not None:
    b0, b1 = r64 * ref["band"][0], r64 * ref["band"][1]
    ok = (g64 >= np.minimum(b0, b1) - tol) & (g64 <= np.maximum(b0, b1) + tol)
    err = np.where(ok, 0.0, err)
  else:
    ok = err <= tol
  ok |= skip
  for alt in ref["alts"]:
    ok |= near & (np.abs(g64 - r64 * alt) <= tol)
  # 'auto' pins the channel extremum on the clip edge: documented as not clipped
  pin_bad = ref["pinned"] & (err > tol)
  ok &= ~pin_bad
  names = ref["region_names"]
  seen = set()
  bad = np.flatnonzero(~ok.reshape(-1))
  order = bad[np.argsort(np.abs(x64.reshape(-1)[bad]), kind="stable")]
  for i in order:
    gi, ei, ri = g64.reshape(-1)[i], exp.reshape(-1)[i], r64.reshape(-1)[i]
    ti = tol.reshape(-1)[i]
    if gi == 0:
      got = "zero"
    elif abs(gi - ri) <= ti:
      got = "identity"
    else:
      got = "other"
    if pin_bad.reshape(-1)[i]:
      region = "auto_pinned_channel_max"
      f = float(cfg["kw"].get("qnoise_factor", 1.0))
      if abs(gi - ri * (1.0 - f)) <= ti:
        got = "clipped"
    elif near.reshape(-1)[i]:
      region = "near_kink"
    else:
      region = names[int(ref["region"].reshape(-1)[i])]
    key = (region, got)
    if key in seen:
      continue
    seen.add(key)
    fails.append(("grad_mismatch", dict(base, region=region, got=got),
                  "x=%r cotangent=%r grad=%r expected=%r (s'=%r)" % (
                      x.reshape(-1)[i], ri, gi, ei, d.reshape(-1)[i]), int(i)))
  good = ok & cmp_mask
  if good.any():
    e = float(err[good].max())
    labels.append("err<=1e-7" if e <= 1e-7 else ("err<=1e-6" if e <= 1e-6 else "err<=1e-5*"))
  return fails, labels, nontrivial


def _single(case, i):
  cfg = case["cfg"]
  kw = cfg["kw"]
  if isinstance(kw.get("alpha"), list) or kw.get("scale_axis") is not None or i is None:
    return None
  shape = [1, 1] if kw.get("use_stochastic_rounding") and cfg["cls"] in ("binary", "ternary") else [1]
  return {"cfg": cfg, "shape": shape, "xs": [case["xs"][i]], "rs": [case["rs"][i]]}


def _emit(ctx, case, fails, reduce=True):
  for sc, sig, detail, i in fails:
    small = _single(case, i) if reduce else None
    if small is not None:
      f2, _, _ = evaluate(small)
      hit = [f for f in f2 if f[0] == sc and f[1] == sig]
      if hit:
        ctx.fail(sc, sig, small, hit[0][2])
        continue
    ctx.fail(sc, sig, case, detail)


def run(ctx):
  lat = G.lattice(ctx.tier)
  ctx.info["lattice_size"] = len(lat) if ctx.idx == 0 else 0
  for cfg, layout in ctx.shard(lat):
    if ctx.time_left() <= 0.5 * ctx.budget_s:
      # overloaded machine: keep half of the budget for the random part (the
      # lattice is in pseudo-random order, so the part done covers all classes)
      ctx.labels["inconclusive_time"] += 1
      ctx.info["lattice_truncated"] = 1
      break
    case = G.probe(cfg, layout)
    fails, labels, nt = evaluate(case)
    ctx.tick(case, labels=["lattice"] + labels, nontrivial=nt, sample_label=labels[1])
    _emit(ctx, case, fails)
  ctx.info["exhaustive"] = False

  collected = set()     # buckets already shrunk in an earlier chunk / by the lattice

  def orc(case):
    fails, labels, nt = evaluate(case)
    ctx.tick(case, labels=["hyp"] + labels, nontrivial=nt, sample_label="hyp:" + labels[0])
    out = []
    for sc, sig, d, _ in fails:
      if core.fkey(sc, sig) in collected:
        ctx.fail(sc, sig, case, d)
      else:
        out.append((sc, sig, d))
    return out

  # The random part runs in chunks with distinct Hypothesis seeds, so that the
  # soft time budget is honoured between chunks.
  total = (4800 if ctx.quick else 160000) // ctx.n + 1
  chunk = 100 if ctx.quick else 500
  strat = G.case_strategy(ctx.tier)
  k = rounds = 0
  while total > 0 and ctx.time_left() > 0:
    collected.update(ctx.failures.keys())
    m = min(chunk, total)
    name = "c06.%d" % k
    core.hyp_run(ctx, strat, orc, m, name=name)
    rounds += ctx.info.pop("hyp_rounds_" + name, 0)
    total -= m
    k += 1
  if total > 0:
    ctx.labels["inconclusive_time"] += 1
  ctx.info["hyp_rounds_c06"] = rounds
  ctx.info["hyp_examples_not_run"] = max(total, 0)


def replay(ctx, case):
  fails, labels, nt = evaluate(case)
  ctx.tick(case, labels=["replay"] + labels, nontrivial=nt)
  _emit(ctx, case, fails, reduce=False)
