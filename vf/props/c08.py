"""C08 - stochastic rounding: adjacent code and unbiased in training, exactly the
round-to-nearest twin at inference.
"""
import numpy as np

from vf import core
from vf.gen import fixed as G
from vf.gen import stoch as S

RULE = ("case = (family, configuration, base tensor, drawn tf_seed, learning-phase "
        "schedule of 2-3 phases containing both 0 and 1, number of draws n). In a "
        "training step the base tensor is tiled to n rows (n=2048 quick, 16384 "
        "thorough) so one call gives n draws per element; the same quantizer "
        "object goes through the whole schedule. Deterministic part: every "
        "configuration of a reduced lattice with a fixed element walk; random "
        "part: Hypothesis. Non-trivial = the tensor has an element whose "
        "fractional position p between its two codes is in (0.05,0.95) AND (for "
        "the grid families) an element that is exactly a code; distinct by hash of "
        "the whole case. Families: fixed (grid formats with constant scale), po2, "
        "sign (binary/ternary/stochastic_*), auto (fixed point with "
        "data-dependent scale). Usage route (optional part of the case; absent = "
        "direct eager call, one tiled execution): via in {direct, function "
        "(tf.function(q)), layer (QActivation(q)), layer_function (tf.function "
        "around the layer call), model_call (Sequential([QActivation])(x)), "
        "model_predict (model.predict)} x explicit training flag in {None, True, "
        "False} (layer/model routes; with a schedule holding both phases each "
        "flag disagrees with the learning phase in one step) x draws in {tiled "
        "(one execution of n tiled rows), calls (the same eager or traced object "
        "executed k times on r in {1,2,4} rows; predict: k batches of r rows; "
        "k=256 quick, 2048 thorough; every (row, element) position is an element "
        "with k draws)}. Deterministic part: every class through 13 routes; "
        "Hypothesis draws a route for a third of its cases.")
ASSUMPTIONS = [
    "checks run under TF_USE_LEGACY_KERAS=1 (tf_keras), float32, eager; "
    "tf.random.set_seed(tf_seed + step) immediately before every quantizer call "
    "(repeated executions: once before the k executions of a step)",
    "'training phase' of the statement = K.learning_phase(), as its quantifier "
    "says (learning phase in {0,1}); an explicit training= argument of the "
    "enclosing QActivation / model call (and the training=False that predict "
    "passes) does not change which clause applies, which is how every quantizer "
    "of the unchanged tree behaves",
    "every traced object (tf.function, Keras model and its predict function) is "
    "created inside the schedule step that uses it, after the learning phase is "
    "set: tf_keras evaluates K.learning_phase() to a Python value while tracing, "
    "so a trace belongs to the phase it was made in (re-using a trace across a "
    "phase switch is outside the statement)",
    "inference equality on a non-default route compares with the "
    "round-to-nearest twin executed through the same route (graph and eager "
    "execution of quantized_linear(alpha='auto') differ in the last float32 bit "
    "on the unchanged tree)",
    "repeated executions are not generated for binary/ternary with alpha='auto*' "
    "(their scale is a least-squares fit to the codes just drawn, so every "
    "execution has its own code set) and, in the deterministic part, not as "
    "eager repetitions for the sign/auto families (cost)",
    "an element whose n draws are one and the same code, with exactly known "
    "position p, is reported without a second sample when p^n+(1-p)^n < 2.56e-12; "
    "for repeated executions the second sample of the sign/auto families has 2k "
    "(not 8k) executions",
    "a failure on a non-default route is re-examined on the default route: same "
    "bucket there -> reported under the default signature, otherwise the "
    "signature carries route=<via>[:flag_disagrees] and draws=calls",
    "adjacency, code-unchanged and inference equality are exact comparisons "
    "(float32 outputs divided by a power-of-two unit in float64)",
    "mean test: |mean - c| <= Bernstein bound at the two-sided 7-sigma level "
    "(2.56e-12): w*L/(3n) + sqrt((w*L/(3n))^2 + 2*v*L/n), L=ln(2/2.56e-12)=27.4, "
    "v=(hi-c)(c-lo) the largest variance a draw confined to [lo,hi] with mean c "
    "can have, w=hi-lo; equals 7.4 standard errors for large n and stays sound "
    "for p near 0/1; a failing statistic is re-drawn with 8n draws and seed+7919 "
    "and only reported if it fails again, except when it is beyond 3x the "
    "tolerance (>22 sigma), which is believed at once",
    "tanh/sigmoid: position of the clipped input known to 2^-21/u (affine "
    "sigmoids) or 2^-19/u (exp based) code units because the library evaluates "
    "the surrogate in float32; that much is added to the adjacency window and "
    "to the mean tolerance",
    "generated magnitudes (all families, walks and Hypothesis) are exactly 0 "
    "or >= 1e-30 (the tensor strategies snap |v| < 1e-20 to 0), so a non-zero "
    "difference between a code and its input is never a float32 subnormal, "
    "which the TF CPU kernels flush to zero inside x + (xq - x); the only "
    "smaller inputs are the deliberate probes: inference threshold probes "
    "(bit-equality with the twin only) and the zero/denormal channels of "
    "binary(use_stochastic_rounding) (finiteness; code set / statistics only "
    "for alpha None or constant, where the codes do not depend on the data)",
    "constant alpha restricted to powers of two; fixed-point inputs inside "
    "2^22 steps (C01's domain)",
    "quantized_relu with negative_slope*2^(bits-1)<1 excluded (C01-KF2: the "
    "saturation code itself is fractional); quantized_relu(use_sigmoid=1) only "
    "in the inference clause (no grid surrogate to be unbiased about)",
    "po2 quadratic_approximation=True: lattice = even exponents of the range "
    "(largest exponent rounded down to even, lowest exponent -2^k is even), "
    "max_value an even power of two inside it; adjacent codes are the two "
    "neighbouring even powers 4^j <= |c| <= 4^(j+1), codes unchanged as usual; "
    "magnitudes are 0 or inside [lowest code, top] (above top only when "
    "max_value itself clips) because outside it the library clips the half "
    "exponent before doubling, a range the docstring does not describe (C03); "
    "the value-space mean is asserted literally (fails: C08-KF11) and, as the "
    "clause the sampler is built for, E[sqrt|y|] = sqrt|c| (unbiased_sqrt)",
    "po2: max_value a power of two, log2_rounding='rnd'; inputs are 0 or 2^-20 <= |x| <= 256*top (below the keras "
    "epsilon the library substitutes 2^min_exp, above 2^24*code the "
    "straight-through sum cancels: C03's findings); the clipped input is "
    "sign*clip(|x|, 2^min_exp, min(2^max_exp, max_value)), expectation in value "
    "space as stochastic_round_po2 documents",
    "sign-type quantizers: base tensor [...,C] with >=2 rows per channel, tiled "
    "on a new leading axis (per-channel statistics are tile-invariant); codes "
    "are {-s,(0),+s} with one s>0 per channel read from the outputs; the "
    "clipped input is clip(x,-s,s); monotonicity of P(y>0), P(y<0) between any "
    "two elements of a channel is tested with the same Bernstein level on the "
    "difference of counts",
    "two-code quantizers (binary, stochastic_binary): an input within 2^-7 of "
    "the channel maximum from the midpoint 0 must produce each code at least "
    "once in n draws (weak consequence of adjacency + unbiasedness that the "
    "by-design bias of these classes does not break; measured P(minority) >= "
    "0.14 on the unchanged tree, miss probability < 1e-100)",
    "alpha='auto'/'auto_po2' fixed point (quantized_bits, quantized_linear; "
    "symmetric signed formats): no reference scale; the channel unit is the "
    "smallest spread of an element's draws and must not imply more codes than "
    "bits allow; elements with |x| <= largest output are unclipped and must "
    "have mean x (Bernstein bound + 1e-5 relative for the float32 scale); a "
    "channel in which every element is constant over n draws is reported as "
    "deterministic when an input is further than u_ub*L/n from its output, "
    "u_ub = smallest non-zero |output| >= unit",
    "outputs within 2 float32 ulp (of the largest of output, code and, for the "
    "sign family, input) of an admissible code are bucketed as "
    "ste_ulp_noise (x + (xq - x) rounding), further away as a wrong value",
]
BUDGET_S = {"quick": 40, "thorough": 780}
REQUIRED_LABELS = {
    t: ["fam:fixed", "fam:po2", "fam:sign", "fam:auto", "train", "infer", "interior",
        "exact_code", "clipped", "walk", "hyp", "quantized_bits",
        "quantized_linear", "quantized_relu", "quantized_tanh",
        "quantized_sigmoid", "quantized_po2", "quantized_relu_po2", "binary",
        "ternary", "stochastic_binary", "stochastic_ternary", "phase_switch",
        "tiny_elem", "binary_infer:rank1", "binary_infer:lastdim1",
        "binary_infer:lastdim_eq_rank", "binary_infer:lastdim_ne_rank",
        "binary_infer:rank2", "binary_infer:rank3", "binary_infer:rank4",
        "threshold_probe", "wide_format", "zero_channel", "po2_quad",
        "route:direct", "route:function+calls", "route:layer_function+calls",
        "route:model_predict+calls", "route:direct+calls", "route:function+tiled",
        "route:layer+tiled", "route:layer_function+tiled", "route:model_call+tiled",
        "route:model_predict+tiled", "flag_disagrees:train", "flag_disagrees:infer",
        "flag:agree", "flag:none", "draws:calls", "draws:tiled"]
    for t in ("quick", "thorough")}

NDRAWS = {"quick": 2048, "thorough": 16384}
GROSS = 3.0   # a statistic beyond 3x its 7-sigma tolerance (>22 sigma) is believed at once
RERUN_SEED = 7919


# ---------------------------------------------------------------------------
# calling the library


def _tf():
  import tensorflow as tf  # pylint: disable=g-import-not-at-top
  return tf


def _call(q, x, phase, seed):
  """One quantizer call under a learning phase; the phase is always restored."""
  tf = _tf()
  K = tf.keras.backend
  K.set_learning_phase(int(phase))
  try:
    tf.random.set_seed(int(seed))
    return np.asarray(q(tf.constant(x)).numpy(), dtype=np.float32)
  finally:
    K.set_learning_phase(0)


def _tile(base, n):
  base = np.asarray(base, dtype=np.float32)
  return np.tile(base[None], (n,) + (1,) * base.ndim)


# ---------------------------------------------------------------------------
# usage routes: how the quantizer is executed and how independent draws are taken

ROUTE0 = {"via": "direct", "training": None, "draws": "tiled"}
MODEL_VIAS = ("model_call", "model_predict")
NCALLS = {"quick": 256, "thorough": 2048}
_MODELS = [0]
_KNOWN = []


def _route_of(case):
  return dict(ROUTE0, **(case.get("route") or {}))


def _flag(route, phase):
  """Relation of the layer's explicit training flag to the learning phase: the
  property is stated in terms of the learning phase, the flag must not matter."""
  via, tr = route["via"], route.get("training")
  if via == "model_predict":
    tr = False                       # Keras predict_step calls model(x, training=False)
  elif via in ("direct", "function"):
    return "none"
  if tr is None:
    return "none"
  return "agree" if bool(tr) == bool(phase) else "disagree"


def _route_sig(route, phase):
  """Signature keys of a non-default route (nothing for direct/tiled so that the
  buckets of the plain usage keep their keys)."""
  out = {}
  if route["via"] != "direct":
    out["route"] = route["via"] + (":flag_disagrees" if _flag(route, phase) == "disagree" else "")
  if route["draws"] == "calls":
    out["draws"] = "calls"
  return out


def _exec(q, route, x, phase, seed, k=1):
  """Run the quantizer on x through the route, k times, under a learning phase;
  returns [k, *x.shape].  Everything traced (tf.function, Keras predict function,
  Keras model) is created here, under the phase, and used for these k executions
  only: tf_keras' K.learning_phase() is a Python value when a function is traced,
  so a traced function belongs to the phase it was traced in.  The RNG is seeded
  once, before the k executions (re-seeding before every execution would replay
  the same noise)."""
  tf = _tf()
  K = tf.keras.backend
  via, tr = route["via"], route.get("training")
  x = np.asarray(x, dtype=np.float32)
  K.set_learning_phase(int(phase))
  try:
    tf.random.set_seed(int(seed))
    kw = {} if tr is None else {"training": bool(tr)}
    if via == "direct":
      f = q
    elif via == "function":
      f = tf.function(lambda t: q(t))
    elif via in ("layer", "layer_function"):
      from qkeras import QActivation  # pylint: disable=g-import-not-at-top
      layer = QActivation(q)
      f = lambda t: layer(t, **kw)    # pylint: disable=unnecessary-lambda-assignment
      if via == "layer_function":
        f = tf.function(f)
    elif via in MODEL_VIAS:
      from qkeras import QActivation  # pylint: disable=g-import-not-at-top
      _MODELS[0] += 1
      model = tf.keras.Sequential([QActivation(q, input_shape=tuple(x.shape[1:]))])
      if via == "model_predict":
        # k batches of x.shape[0] rows: the traced predict function runs k times
        out = model.predict(np.tile(x, (k,) + (1,) * (x.ndim - 1)),
                            batch_size=int(x.shape[0]), verbose=0)
        return np.asarray(out, dtype=np.float32).reshape((k,) + x.shape)
      f = lambda t: model(t, **kw)    # pylint: disable=unnecessary-lambda-assignment
    else:
      raise ValueError(via)
    xt = tf.constant(x)
    return np.stack([np.asarray(f(xt).numpy(), dtype=np.float32) for _ in range(k)])
  finally:
    K.set_learning_phase(0)


def _run_train(q, route, base, nn, phase, seed):
  """nn draws of every element of base: [nn(, r), *base.shape]."""
  if route["via"] == "direct" and route["draws"] == "tiled":
    return _call(q, _tile(base, nn), phase, seed)
  if route["draws"] == "tiled":
    return _exec(q, route, _tile(base, nn), phase, seed, 1)[0]
  return _exec(q, route, _tile(base, int(route["rows"])), phase, seed, nn)


def _builder(fam):
  return {"fixed": S.build_fixed, "po2": S.build_po2, "sign": S.build_sign,
          "auto": S.build_auto}[fam]


def _variant(fam, cfg):
  return {"fixed": S.fixed_variant, "po2": S.po2_variant,
          "sign": S.sign_variant, "auto": S.sign_variant}[fam](cfg)


def _ulps(y, target, surrogate=None):
  """Distance in float32 ulps of the largest term of s + (xq - s) (DESIGN 3.1)."""
  y = np.asarray(y, dtype=np.float64)
  t32 = np.asarray(target, dtype=np.float32)
  big = np.maximum(np.abs(y).astype(np.float32), np.abs(t32))
  if surrogate is not None:
    big = np.maximum(big, np.abs(np.asarray(surrogate, dtype=np.float32)))
  sp = np.spacing(big).astype(np.float64)
  return np.abs(y - np.asarray(target, dtype=np.float64)) / np.maximum(sp, 1e-300)


# ---------------------------------------------------------------------------
# training oracles, grid families (fixed and po2 share the shape of the test)


def _grid_reference(fam, cfg, xs):
  """Value-space reference: c, lo, hi (+ tolerant window) as float64 arrays in
  units of `unit` (fixed: the grid unit; po2: 1.0)."""
  if fam == "fixed":
    r = S.fixed_ref(cfg, xs)
    return {"unit": r["u"], "c": r["c"], "lo": r["lo"], "hi": r["hi"],
            "lo_e": r["lo_e"], "hi_e": r["hi_e"], "eps": r["eps"],
            "half_ok": True, "sign_mode": r["m"]["sign"],
            "clipped": r["pos"] != r["c"]}
  r = S.po2_ref(cfg, xs)
  s = r["sgn"]
  lo = np.where(s > 0, r["lo"], -r["hi"])
  hi = np.where(s > 0, r["hi"], -r["lo"])
  z = np.zeros_like(lo)
  return {"unit": 1.0, "c": r["c"], "lo": lo, "hi": hi, "lo_e": lo, "hi_e": hi,
          "eps": z, "half_ok": False, "sign_mode": False,
          "clipped": r["mag"] != r["a"], "quad": r["m"]["quad"],
          "tie_factor": 4.0 if r["m"]["quad"] else 2.0}


def _grid_train(fam, cfg, xs, d, ref, redraw):
  """d: draws in units of ref['unit'], shape [n, E]. Returns (fails, stats);
  fails = [(sub_check, sigextra, detail, elem_index)]."""
  fails = []
  n = d.shape[0]
  c, lo, hi = ref["c"], ref["lo"], ref["hi"]
  lo_e, hi_e, eps = ref["lo_e"], ref["hi_e"], ref["eps"]
  x = np.asarray(xs, dtype=np.float32)
  fin = np.isfinite(d).all(axis=0)
  if not fin.all():
    j = int(np.nonzero(~fin)[0][0])
    fails.append(("train_nonfinite", {"clause": "nonfinite"},
                  "x=%r draws contain %r" % (x[j], np.unique(d[~np.isfinite(d[:, j]), j])[:3]), j))
  if fam == "fixed":
    on_code = (d == np.round(d)) & (d >= lo_e[None]) & (d <= hi_e[None])
    if ref.get("sign_mode"):
      on_code &= (np.abs(d) == 1.0)
  else:
    on_code = (d == lo[None]) | (d == hi[None])
  bad = ~on_code & fin[None]
  exact = (lo == hi) & (eps == 0)
  clipped = np.asarray(ref["clipped"])
  for j in np.nonzero(bad.any(axis=0))[0]:
    j = int(j)
    dj = d[bad[:, j], j]
    cnt = int(dj.size)
    tie = bool(fam == "po2" and exact[j] and cnt <= 3 and
               np.all(np.abs(dj) == ref.get("tie_factor", 2.0) * abs(c[j])))
    if (exact[j] and not clipped[j]) or tie:
      # an input that is a code (or is clipped onto the code max_value) must
      # come back unchanged in every draw
      kind = "next_power_on_uniform_tie" if tie else "changed"
      fails.append(("code_unchanged", {"clause": "code_unchanged", "kind": kind},
                    "x=%r is the code %r*unit but %d of %d draws returned %r" %
                    (x[j], c[j], cnt, n, np.unique(dj)[:4]), j))
      continue
    near = np.where(np.abs(dj - lo[j]) < np.abs(dj - hi[j]), lo[j], hi[j])
    ul = _ulps(dj * ref["unit"], near * ref["unit"])
    if ref["half_ok"] and np.all((2 * dj == np.round(2 * dj)) & (dj >= lo_e[j]) & (dj <= hi_e[j])):
      cause = "half_step"
    elif np.all(ul <= 2.0):
      cause = "ste_ulp_noise"
    elif np.all(dj == np.round(dj)) if fam == "fixed" else np.all(np.log2(np.abs(dj) + (dj == 0)) % 1 == 0):
      cause = "code_not_adjacent"
    else:
      cause = "off_grid"
    fails.append(("adjacent", {"clause": "adjacent", "cause": cause},
                  "x=%r clipped input at %r units, adjacent codes [%r,%r], %d of %d draws "
                  "elsewhere: %r" % (x[j], c[j], lo[j], hi[j], cnt, n, np.unique(dj)[:6]), j))
  # unbiasedness on elements whose draws stay inside [lo,hi] (incl. half steps)
  inside = ((d >= lo_e[None]) & (d <= hi_e[None])).all(axis=0) & fin
  w = np.maximum(hi - lo, 0.0)

  def mean_test(sub, tr, dT, cT, loT, hiT, epsT):
    """|mean - c| against the Bernstein bound, in the space given by tr()."""
    wT = np.maximum(hiT - loT, 0.0)
    varT = np.maximum((hiT - cT) * (cT - loT), 0.0)

    def mean_bad(dd, idx, nn):
      mean = dd.mean(axis=0, dtype=np.float64)
      tol = S.bern_tol(varT[idx], nn, wT[idx]) + epsT[idx] + 1e-9 * np.maximum(1.0, np.abs(cT[idx]))
      return np.abs(mean - cT[idx]) > tol, mean, tol

    idx = np.nonzero(inside)[0]
    if not idx.size:
      return
    mb, mean, tol = mean_bad(dT[:, idx], idx, n)
    if not mb.any():
      return
    sus = idx[mb]
    gross = (np.abs(mean - cT[idx]) > GROSS * tol)[mb]
    # an element whose n draws are all the same code although its position p is
    # known exactly: a sampler with mean c on {lo,hi} does that with probability
    # p^n + (1-p)^n; below LEVEL it is believed at once (no second sample)
    pp = np.where(wT[sus] > 0, (cT[sus] - loT[sus]) / np.where(wT[sus] > 0, wT[sus], 1.0), 0.0)
    const = np.all(dT[:, sus] == dT[0:1, sus], axis=0)
    gross = gross | (const & (epsT[sus] == 0) &
                     (2.0 * np.maximum(pp, 1.0 - pp) ** n < S.LEVEL))
    d2 = None
    if not gross.all():
      d2 = redraw(sus[~gross], 8 * n)    # second, larger sample, other seed
      if d2 is not None:
        d2 = tr(d2)
    if d2 is not None:
      mb2, mean2, tol2 = mean_bad(d2, sus[~gross], d2.shape[0])
    t2 = 0
    for t, j in enumerate(sus):
      j = int(j)
      if gross[t]:
        m_, n_, tl_ = mean[mb][t], n, tol[mb][t]
        det = bool(np.all(dT[:, j] == dT[0, j]))
      else:
        if d2 is None:
          continue
        k2 = t2
        t2 += 1
        if not mb2[k2]:
          continue
        m_, n_, tl_ = mean2[k2], d2.shape[0], tol2[k2]
        det = bool(np.all(d2[:, k2] == d2[0, k2]))
      p_ = (cT[j] - loT[j]) / wT[j] if wT[j] else 0.0
      fails.append((sub, {"clause": sub, "kind": "deterministic" if det else "biased"},
                    "x=%r clipped input at %r units (p=%.4f): mean of %d draws %r, "
                    "tolerance %.3g" % (x[j], cT[j], p_, n_, m_, tl_), j))

  mean_test("unbiased", lambda v: v, d, c, lo, hi, eps)
  if ref.get("quad"):
    # quadratic mode samples the exponent of sqrt|x| (stochastic_round_po2 is
    # applied to sqrt|x|): what the code can and does satisfy is unbiasedness of
    # sqrt|y|; asserted so that the sampler stays checkable in this mode
    def sq(v):
      return np.sign(v) * np.sqrt(np.abs(v))
    mean_test("unbiased_sqrt", sq, sq(d), sq(c), sq(lo), sq(hi), eps)
  p = np.where(w > 0, (c - lo) / np.where(w > 0, w, 1.0), 0.0)
  stats = {"interior": bool(((p > 0.05) & (p < 0.95)).any()),
           "exact_code": bool((exact & ~clipped).any()),
           "clipped": bool(np.asarray(ref["clipped"]).any())}
  return fails, stats


# ---------------------------------------------------------------------------
# training oracles, sign family


def _sign_train(cfg, base, y, redraw):
  """base [R.., C]; y [n, R.., C]."""
  fails = []
  cls, kw = cfg["cls"], cfg["kw"]
  n = y.shape[0]
  C = base.shape[-1]
  xb = base.reshape(-1, C).astype(np.float64)         # [M, C]
  M = xb.shape[0]
  yy = y.reshape(n, M, C).astype(np.float64)
  alpha = kw.get("alpha")
  use01 = bool(kw.get("use_01"))
  ternary = "ternary" in cls
  stats = {"interior": False, "exact_code": False, "clipped": False}

  def elem(m_, ch):
    return int(m_ * C + ch)

  for ch in range(C):
    col = yy[:, :, ch]
    xc = xb[:, ch]
    if not np.isfinite(col).all():
      zero = bool(np.all(xc == 0))
      # TF CPU kernels flush float32 denormals to zero: a channel whose largest
      # magnitude is below the smallest normal is a zero channel for 2*max|x|
      denorm = bool(np.max(np.abs(xc)) < 1.1754944e-38)
      fails.append(("train_nonfinite",
                    {"clause": "nonfinite", "cause": "zero_channel" if zero else
                     ("denormal_channel" if denorm else "other")},
                    "channel %r -> %r" % (list(xc[:6]), np.unique(col[~np.isfinite(col)])[:3]),
                    elem(0, ch)))
      continue
    if isinstance(alpha, str) and float(np.max(np.abs(xc))) < 1.1754944e-38:
      # zero / denormal channel with a data-dependent scale: the scale itself
      # degenerates to 0 (C05's subject); here only finiteness is required
      stats["degenerate_scale_channel"] = True
      continue
    nz = np.abs(col[col != 0])
    if nz.size == 0:
      s = 0.0
    else:
      vals, cnts = np.unique(nz, return_counts=True)   # the code magnitude is the
      s = float(vals[np.argmax(cnts)])                 # modal one; ulp-noisy copies are rarer
    if not isinstance(alpha, str):
      s_ref = 1.0 if alpha is None else float(alpha)
    else:
      s_ref = None
    # (d) code set
    target = np.where(col > 0, 1.0, np.where(col < 0, -1.0, 0.0)) * (s if s_ref is None else s_ref)
    okset = (col == target)
    if not ternary:
      okset &= (col != 0) | use01
    if use01:
      okset &= (col >= 0)
    if s_ref is None and alpha == "auto_po2" and s > 0 and np.log2(s) % 1 != 0:
      fails.append(("sign_codes", {"clause": "codes", "kind": "scale_not_po2"},
                    "channel scale %r" % s, elem(0, ch)))
    if not okset.all():
      ul = _ulps(col[~okset], target[~okset], np.broadcast_to(xc[None], col.shape)[~okset])
      kind = "ste_ulp_noise" if np.all(ul <= 2.0) else "wrong_value"
      mi = int(np.nonzero((~okset).any(axis=0))[0][0])
      fails.append(("sign_codes", {"clause": "codes", "kind": kind},
                    "x=%r scale=%r outputs %r" % (xc[mi], s if s_ref is None else s_ref,
                                                  np.unique(col[:, mi])[:5]), elem(mi, ch)))
      if kind == "wrong_value":
        continue
    sc = s if s_ref is None else s_ref
    if sc <= 0:
      continue
    code = np.round(col / sc)                            # -1/0/+1
    lo_code = 0.0 if use01 else -1.0
    cpos = np.clip(xc / sc, lo_code, 1.0)                # clipped input in code units
    # (a) adjacency (only ternary has a non-adjacent code)
    if ternary:
      wrong = ((code > 0) & (xc[None] < 0)) | ((code < 0) & (xc[None] > 0))
      if wrong.any():
        mi = int(np.nonzero(wrong.any(axis=0))[0][0])
        fails.append(("adjacent", {"clause": "adjacent", "cause": "opposite_sign_code"},
                      "x=%r scale=%r: %d of %d draws on the far side of 0" %
                      (xc[mi], sc, int(wrong[:, mi].sum()), n), elem(mi, ch)))
    # (b) inputs that are codes, where the codes are known a priori and the
    # quantizer is a projection at all ({-s,+s}; not use_01 whose code 0 maps to 1)
    if s_ref is not None and not ternary and not use01:
      for mi in range(M):
        if abs(xc[mi]) == sc:
          stats["exact_code"] = True
          ch_bad = code[:, mi] != xc[mi] / sc
          if ch_bad.any():
            fails.append(("code_unchanged", {"clause": "code_unchanged", "kind": "changed"},
                          "x=%r is a code, %d of %d draws returned %r" %
                          (xc[mi], int(ch_bad.sum()), n, np.unique(col[ch_bad, mi])[:3]),
                          elem(mi, ch)))
            break
    # weak consequence of "two adjacent codes, expectation = input" for the
    # two-code quantizers: an input within 2^-7 of the channel maximum from the
    # midpoint 0 must produce each of the two codes at least once in n draws
    # (any sampler with P(minority) >= 0.02 misses with probability < 1e-17)
    if not ternary:
      mx = float(np.max(np.abs(xc)))
      tiny = (xc != 0) & (np.abs(xc) <= 2.0 ** -7 * mx)
      if tiny.any():
        stats["tiny_elem"] = True
      for mi in np.nonzero(tiny)[0]:
        if np.unique(code[:, mi]).size < 2:
          fails.append(("midpoint_randomised", {"clause": "midpoint_randomised"},
                        "x=%r (channel max %r): all %d draws returned %r" %
                        (xc[mi], mx, n, col[0, mi]), elem(int(mi), ch)))
          break
    # statistics (re-drawn with 8n before a failure is believed)
    if ternary:
      lo_a = np.where(cpos >= 0, 0.0, -1.0)
    else:
      lo_a = np.full(M, lo_code)
    hi_a = np.where(cpos <= lo_a, lo_a, lo_a + (1.0 if (ternary or use01) else 2.0))
    frac = np.where(hi_a > lo_a, (cpos - lo_a) / np.where(hi_a > lo_a, hi_a - lo_a, 1.0), 0.0)
    if ((frac > 0.05) & (frac < 0.95)).any():
      stats["interior"] = True
    if (np.abs(xc) > sc).any():
      stats["clipped"] = True

    def stat_fails(code_, n_):
      out = []
      mean = code_.mean(axis=0, dtype=np.float64)
      var = np.maximum((hi_a - cpos) * (cpos - lo_a), 0.0)
      full_w = 1.0 if use01 else 2.0
      tol = S.bern_tol(var, n_, full_w) + 1e-6
      ub = np.abs(mean - cpos) > tol
      if ub.any():
        mi = int(np.nonzero(ub)[0][np.argmax((np.abs(mean - cpos) / tol)[ub])])
        out.append(("unbiased", {"clause": "unbiased", "kind": "biased"},
                    "x=%r scale=%r clipped input %.5f codes, mean of %d draws %.5f codes "
                    "(tol %.3g)" % (xc[mi], sc, cpos[mi], n_, mean[mi], tol[mi]), mi,
                    bool(abs(mean[mi] - cpos[mi]) > GROSS * tol[mi])))
      # (f) sign of the expectation
      if not use01:
        tol0 = S.bern_tol(1.0, n_, 2.0)
        sb = (mean * np.sign(xc) < -tol0) & (xc != 0)
        if sb.any():
          mi = int(np.nonzero(sb)[0][0])
          out.append(("sign_of_mean", {"clause": "sign_of_mean"},
                      "x=%r: mean of %d draws %.4f codes has the opposite sign" %
                      (xc[mi], n_, mean[mi]), mi, bool(mean[mi] * np.sign(xc[mi]) < -GROSS * tol0)))
      # (e) monotone in x within the channel
      kp = (code_ > 0).sum(axis=0).astype(np.float64)
      kn = (code_ < 0).sum(axis=0).astype(np.float64)
      order = np.argsort(xc, kind="stable")
      for cnt, sgn, nm in ((kp, 1.0, "P(y>0)"), (kn, -1.0, "P(y<0)")):
        for a_ in range(M):
          for b_ in range(a_ + 1, M):
            i, j = order[a_], order[b_]          # x_i <= x_j
            diff = sgn * (cnt[i] - cnt[j])       # should be <= 0 up to noise
            pbar = (cnt[i] + cnt[j]) / (2.0 * n_)
            V = 2.0 * n_ * min(0.25, 1.5 * pbar * (1 - pbar) + 20.0 / n_)
            t_ = S.LOGL / 3.0 + np.sqrt((S.LOGL / 3.0) ** 2 + 2.0 * V * S.LOGL)
            if diff > t_:
              out.append(("monotone", {"clause": "monotone"},
                          "%s: x=%r -> %d/%d but x=%r -> %d/%d (allowed slack %.1f)" %
                          (nm, xc[i], cnt[i], n_, xc[j], cnt[j], n_, t_), int(i),
                          bool(diff > GROSS * t_)))
              return out
      return out

    first = stat_fails(code, n)
    second = None
    for sc_, sig, det, mi, gross in first:
      if gross:
        fails.append((sc_, sig, det, elem(mi, ch)))
        continue
      if second is None:
        second = []
        y2 = redraw(8 * n)               # cached by the caller: one larger sample
        if y2 is not None:
          col2 = y2.reshape(y2.shape[0], M, C)[:, :, ch].astype(np.float64)
          if np.isfinite(col2).all():
            second = stat_fails(np.round(col2 / sc), col2.shape[0])
      for sc2, sig2, det2, mi2, _ in second:
        if sc2 == sc_:
          fails.append((sc2, sig2, det2, elem(mi2, ch)))
          break
  return fails, stats


# ---------------------------------------------------------------------------
# training oracle, fixed point with data-dependent scale (alpha='auto*')


def _auto_train(cfg, base, y, redraw):
  """No reference for the scale is used: the per-channel grid unit is read off
  the outputs (smallest gap between distinct outputs of the channel) and
  cross-checked against the number of codes `bits` allows."""
  fails = []
  n = y.shape[0]
  C = base.shape[-1]
  xb = base.reshape(-1, C).astype(np.float64)
  M = xb.shape[0]
  yy = y.reshape(n, M, C).astype(np.float64)
  kmax = 2 ** (cfg["kw"]["bits"] - 1) - 1          # symmetric signed format
  stats = {"interior": False, "exact_code": False, "clipped": False}

  def elem(m_, ch):
    return int(m_ * C + ch)

  for ch in range(C):
    col, xc = yy[:, :, ch], xb[:, ch]
    if not np.isfinite(col).all():
      fails.append(("train_nonfinite", {"clause": "nonfinite", "cause": "other"},
                    "channel %r" % list(xc[:6]), elem(0, ch)))
      continue
    ymax = float(np.max(np.abs(col)))
    if ymax == 0:
      continue
    free = np.abs(xc) <= ymax                          # not clipped by the scale
    tolx = 1e-5 * np.maximum(np.abs(xc), ymax / max(kmax, 1))
    spread = col.max(axis=0) - col.min(axis=0)
    two = spread > ymax * 2.0 ** -12
    if not two.any():
      # every element of the channel came back with one value in all n draws.
      # All outputs are multiples of the unit u, so u <= u_ub = smallest non-zero
      # |output|; a correct sampler repeats one code n times for an input at
      # distance d from it with probability (1-d/u)^n <= LEVEL once
      # d >= u_ub*LOGL/n.
      nzv = np.abs(col[0])[np.abs(col[0]) > 0]
      u_ub = float(nzv.min())
      dist = np.abs(col[0] - xc)
      bad = free & (dist > u_ub * S.LOGL / n + tolx)
      if bad.any():
        mi = int(np.nonzero(bad)[0][np.argmax(dist[bad])])
        stats["interior"] = True
        fails.append(("unbiased", {"clause": "unbiased", "kind": "deterministic"},
                      "x=%r: all %d draws returned %r (no element of the channel is "
                      "randomised; unit <= %r)" % (xc[mi], n, col[0, mi], u_ub), elem(mi, ch)))
      continue
    u = float(np.min(spread[two]))
    k = col / u
    if np.max(np.abs(k - np.round(k))) > 1e-3 * max(1.0, kmax / 16.0):
      mi = int(np.argmax(np.max(np.abs(k - np.round(k)), axis=0)))
      fails.append(("adjacent", {"clause": "adjacent", "cause": "off_grid"},
                    "x=%r unit %r outputs %r" % (xc[mi], u, np.unique(col[:, mi])[:4]), elem(mi, ch)))
      continue
    if round(ymax / u) > kmax:
      fails.append(("adjacent", {"clause": "adjacent", "cause": "more_codes_than_bits"},
                    "largest output %r / smallest gap %r = %d > top code %d" %
                    (ymax, u, round(ymax / u), kmax), elem(0, ch)))
      continue
    # zero is always a code
    for mi in np.nonzero(xc == 0)[0]:
      stats["exact_code"] = True
      if np.any(col[:, mi] != 0):
        fails.append(("code_unchanged", {"clause": "code_unchanged", "kind": "changed"},
                      "x=0 returned %r" % np.unique(col[:, mi])[:3], elem(int(mi), ch)))
        break
    if (~free).any():
      stats["clipped"] = True
    far = (np.abs(col - xc[None]) >= u + tolx[None]) & free[None]
    if far.any():
      mi = int(np.nonzero(far.any(axis=0))[0][0])
      fails.append(("adjacent", {"clause": "adjacent", "cause": "code_not_adjacent"},
                    "x=%r unit %r: %d of %d draws a full step or more away: %r" %
                    (xc[mi], u, int(far[:, mi].sum()), n, np.unique(col[far[:, mi], mi])[:4]),
                    elem(mi, ch)))
      continue
    pos = xc / u
    fr = pos - np.floor(pos)
    inter = free & (fr > 0.05) & (fr < 0.95)
    if inter.any():
      stats["interior"] = True

    def mean_fails(col_, n_):
      mean = col_.mean(axis=0, dtype=np.float64)
      tol = S.bern_tol(u * u * fr * (1 - fr), n_, u) + tolx
      bad = (np.abs(mean - xc) > tol) & free
      if not bad.any():
        return None
      mi = int(np.nonzero(bad)[0][np.argmax((np.abs(mean - xc) / tol)[bad])])
      det = bool(np.all(col_[:, mi] == col_[0, mi]))
      return (("unbiased", {"clause": "unbiased", "kind": "deterministic" if det else "biased"},
               "x=%r (%.3f steps of %r): mean of %d draws %r, tolerance %.3g" %
               (xc[mi], pos[mi], u, n_, mean[mi], tol[mi]), mi),
              bool(abs(mean[mi] - xc[mi]) > GROSS * tol[mi]))

    first = mean_fails(col, n)
    if first is not None:
      f_, gross = first
      if not gross:
        y2 = redraw(8 * n)
        f_ = None
        if y2 is not None:
          col2 = y2.reshape(y2.shape[0], M, C)[:, :, ch].astype(np.float64)
          second = mean_fails(col2, col2.shape[0])
          f_ = second[0] if second is not None else None
      if f_ is not None:
        fails.append((f_[0], f_[1], f_[2], elem(f_[3], ch)))
  return fails, stats


# ---------------------------------------------------------------------------
# the oracle: one case through its learning-phase schedule


def oracle(case):
  """The case through its route; a failure seen through a non-default route is
  re-examined on the plain route (direct call, one tiled execution): if the plain
  route fails in the same bucket the route is not part of the root cause and the
  failure is reported under the plain signature, otherwise the signature names
  the route."""
  fails, labels, nontrivial = _oracle(case)
  route = _route_of(case)
  if fails and not (route["via"] == "direct" and route["draws"] == "tiled"):
    if not _KNOWN:
      _KNOWN.append(core.load_known("C08"))

    def strip(sig):
      return {k: v for k, v in sig.items() if k not in ("route", "draws")}
    # known findings never name a route (subset matching): such a failure keeps
    # its bucket of the default route; the control run is for the others only
    unknown = [f for f in fails if core.match_known(_KNOWN[0], f[0], strip(f[1])) is None]
    keys0 = set()
    if unknown:
      f0, _, _ = _oracle({k: v for k, v in case.items() if k != "route"})
      keys0 = set(core.fkey(sc, sig) for sc, sig, _, _ in f0)
    out = []
    for f in fails:
      sc, sig, det, mc = f
      if f not in unknown or core.fkey(sc, strip(sig)) in keys0:
        out.append((sc, strip(sig), det, mc if f not in unknown else
                    {k: v for k, v in mc.items() if k != "route"}))
      else:
        out.append(f)
    fails = out
  return fails, labels, nontrivial


def _oracle(case):
  """Returns (fails, labels, nontrivial); fails = [(sub_check, signature, detail,
  minimal_case)]."""
  fam, cfg = case["fam"], case["cfg"]
  n, seed = int(case["n"]), int(case["tf_seed"])
  phases = list(case["phases"])
  xs = np.asarray(case["xs"], dtype=np.float32)
  shape = case.get("shape") or [len(xs)]
  base = xs.reshape(shape)
  flat_infer = bool(case.get("flat_infer"))
  variant = _variant(fam, cfg)
  basesig = {"cls": cfg["cls"], "variant": variant}
  labels = ["fam:" + fam, cfg["cls"], cfg["cls"] + ":" + variant]
  if len(set(phases)) > 1:
    labels.append("phase_switch")
  route = _route_of(case)
  plain = route["via"] == "direct" and route["draws"] == "tiled"
  calls = route["draws"] == "calls"
  rows = int(route.get("rows", 1)) if calls else 1
  nd = int(route["calls"]) if calls else n      # draws per element
  E = xs.size
  labels += ["route:" + route["via"], "draws:" + route["draws"]]
  if not plain:
    labels.append("route:%s+%s" % (route["via"], route["draws"]))
  fails = []
  stats = {}
  train_ok = case.get("train", True)

  def mini(j=None, **kwd):
    c = dict(case)
    if j is not None and fam in ("fixed", "po2"):
      c = dict(case, xs=[float(xs[j % E])], shape=[1])
    c.update(kwd)
    return c

  try:
    q = _builder(fam)(cfg, True)
    twin = _builder(fam)(cfg, False)
    for step, ph in enumerate(phases):
      sd = seed + step
      rsig = dict(basesig, **_route_sig(route, ph))
      fl_rel = _flag(route, ph)
      if ph == 1:
        if not train_ok:
          continue
        labels += ["train", "flag:" + fl_rel]
        if fl_rel == "disagree":
          labels.append("flag_disagrees:train")
        try:
          y = _run_train(q, route, base, nd, 1, sd)
        except Exception as e:  # pylint: disable=broad-except
          sig = dict(core.exc_signature(e), phase="train", **rsig)
          fails.append(("call_raises", sig, repr(e)[:300], mini()))
          continue
        if fam in ("sign", "auto"):
          cache = {}

          def redraw(nn, sd=sd, cache=cache):
            if calls:
              nn = min(nn, 2 * nd)   # second sample of repeated executions: 2x, not 8x
            if nn not in cache:
              try:
                cache[nn] = _run_train(q, route, base, nn, 1, sd + RERUN_SEED)
              except Exception:  # pylint: disable=broad-except
                cache[nn] = None
            return cache[nn]
          base_e = _tile(base, rows) if calls else base
          fl, st = (_sign_train if fam == "sign" else _auto_train)(cfg, base_e, y, redraw)
        else:
          xs_e = np.tile(xs, rows)               # element list of one execution
          ref = _grid_reference(fam, cfg, xs_e)
          d = y.reshape(nd, -1).astype(np.float64) / ref["unit"]

          def redraw(idx, nn, sd=sd, ref=ref, xs_e=xs_e):
            try:
              if calls:
                y2 = _exec(q, route, xs_e[idx][None], 1, sd + RERUN_SEED, nn)
              else:
                y2 = _run_train(q, route, xs_e[idx], nn, 1, sd + RERUN_SEED)
            except Exception:  # pylint: disable=broad-except
              return None
            return y2.reshape(nn, -1).astype(np.float64) / ref["unit"]
          fl, st = _grid_train(fam, cfg, xs_e, d, ref, redraw)
        for k, v in st.items():
          stats[k] = stats.get(k, False) or v
        for sc, sx, det, j in fl:
          fails.append((sc, dict(rsig, **sx), det, mini(j, phases=[1])))
      else:
        labels += ["infer", "flag:" + fl_rel]
        if fl_rel == "disagree":
          labels.append("flag_disagrees:infer")
        xin = base.reshape(-1) if flat_infer else base
        if route["via"] in MODEL_VIAS:
          xin = xin[None]                          # a Keras model wants a batch axis
        if cfg["cls"] == "binary":
          # the inference branch of binary(use_stochastic_rounding) builds a ones
          # tensor from the input: every rank / last-dimension class is measured
          ld = "rank1" if xin.ndim == 1 else (
              "lastdim1" if xin.shape[-1] == 1 else
              ("lastdim_eq_rank" if xin.shape[-1] == xin.ndim else "lastdim_ne_rank"))
          labels += ["binary_infer:" + ld, "binary_infer:rank%d" % xin.ndim]
        try:
          if plain:
            y0 = _call(q, xin, 0, sd)
            y0b = _call(q, xin, 0, sd + 1)
          else:
            y0, y0b = _exec(q, route, xin, 0, sd, 2)   # the same traced object twice
        except Exception as e:  # pylint: disable=broad-except
          sig = dict(core.exc_signature(e), phase="infer", **rsig)
          fails.append(("call_raises", sig, "input shape %r: %s" % (list(xin.shape), repr(e)[:240]),
                        mini(phases=[0])))
          continue
        # the round-to-nearest twin goes through the same route (a traced graph and
        # an eager execution of one expression may differ in the last float32 bit)
        yt = _call(twin, xin, 0, sd) if plain else _exec(twin, route, xin, 0, sd, 1)[0]
        if y0.shape != xin.shape or y0b.shape != xin.shape:
          fails.append(("infer_shape", dict(rsig, clause="infer_shape"),
                        "input shape %r -> output shape %r with learning phase 0" %
                        (list(xin.shape), list(y0.shape)), mini(phases=[0])))
          continue
        if not np.array_equal(y0, y0b, equal_nan=True):
          j = int(np.nonzero(~((y0 == y0b) | (np.isnan(y0) & np.isnan(y0b))).reshape(-1))[0][0])
          fails.append(("infer_deterministic", dict(rsig, clause="infer_deterministic",
                                                    after_training=bool(1 in phases[:step])),
                        "x=%r -> %r then %r with learning phase 0" %
                        (xin.reshape(-1)[j], y0.reshape(-1)[j], y0b.reshape(-1)[j]),
                        mini(j, phases=phases[:step + 1] if 1 in phases[:step] else [0])))
        if not np.array_equal(y0, yt, equal_nan=True):
          j = int(np.nonzero(~((y0 == yt) | (np.isnan(y0) & np.isnan(yt))).reshape(-1))[0][0])
          fails.append(("infer_equals_nearest", dict(rsig, clause="infer_equals_nearest",
                                                     after_training=bool(1 in phases[:step])),
                        "x=%r -> %r, round-to-nearest twin gives %r" %
                        (xin.reshape(-1)[j], y0.reshape(-1)[j], yt.reshape(-1)[j]),
                        mini(j, phases=phases[:step + 1] if 1 in phases[:step] else [0])))
  finally:
    core.reset_globals()
    if _MODELS[0] >= 40:
      _MODELS[0] = 0
      _tf().keras.backend.clear_session()
  labels += [k for k, v in stats.items() if v]
  if case.get("zero_channel"):
    labels.append("zero_channel")
  if case.get("probe"):
    labels.append("threshold_probe")
  if fam == "po2" and cfg["kw"].get("quadratic_approximation"):
    labels.append("po2_quad")
  if fam == "fixed" and cfg["kw"].get("bits", 0) >= 16:
    labels.append("wide_format")
  nontrivial = stats.get("interior", False) and (stats.get("exact_code", False) or
                                                 fam in ("sign", "auto"))
  return fails, labels, nontrivial


# ---------------------------------------------------------------------------
# case construction


SCHEDULES = [[1, 0], [0, 1], [1, 0, 1], [0, 1, 0], [1, 1, 0]]


def _cfg_pools(tier):
  ftrain, finfer, excl = S.fixed_cfgs(tier)
  by = {}
  for c in ftrain:
    by.setdefault(c["cls"], []).append(c)
  wide = S.wide_cfgs()
  for c in wide:
    by.setdefault(c["cls"], []).append(c)      # also drawn by Hypothesis
  return {"fixed": by, "fixed_infer_only": finfer, "po2": S.po2_cfgs(tier), "wide": wide,
          "sign": S.sign_cfgs(tier), "auto": S.auto_cfgs(tier), "excluded": excl}


# usage routes of the deterministic part: per class one entry of each group
# (the entry rotates with the class): repeated executions of a traced object,
# explicit flag True, explicit flag False, no flag; eager repetitions for the
# grid families
ROUTE_GROUPS = [
    [("function", None, "calls"), ("layer_function", True, "calls"),
     ("model_predict", None, "calls"), ("layer_function", False, "calls")],
    [("layer", True, "tiled"), ("model_call", True, "tiled"),
     ("layer_function", True, "tiled")],
    [("layer", False, "tiled"), ("model_call", False, "tiled"),
     ("layer_function", False, "tiled")],
    [("layer", None, "tiled"), ("function", None, "tiled"), ("model_call", None, "tiled"),
     ("model_predict", None, "tiled")],
    [("direct", None, "calls")]]
# Hypothesis: weights favour the traced routes for repeated executions (cheap per
# execution); eager layer/model executions are taken as one tiled call
ROUTES_HYP = ([("function", None, "calls")] * 3 + [("layer_function", None, "calls"),
                                                   ("layer_function", True, "calls"),
                                                   ("layer_function", False, "calls"),
                                                   ("model_predict", None, "calls"),
                                                   ("direct", None, "calls"),
                                                   ("layer", True, "calls"),
                                                   ("model_call", False, "calls")] +
              [(v, t, "tiled") for v in ("layer", "layer_function", "model_call")
               for t in (None, True, False)] +
              [("function", None, "tiled"), ("model_predict", None, "tiled")])


def _mk_route(ctx, via, tr, draws, rows=1, cfg=None):
  if cfg is not None and S.codes_depend_on_draw(cfg):
    draws = "tiled"       # every execution has its own code set (see ASSUMPTIONS)
  r = {"via": via, "training": tr, "draws": draws}
  if draws == "calls":
    r.update(rows=int(rows), calls=NCALLS[ctx.tier])
  return r


def _route_walk(ctx, pools):
  """Every class of every family through one route of every group (the entry of
  the group and the configuration advance with the class / the group)."""
  out = []
  groups = [("fixed", cls, pools["fixed"][cls]) for cls in sorted(pools["fixed"])]
  for fam in ("po2", "sign", "auto"):
    by = {}
    for c in pools[fam]:
      if fam == "sign" and not S.sign_trainable(c):
        continue
      by.setdefault(c["cls"], []).append(c)
    groups += [(fam, cls, by[cls]) for cls in sorted(by)]
  for g, (fam, cls, lst) in enumerate(groups):
    for i, grp in enumerate(ROUTE_GROUPS):
      via, tr, draws = grp[(g + i) % len(grp)]
      if (via, draws) == ("direct", "calls") and (fam in ("sign", "auto") or g % 2):
        continue            # eager repetitions cost 3-10 ms each; traced ones stay
      cfg = lst[(g + i * 7) % len(lst)]
      case = {"fam": fam, "cfg": cfg, "phases": SCHEDULES[(g + i) % len(SCHEDULES)],
              "route": _mk_route(ctx, via, tr, draws, rows=(1, 2, 4)[(g + i) % 3], cfg=cfg)}
      if fam == "fixed":
        case["xs"] = S.fixed_walk(cfg, n_elems=12)
      elif fam == "po2":
        case["xs"] = S.po2_walk(cfg)
      else:
        t = S.sign_walk(cfg) if fam == "sign" else S.auto_walk(cfg)
        case.update(xs=t["xs"], shape=t["shape"])
      out.append(case)
  return out


def _walk_cases(ctx, pools):
  n = NDRAWS[ctx.tier]
  out = []
  stride = 12 if ctx.quick else 2
  i = 0
  for cls in sorted(pools["fixed"]):
    lst = pools["fixed"][cls]
    # every variant at least once, then every stride-th configuration
    seen = set()
    for k, cfg in enumerate(lst):
      v = S.fixed_variant(cfg)
      if k % stride == 0 or v not in seen:
        seen.add(v)
        out.append({"fam": "fixed", "cfg": cfg, "xs": S.fixed_walk(cfg),
                    "phases": SCHEDULES[i % len(SCHEDULES)]})
        i += 1
  for k, cfg in enumerate(pools["fixed_infer_only"]):
    if k % (6 if ctx.quick else 1) == 0:
      m = G.model(cfg)
      t = np.array([-3.0, -1.5, -0.5, 0.0, 0.25, 0.5, 1.0, 1.5, 2.5, m["kmax"], m["kmax"] + 2.0])
      out.append({"fam": "fixed", "cfg": cfg, "xs": [float(v) for v in S.fixed_inv(m, t)],
                  "phases": [0], "train": False})
  for k, cfg in enumerate(pools["po2"]):
    if k % (3 if ctx.quick else 1) == 0:
      out.append({"fam": "po2", "cfg": cfg, "xs": S.po2_walk(cfg),
                  "phases": SCHEDULES[k % len(SCHEDULES)]})
  for k, cfg in enumerate(pools["sign"]):
    t = S.sign_walk(cfg)
    out.append({"fam": "sign", "cfg": cfg, "xs": t["xs"], "shape": t["shape"],
                "phases": SCHEDULES[k % len(SCHEDULES)] if S.sign_trainable(cfg) else [0],
                "train": S.sign_trainable(cfg), "flat_infer": bool(k % 3 == 1)})
  # inference: probes at and around every decision threshold (0.33, 1/3, explicit
  # thresholds, 0) for every sign-type configuration, as a column and as a vector
  for k, cfg in enumerate(pools["sign"]):
    pr = S.threshold_probes(cfg)
    out.append({"fam": "sign", "cfg": cfg, "xs": pr,
                "shape": [len(pr), 1] if k % 2 else [len(pr)], "phases": [0],
                "train": False, "probe": True})
  # binary(use_stochastic_rounding) in training on all-zero and all-denormal
  # channels next to a normal one (region of the repaired C08-KF3/KF3b)
  zcols = [[0.0, 0.0, 0.0, 0.0], [1e-40, 0.0, -1.401298464324817e-45, 1e-42],
           [0.75, -0.004, 0.2, -1.5]]
  for k, cfg in enumerate([c for c in pools["sign"] if c["cls"] == "binary"]):
    xs_ = [float(np.float32(zcols[ch][r])) for r in range(4) for ch in range(3)]
    out.append({"fam": "sign", "cfg": cfg, "xs": xs_, "shape": [4, 3],
                "phases": SCHEDULES[k % len(SCHEDULES)], "zero_channel": True})
  # wide formats: exact codes with large indices, drawn n times each
  for k, cfg in enumerate(pools["wide"]):
    out.append({"fam": "fixed", "cfg": cfg, "xs": S.wide_walk(cfg),
                "phases": SCHEDULES[k % len(SCHEDULES)], "wide": True})
  # binary(use_stochastic_rounding) at inference over every rank / last-dimension
  # class (regression domain of the fixed C08-KF2/KF2b)
  bshapes = [[6], [1], [3, 1], [2, 4], [4, 2], [5, 5], [2, 2, 2], [2, 3, 1], [3, 2, 3],
             [2, 2, 3], [2, 1, 2, 4], [1, 2, 2, 1], [2, 1, 3, 2], [1, 1, 1, 5]]
  vals = [0.5, -0.25, 0.0, 1.5, -1.0, 0.125, -0.0, 2.0, -0.75, 0.03, 1.0, -3.0]
  for k, cfg in enumerate([c for c in pools["sign"] if c["cls"] == "binary"]):
    for j, shp in enumerate(bshapes):
      nel = int(np.prod(shp))
      xs_ = [float(vals[(i * 5 + j + k) % len(vals)]) for i in range(nel)]
      out.append({"fam": "sign", "cfg": cfg, "xs": xs_, "shape": shp, "phases": [0],
                  "train": False})
  for k, cfg in enumerate(pools["auto"]):
    if k % (2 if ctx.quick else 1) == 0:
      t = S.auto_walk(cfg)
      out.append({"fam": "auto", "cfg": cfg, "xs": t["xs"], "shape": t["shape"],
                  "phases": SCHEDULES[k % len(SCHEDULES)]})
  out += _route_walk(ctx, pools)
  for j, c in enumerate(out):
    c["n"] = n
    c["tf_seed"] = int((core.jhash([c["cfg"], j]) + ctx.seed * 7919) % (2 ** 31 - 10000))
  return out


def _strategy(ctx, pools):
  from hypothesis import strategies as st  # pylint: disable=g-import-not-at-top
  n = NDRAWS[ctx.tier]
  classes = sorted(pools["fixed"])

  @st.composite
  def case_st(draw):
    fam = draw(st.sampled_from(["fixed", "fixed", "fixed", "fixed", "po2", "po2", "sign",
                                "sign", "sign", "auto"]))
    case = {"fam": fam, "n": n,
            "tf_seed": draw(st.integers(0, 2 ** 31 - 10000)),
            "phases": draw(st.sampled_from(SCHEDULES))}
    if fam == "fixed":
      cls = draw(st.sampled_from(classes))
      cfg = draw(st.sampled_from(pools["fixed"][cls]))
      case["cfg"] = cfg
      case["xs"] = draw(S.fixed_elems_strategy(cfg))
    elif fam == "po2":
      cfg = draw(st.sampled_from(pools["po2"]))
      case["cfg"] = cfg
      case["xs"] = draw(S.po2_elems_strategy(cfg))
    elif fam == "auto":
      cfg = draw(st.sampled_from(pools["auto"]))
      t = draw(S.auto_tensor_strategy(cfg))
      case.update(cfg=cfg, xs=t["xs"], shape=t["shape"])
    else:
      cfg = draw(st.sampled_from(pools["sign"]))
      t = draw(S.sign_tensor_strategy(cfg))
      case.update(cfg=cfg, xs=t["xs"], shape=t["shape"],
                  zero_channel=t["zero_channel"],
                  flat_infer=draw(st.booleans()))
      if not S.sign_trainable(cfg):
        case["train"] = False
        case["phases"] = [0]
    if draw(st.integers(0, 2)) == 0:
      via, tr, draws = draw(st.sampled_from(ROUTES_HYP))
      if draws == "calls" and not case.get("train", True):
        draws = "tiled"
      case["route"] = _mk_route(ctx, via, tr, draws, rows=draw(st.sampled_from([1, 1, 2, 4])),
                                cfg=case["cfg"])
    return case
  return case_st()


def _run_case(ctx, case, label):
  fails, labels, nontrivial = oracle(case)
  ctx.tick(case, labels=[label] + labels, nontrivial=nontrivial)
  return fails


def run(ctx):
  pools = _cfg_pools(ctx.tier)
  if ctx.idx == 0:
    ctx.info["fixed_cfgs_excluded_c01_kf2"] = pools["excluded"]
    ctx.info["n_draws"] = NDRAWS[ctx.tier]
  walks = _walk_cases(ctx, pools)
  if ctx.idx == 0:
    ctx.info["walk_cases"] = len(walks)
  for case in ctx.shard(walks):
    if ctx.time_left() <= 0:
      ctx.labels["inconclusive_time"] += 1
      break
    for sc, sig, det, mc in _run_case(ctx, case, "walk"):
      ctx.fail(sc, sig, mc, det)

  def orc(case):
    return [(sc, sig, det) for sc, sig, det, _ in _run_case(ctx, case, "hyp")]

  # Hypothesis in chunks so that the soft budget is honoured with a granularity
  # of one chunk (each chunk has its own derived seed); the number of chunks is
  # fixed, so a run that is not cut by the budget is a function of VERIF_SEED.
  total = (4800 if ctx.quick else 24000) // ctx.n + 1
  chunk = 12
  strat = _strategy(ctx, pools)
  done = 0
  k = 0
  while done < total:
    if ctx.time_left() <= 0:
      ctx.labels["inconclusive_time"] += 1
      ctx.info["hyp_examples_not_run"] = ctx.info.get("hyp_examples_not_run", 0) + (total - done)
      break
    core.hyp_run(ctx, strat, orc, min(chunk, total - done), name="c08_%d" % k)
    ctx.info.pop("hyp_rounds_c08_%d" % k, None)
    done += chunk
    k += 1


def replay(ctx, case):
  fails, labels, nontrivial = oracle(case)
  ctx.tick(case, labels=["replay"] + labels, nontrivial=nontrivial)
  for sc, sig, det, _ in fails:
    ctx.fail(sc, sig, case, det)
