"""C12 - model_quantize converts exactly what the configuration names and
nothing else; source model / dictionaries untouched; weight transfer.

Oracle: vf/ref/convert.py (independent restatement of the documented rules on
the model *description*) + expected quantizers obtained by constructing the
target Q-layer class directly with the configured strings.
"""
import copy
import hashlib
import json
import re

import numpy as np

from vf import core
from vf.gen import kmodels as KM
from vf.gen import qdict as QD
from vf.ref import convert as REF

RULE = ("case = (plain Keras model description: Sequential or functional DAG "
        "with Add/Concatenate/Multiply (squeeze-excite blocks), pooling layers "
        "with keepdims / data_format options, <= 8 layers, explicit weights) x (quantization "
        "dictionary generated from that model: name / class / both / partial "
        "entries, activation strings or maps) x activation_bits 2..8 x "
        "transfer_weights x prefer_qadaptiveactivation x custom_objects form. "
        "Deterministic part: every convertible layer class alone x selection "
        "mode (none, class, name, name-over-class, partial name entry hiding a "
        "class entry) x use_bias. Non-trivial = the reference converter expects "
        "at least one layer to be converted and at least one non-input layer to "
        "stay as it was; distinct by hash of the whole case.")
ASSUMPTIONS = [
    "checks run under TF_USE_LEGACY_KERAS=1 (tf_keras), enable_bn_folding=False",
    "all comparisons are exact (class names, strings, JSON-normalised configs, "
    "np.array_equal on weights); no tolerance is used",
    "expected quantizer strings / configs come from constructing the target "
    "Q-layer class directly with the configured strings, never from "
    "model_quantize",
    "dictionary forms the documentation leaves open are not generated: "
    "separable entries carry both depthwise and pointwise roles or neither; "
    "QActivation and QAdaptiveActivation class entries cover the same names; "
    "inner layers of Bidirectional are not addressed by name; "
    "QAdaptiveActivation entries are quantized_relu(<bits>)/quantized_bits(<bits>)",
    "a name entry hides the class entry completely (lookup rule of DESIGN.md "
    "5/C12): a name entry without the primary role leaves the layer unchanged",
    "environment limits: GRU generated with reset_after=False (QGRU needs "
    "array_ops.unstack otherwise), Conv2DTranspose only as an unselected layer",
    "ReLU/LeakyReLU -> QActivation drops max_value/negative_slope/threshold/"
    "alpha as documented ('quantized relu's are always upper bounded'); only "
    "name/trainable/dtype are compared for those layers",
    "quick tier: the deterministic enumeration may use at most 60% of the "
    "per-worker budget (cases ordered class-entry / no-entry first), the random "
    "part runs in chunks of 30 Hypothesis examples until the budget ends; "
    "whatever is cut is counted under inconclusive_time, never as a failure",
    "an exception of model_quantize is attributed to the first selected layer "
    "that reproduces it alone in a one-layer model (src_cls of the signature), "
    "failing that to the first selected layer whose one-layer model converts "
    "to another output shape",
    "hyper-parameters are compared on the keys the quantized class exposes in "
    "get_config(); initializer/constraint/regularizer keys that the Q class "
    "derives from the quantizers are compared against the directly "
    "constructed reference layer instead of the source layer",
]
BUDGET_S = {"quick": 50, "thorough": 840}
REQUIRED_LABELS = {
    "quick": ["lattice", "hyp", "functional", "sequential", "merge",
              "name_over_class", "sel:QDense", "sel:QConv2D", "sel:QConv1D",
              "sel:QDepthwiseConv2D", "sel:QLSTM", "sel:QSimpleRNN",
              "sel:QBidirectional", "sel:QActivation",
              "sel:QAdaptiveActivation", "sel:QBatchNormalization",
              "sel:QAveragePooling2D", "sel:QGlobalAveragePooling2D",
              "unsel:Dense", "unsel:Conv2D", "unsel:Activation",
              "unsel:BatchNormalization", "biasless_selected", "act:auto",
              "act:configured", "act:untouched", "transfer", "no_transfer",
              "hidden_by_name_entry", "checked_ok"],
}
REQUIRED_LABELS["quick"] += ["sel:QGRU", "sel:QBidirectional:QGRU",
                             "src:LeakyReLU->QActivation",
                             "lstm_no_unit_forget_bias", "rnn_no_recurrent_q",
                             "bn_selected_by_empty_name_entry",
                             "bn_selected_by_empty_class_entry",
                             "hidden_by_empty_name_entry",
                             "bidi_explicit_backward",
                             "bidi_explicit_backward_other_class",
                             "act:untouched_other", "act:untouched_lookalike"]
REQUIRED_LABELS["quick"] += ["gap_keepdims_selected", "gap_keepdims_unselected",
                             "gap_channels_first_selected",
                             "pool_channels_first_selected", "se_block"]
REQUIRED_LABELS["thorough"] = REQUIRED_LABELS["quick"] + [
    "unsel:LSTM", "unsel:Bidirectional", "two_outputs"]

QUANT_KEY_SUFFIX = ("_quantizer", "_constraint", "_initializer", "_range",
                    "_regularizer")
QUANT_KEYS = ("activation", "recurrent_activation", "total_bits")

ROLE_NAMES = {
    "QDense": ["kernel", "bias"], "QConv1D": ["kernel", "bias"],
    "QConv2D": ["kernel", "bias"], "QDepthwiseConv2D": ["depthwise", "bias"],
    "QSeparableConv1D": ["depthwise", "pointwise", "bias"],
    "QSeparableConv2D": ["depthwise", "pointwise", "bias"],
    "QSimpleRNN": ["kernel", "recurrent", "bias", "state"],
    "QLSTM": ["kernel", "recurrent", "bias", "state"],
    "QGRU": ["kernel", "recurrent", "bias", "state"],
    "QBidirectional": ["fw_kernel", "fw_recurrent", "fw_bias", "fw_state",
                       "bw_kernel", "bw_recurrent", "bw_bias", "bw_state"],
    "QBatchNormalization": ["gamma", "beta", "mean", "variance", "inverse"],
    "QAveragePooling2D": ["average"], "QGlobalAveragePooling2D": ["average"],
}


# --------------------------------------------------------------------------
# normalisation helpers


def _ser(o):
  if isinstance(o, (np.floating, np.integer)):
    return o.item()
  if isinstance(o, np.ndarray):
    return o.tolist()
  if hasattr(o, "get_config") and not isinstance(o, type):
    try:
      return {"__obj__": type(o).__name__, "config": o.get_config()}
    except Exception:  # pylint: disable=broad-except
      return {"__obj__": type(o).__name__, "str": str(o)}
  if hasattr(o, "__name__"):
    return {"__fn__": o.__name__}
  try:
    return list(o)
  except TypeError:
    return str(o)


def norm(o):
  return json.loads(json.dumps(o, sort_keys=True, default=_ser))


def digest(o):
  return hashlib.blake2b(json.dumps(o, sort_keys=True, default=_ser).encode(),
                         digest_size=12).hexdigest()


def weights_digest(model):
  h = hashlib.blake2b(digest_size=12)
  for w in model.get_weights():
    a = np.ascontiguousarray(w)
    h.update(str(a.shape).encode())
    h.update(str(a.dtype).encode())
    h.update(a.tobytes())
  return h.hexdigest()


def act_id(a):
  """Printable identity of an activation attribute."""
  if a is None:
    return "linear"
  if isinstance(a, str):
    return a
  if hasattr(a, "__name__") and not hasattr(a, "get_config"):
    return a.__name__
  return str(a)


def qstrings(layer):
  return [None if q is None else str(q) for q in layer.get_quantizers()]


def is_quant_key(k):
  return k in QUANT_KEYS or k.endswith(QUANT_KEY_SUFFIX)


def topology(model):
  """{layer name: [inbound layer names]} read from the model's own config."""
  cfg = model.get_config()
  out = {}
  if type(model).__name__ == "Sequential":
    prev = KM.INPUT_NAME
    for lc in cfg["layers"]:
      if lc["class_name"] == "InputLayer":
        continue
      out[lc["config"]["name"]] = [prev]
      prev = lc["config"]["name"]
    return out, None
  for lc in cfg["layers"]:
    if lc["class_name"] == "InputLayer":
      continue
    names = []

    def walk(x):
      if isinstance(x, (list, tuple)):
        if (len(x) >= 3 and isinstance(x[0], str) and
            isinstance(x[1], int) and isinstance(x[2], int)):
          names.append(x[0])
          return
        for y in x:
          walk(y)

    walk(lc["inbound_nodes"])
    out[lc["name"]] = names
  io = {"inputs": norm(cfg["input_layers"]), "outputs": norm(cfg["output_layers"])}
  return out, io


# --------------------------------------------------------------------------
# the oracle


def _custom_objects(kind):
  if kind == "none":
    return None
  if kind == "empty":
    return {}
  import tensorflow as tf  # pylint: disable=g-import-not-at-top
  return {"aux_table": {"a": [1, 2, 3], "b": {"c": 4}},
          "aux_fn": tf.nn.relu6}


def _co_snapshot(co):
  if co is None:
    return None
  return {k: (("id", id(v)) if callable(v) else ("val", copy.deepcopy(v)))
          for k, v in co.items()}


def _attribute(case, model, pl, sig0):
  """Which single selected layer reproduces the exception on its own."""
  import tensorflow as tf  # pylint: disable=g-import-not-at-top
  from qkeras.utils import model_quantize  # pylint: disable=g-import-not-at-top
  culprits, shape_changer = [], None
  for ld in case["model"]["layers"]:
    if len(ld["in"]) != 1 or not pl[ld["name"]]["selected"]:
      continue
    try:
      shp = model.get_layer(ld["name"]).input_shape
      if isinstance(shp, list):
        continue
      xi = tf.keras.Input(shape=tuple(shp[1:]), name=KM.INPUT_NAME)
      sub = tf.keras.Model(xi, KM.make_layer(ld)(xi))
    except Exception:  # pylint: disable=broad-except
      continue
    try:
      qsub = model_quantize(sub, copy.deepcopy(case["qdict"]),
                            case["activation_bits"],
                            prefer_qadaptiveactivation=case.get(
                                "prefer_adaptive", False))
    except Exception as e2:  # pylint: disable=broad-except
      s2 = core.exc_signature(e2)
      if s2 == sig0:
        culprits.append(ld)
        break       # first culprit in layer order (deterministic)
    else:
      # converts alone, but with another output shape: the layers behind it
      # are the ones that cannot be rebuilt
      if shape_changer is None and norm(qsub.output_shape) != norm(
          sub.output_shape):
        shape_changer = ld
  return culprits[0] if culprits else shape_changer


def case_labels(case, pl, origin):
  """Coverage labels of a case (pure python, from the description and the
  reference plan) and its non-triviality."""
  desc, qd = case["model"], case["qdict"]
  prefer = bool(case.get("prefer_adaptive", False))
  transfer = bool(case.get("transfer", False))
  labels = [origin, desc["api"], "rank%d" % (len(desc["input_shape"]) + 1),
            "layers:%d" % len(desc["layers"])]
  if any(ld["cls"] in KM.MERGES for ld in desc["layers"]):
    labels.append("merge")
  if any(ld["cls"] == "Multiply" for ld in desc["layers"]):
    labels.append("se_block")
  if len(desc.get("outputs", [])) > 1:
    labels.append("two_outputs")
  labels.append("transfer" if transfer else "no_transfer")
  if prefer:
    labels.append("prefer_adaptive")
  n_sel = n_unsel = 0
  for ld in desc["layers"]:
    p = pl[ld["name"]]
    # constructor options of the pooling / flatten layers that decide the
    # output shape (keepdims, data_format)
    how = "selected" if p["selected"] else "unselected"
    if ld["cls"] == "GlobalAveragePooling2D":
      if ld["kw"].get("keepdims"):
        labels.append("gap_keepdims_" + how)
      if ld["kw"].get("data_format") == "channels_first":
        labels.append("gap_channels_first_" + how)
    elif ld["cls"] in ("AveragePooling2D", "MaxPooling2D", "Flatten"):
      if ld["kw"].get("data_format") == "channels_first":
        labels.append("%s_channels_first_%s" % (
            "flatten" if ld["cls"] == "Flatten" else "pool", how))
    if p["selected"]:
      n_sel += 1
      labels.append("sel:" + p["cls"])
      if p["cls"] == "QBidirectional":
        labels.append("sel:QBidirectional:" + p["inner"]["cls"])
        if "inner_bw" in p:
          labels.append("bidi_explicit_backward")
          if p["inner_bw"]["cls"] != p["inner"]["cls"]:
            labels.append("bidi_explicit_backward_other_class")
      labels.append("by:" + str(p["by"]))
      if "bias_quantizer" in p["roles"] and not ld["kw"].get("use_bias", True):
        labels.append("biasless_selected")
      a = p.get("activation") or (p.get("inner") or {}).get("activation")
      if a:
        labels.append("act:" + a[0])
        if a[0] == "untouched" and a[1] not in (None, "linear", "softmax"):
          labels.append("act:untouched_other")
          if str(a[1]).endswith(("relu", "tanh", "sigmoid")) or str(
              a[1]).startswith(("relu", "tanh", "sigmoid")):
            labels.append("act:untouched_lookalike")
      if REF.contested(ld, qd):
        labels.append("name_over_class")
      if ld["cls"] == "BatchNormalization":
        ent = qd[ld["name"]] if ld["name"] in qd else qd.get(
            "QBatchNormalization")
        if ent == {}:
          labels.append("bn_selected_by_empty_%s_entry" % p["by"])
      if ld["cls"] == "LeakyReLU":
        labels.append("src:LeakyReLU->QActivation")
      pr = p.get("inner", p)
      if "recurrent_quantizer" in pr["roles"] and not pr["roles"][
          "recurrent_quantizer"]:
        labels.append("rnn_no_recurrent_q")
      ikw = ld["kw"]["layer"]["kw"] if ld["cls"] == "Bidirectional" else ld["kw"]
      if pr["cls"] == "QLSTM" and ikw.get("unit_forget_bias") is False:
        labels.append("lstm_no_unit_forget_bias")
    else:
      n_unsel += 1
      labels.append("unsel:" + ld["cls"])
      if ld["name"] in qd and REF.contested(ld, qd):
        labels.append("hidden_by_name_entry")
        if qd[ld["name"]] == {}:
          labels.append("hidden_by_empty_name_entry")
  return labels, (n_sel > 0 and n_unsel > 0)



def oracle(ctx, case, origin="hyp"):
  """Returns [(sub_check, signature, detail)] and ticks once."""
  import tensorflow as tf  # pylint: disable=g-import-not-at-top
  from qkeras.utils import model_quantize  # pylint: disable=g-import-not-at-top

  tf.keras.backend.clear_session()
  core.reset_globals()
  desc, qd = case["model"], case["qdict"]
  bits = case["activation_bits"]
  prefer = bool(case.get("prefer_adaptive", False))
  transfer = bool(case.get("transfer", False))
  fails = []
  seen = set()

  def fail(sc, sig, detail):
    k = core.fkey(sc, sig)
    if k not in seen:
      seen.add(k)
      fails.append((sc, sig, detail))

  # ---- expectation (pure python) and source model (harness errors propagate)
  pl = REF.plan(desc, qd, bits, prefer)
  model = KM.build(desc)
  lidx = KM.layer_index(desc)

  labels, nontrivial = case_labels(case, pl, origin)

  # ---- snapshots for the non-mutation clauses
  src_cfg_before = digest(model.get_config())
  src_w_before = weights_digest(model)
  src_weights = {l.name: [np.array(w) for w in l.get_weights()]
                 for l in model.layers}
  qd_arg = copy.deepcopy(qd)
  co = _custom_objects(case.get("custom_objects", "none"))
  co_before = _co_snapshot(co)

  # ---- the call under test
  try:
    qm = model_quantize(model, qd_arg, bits, custom_objects=co,
                        transfer_weights=transfer,
                        prefer_qadaptiveactivation=prefer)
  except Exception as e:  # pylint: disable=broad-except
    sig = core.exc_signature(e)
    culprit = _attribute(case, model, pl, sig)
    sig = dict(sig, src_cls=culprit["cls"] if culprit else "?")
    if isinstance(e, KeyError):
      sig["key"] = str(e)[:40]
    inl = re.findall(r"\(type (\w+)\)", str(e))
    if inl:
      cells = [x for x in inl if x.endswith("Cell")]
      sig["in_layer"] = (cells or inl)[0]   # innermost layer Keras names
    if culprit is not None:
      cp = pl[culprit["name"]]
      cp = cp.get("inner", cp)
      if "recurrent_quantizer" in cp.get("roles", {}):
        sig["recurrent_q"] = ("set" if cp["roles"]["recurrent_quantizer"]
                              else "unset")
    fail("convert_raises", sig, repr(e)[:400])
    qm = None
  finally:
    core.reset_globals()

  # ---- non-mutation (also after an exception)
  if digest(model.get_config()) != src_cfg_before:
    fail("source_mutated", {"what": "model_config"}, "model.get_config() changed")
  if weights_digest(model) != src_w_before:
    fail("source_mutated", {"what": "model_weights"}, "model.get_weights() changed")
  if qd_arg != qd:
    fail("source_mutated", {"what": "quantizer_config"},
         "dictionary after call: %r" % (qd_arg,))
  if co is not None and _co_snapshot(co) != co_before:
    fail("source_mutated", {"what": "custom_objects"},
         "custom_objects keys after call: %r" % sorted(co.keys()))

  if qm is None:
    ctx.tick(case, labels=labels + ["raised"], nontrivial=nontrivial)
    return fails

  # ---- structure
  structure_ok = True
  if type(qm).__name__ != type(model).__name__:
    fail("structure", {"clause": "model_class"},
         "%s -> %s" % (type(model).__name__, type(qm).__name__))
  src_names = [l.name for l in model.layers]
  q_names = [l.name for l in qm.layers]
  if len(q_names) != len(src_names):
    fail("structure", {"clause": "n_layers"}, "%r -> %r" % (src_names, q_names))
    structure_ok = False
  elif q_names != src_names:
    fail("structure", {"clause": "layer_names"}, "%r -> %r" % (src_names, q_names))
    structure_ok = False
  if structure_ok:
    topo, io = topology(qm)
    exp_topo = KM.expected_inbound(desc)
    for name, ins in exp_topo.items():
      got = topo.get(name)
      if got is None or sorted(got) != sorted(ins) or (
          lidx[name]["cls"] == "Concatenate" and got != ins):
        fail("structure", {"clause": "inbound", "src_cls": lidx[name]["cls"]},
             "layer %s inbound %r, expected %r" % (name, got, ins))
    if io is not None:
      _, io_src = topology(model)
      if io != io_src:
        fail("structure", {"clause": "model_io"}, "%r -> %r" % (io_src, io))
    if norm(qm.output_shape) != norm(model.output_shape):
      fail("structure", {"clause": "model_output_shape"},
           "%r -> %r" % (model.output_shape, qm.output_shape))
    if norm(qm.input_shape) != norm(model.input_shape):
      fail("structure", {"clause": "model_input_shape"},
           "%r -> %r" % (model.input_shape, qm.input_shape))

  # ---- per layer
  if structure_ok:
    for sl, ql in zip(model.layers, qm.layers):
      if sl.name not in lidx:
        continue        # InputLayer
      ld, p = lidx[sl.name], pl[sl.name]
      got_cls = type(ql).__name__
      base = {"src_cls": ld["cls"]}
      if norm(ql.output_shape) != norm(sl.output_shape):
        fail("structure", dict(base, clause="output_shape"),
             "layer %s: %r -> %r" % (sl.name, sl.output_shape, ql.output_shape))
      if got_cls != p["cls"]:
        if p["selected"]:
          kind = "left_unconverted" if got_cls == ld["cls"] else "wrong_class"
        else:
          kind = "converted_unselected"
        fail("class", dict(base, expected=p["cls"], got=got_cls, kind=kind),
             "layer %s (%s, decided by %s entry): expected %s, got %s" %
             (sl.name, ld["cls"], p["by"], p["cls"], got_cls))
        continue
      scfg, qcfg = norm(sl.get_config()), norm(ql.get_config())
      if not p["selected"]:
        if scfg != qcfg:
          keys = sorted(k for k in set(scfg) | set(qcfg)
                        if scfg.get(k, "<absent>") != qcfg.get(k, "<absent>"))
          fail("unselected_changed", dict(base, key=keys[0]),
               "layer %s config keys changed: %r" % (sl.name, keys))
        _check_weights(fail, sl, ql, src_weights, transfer, base)
        continue
      # selected: compare with the directly constructed reference layer
      inner_cfg = bw_cfg = None
      if ld["cls"] == "Bidirectional":
        inner_cfg = sl.forward_layer.get_config()
        bw_cfg = sl.backward_layer.get_config()
      ref = REF.ref_layer(ld, p, src_cfg=sl.get_config(),
                          inner_src_cfg=inner_cfg,
                          input_shape=sl.input_shape, bw_src_cfg=bw_cfg)
      rcfg = norm(ref.get_config())
      qbase = {"q_cls": p["cls"], "by": p["by"]}
      # quantizer strings per role
      if p["cls"] in ("QActivation", "QAdaptiveActivation"):
        exp_q, got_q = [str(ref.quantizer)], [str(ql.quantizer)]
        roles = ["activation"]
      else:
        exp_q = qstrings(ref)
        try:
          got_q = qstrings(ql)
        except Exception as e:  # pylint: disable=broad-except
          fail("quantizers", dict(qbase, role="*", kind="unreadable"),
               "layer %s get_quantizers(): %r" % (sl.name, e))
          got_q = None
        roles = ROLE_NAMES.get(p["cls"], [])
      if got_q is not None:
        if len(got_q) != len(exp_q):
          fail("quantizers", dict(qbase, role="*", kind="count"),
               "layer %s: %r vs expected %r" % (sl.name, got_q, exp_q))
        else:
          for j, (g, x) in enumerate(zip(got_q, exp_q)):
            if g != x:
              role = roles[j] if j < len(roles) else "q%d" % j
              kind = ("missing" if g is None else
                      "unexpected" if x is None else "different")
              fail("quantizers", dict(qbase, role=role, kind=kind),
                   "layer %s role %s: got %r, expected %r (entry by %s)" %
                   (sl.name, role, g, x, p["by"]))
      # activation roles
      if p["cls"] == "QBidirectional":
        pairs = []
        for pre, pd, qsub, rsub in (
            ("fw_", p["inner"], ql.forward_layer, ref.forward_layer),
            ("bw_", p.get("inner_bw", p["inner"]), ql.backward_layer,
             ref.backward_layer)):
          for attr in ("activation", "recurrent_activation"):
            if pd.get(attr) is not None:
              pairs.append((pre + attr, pd[attr], getattr(qsub, attr, None),
                            getattr(rsub, attr, None)))
      else:
        pairs = [(attr, p[attr], getattr(ql, attr, None),
                  getattr(ref, attr, None))
                 for attr in ("activation", "recurrent_activation")
                 if p.get(attr) is not None]
      for role, spec, g, x in pairs:
        if act_id(g) != act_id(x):
          fail("activation", dict(qbase, role=role, source=spec[0]),
               "layer %s %s: got %s, expected %s (%s %r, activation_bits=%d)"
               % (sl.name, role, act_id(g), act_id(x), spec[0], spec[1], bits))
      # configs: hyper-parameters against the source layer, quantization-
      # related keys against the reference layer
      dropped = ()
      if ld["cls"] in ("ReLU", "LeakyReLU"):
        dropped = ("max_value", "negative_slope", "threshold", "alpha")
      hbase = {"q_cls": p["cls"]}
      _compare_cfg(fail, hbase, sl.name, "", scfg, qcfg, rcfg, dropped)
      if p["cls"] == "QBidirectional":
        for k in ("layer", "backward_layer"):
          a, b, c = scfg.get(k), qcfg.get(k), rcfg.get(k)
          if not (isinstance(b, dict) and isinstance(c, dict)):
            continue
          if b.get("class_name") != c.get("class_name"):
            fail("class", dict(base, expected=c.get("class_name"),
                               got=b.get("class_name"), kind="wrapped_class"),
                 "layer %s %s class" % (sl.name, k))
            continue
          sc_ = dict((a or {}).get("config", {}))
          qc_, rc_ = dict(b.get("config", {})), dict(c.get("config", {}))
          if k == "backward_layer" and not sc_:
            rc_["name"] = qc_.get("name")   # auto-named by the wrapper
            sc_ = dict(scfg["layer"].get("config", {}))
            sc_.pop("name", None)
            sc_.pop("go_backwards", None)
          _compare_cfg(fail, hbase, sl.name, k + ".", sc_, qc_, rc_, ())
      _check_weights(fail, sl, ql, src_weights, transfer, base)

  if not fails:
    labels.append("checked_ok")
  ctx.tick(case, labels=labels, nontrivial=nontrivial)
  return fails


def _compare_cfg(fail, qbase, lname, prefix, scfg, qcfg, rcfg, dropped):
  for k in sorted(set(scfg) | set(qcfg) | set(rcfg)):
    if k in dropped or k in ("layer", "backward_layer"):
      continue
    q = qcfg.get(k, "<absent>")
    if is_quant_key(k):
      r = rcfg.get(k, "<absent>")
      if q != r:
        fail("quant_config", dict(qbase, key=prefix + k),
             "layer %s %s%s: %r, reference layer has %r" %
             (lname, prefix, k, q, r))
    elif k in scfg:
      # keys the quantized class does not expose cannot be compared
      if k in qcfg and q != scfg[k]:
        fail("hyper", dict(qbase, key=prefix + k),
             "layer %s %s%s: source %r -> %r" % (lname, prefix, k, scfg[k], q))
    elif k in qcfg:
      r = rcfg.get(k, "<absent>")
      if q != r:
        fail("hyper", dict(qbase, key=prefix + k),
             "layer %s %s%s: %r, reference layer has %r" %
             (lname, prefix, k, q, r))


def _check_weights(fail, sl, ql, src_weights, transfer, base):
  if not transfer:
    return
  sw = src_weights[sl.name]
  if not sw:
    return
  qw = ql.get_weights()
  if len(qw) != len(sw):
    fail("weights", dict(base, kind="count"),
         "layer %s: %d weights, source has %d" % (sl.name, len(qw), len(sw)))
    return
  for j, (a, b) in enumerate(zip(sw, qw)):
    if a.shape != b.shape or not np.array_equal(a, b):
      fail("weights", dict(base, kind="differs"),
           "layer %s weight %d differs from the source (transfer_weights=True)"
           % (sl.name, j))
      return


# --------------------------------------------------------------------------
# deterministic part: every class alone x selection mode


def _templates():
  img, seq, vec = [6, 6, 2], [4, 2], [4]
  t = []

  def add(shape, cls, kw, tail):
    t.append((shape, cls, kw, tail))

  conv = {"filters": 3, "kernel_size": [3, 3], "activation": "relu"}
  add(img, "Conv2D", conv, "Flatten")
  add(img, "DepthwiseConv2D", {"kernel_size": [3, 3], "activation": "tanh"},
      "Flatten")
  add(img, "SeparableConv2D", dict(conv), "Flatten")
  add(img, "AveragePooling2D", {"pool_size": [2, 2]}, "Flatten")
  add(img, "GlobalAveragePooling2D", {}, "Dense")
  add(img, "BatchNormalization", {}, "Flatten")
  add(img, "Activation", {"activation": "relu"}, "Flatten")
  add(img, "Activation", {"activation": "softmax"}, "Flatten")
  add(img, "ReLU", {}, "Flatten")
  add(img, "ReLU", {"max_value": 6.0}, "Flatten")
  add(img, "ReLU", {"negative_slope": 0.25}, "Flatten")
  add(img, "LeakyReLU", {"alpha": 0.25}, "Flatten")
  add(seq, "Conv1D", {"filters": 3, "kernel_size": [2],
                      "activation": "sigmoid"}, "Flatten")
  add(seq, "SeparableConv1D", {"filters": 3, "kernel_size": [2]}, "Flatten")
  add(seq, "SimpleRNN", {"units": 2, "activation": "relu"}, "Dense")
  add(seq, "LSTM", {"units": 2}, "Dense")
  add(seq, "LSTM", {"units": 3, "unit_forget_bias": False}, "Dense")
  # input width (2) != units, so a wrong recurrent matrix cannot go unnoticed
  add(seq, "GRU", {"units": 3, "reset_after": False}, "Dense")
  add(seq, "Bidirectional", {"layer": {"name": "inner", "cls": "LSTM",
                                       "kw": {"units": 2}}}, "Dense")
  add(seq, "Bidirectional", {"layer": {"name": "inner", "cls": "GRU",
                                       "kw": {"units": 3, "reset_after": False,
                                              "return_sequences": True}},
                             "merge_mode": "sum"}, "Flatten")
  add(seq, "Bidirectional", {"layer": {"name": "inner", "cls": "LSTM",
                                       "kw": {"units": 1,
                                              "unit_forget_bias": False}}},
      "Dense")
  bwk = {"units": 2, "go_backwards": True}
  add(seq, "Bidirectional", {
      "layer": {"name": "inner", "cls": "LSTM", "kw": {"units": 2}},
      "backward_layer": {"name": "inner_back", "cls": "LSTM", "kw": dict(
          bwk, activation="sigmoid", use_bias=False)}}, "Dense")
  add(seq, "Bidirectional", {
      "layer": {"name": "inner", "cls": "SimpleRNN", "kw": {"units": 2}},
      "backward_layer": {"name": "inner_back", "cls": "GRU", "kw": dict(
          bwk, reset_after=False)}}, "Dense")
  for an in ("hard_sigmoid", "leaky_relu", "relu6", "softsign"):
    add(vec, "Dense", {"units": 3, "activation": an}, "Dense")
  add(img, "Conv2D", dict(conv, activation="hard_sigmoid"), "Flatten")
  add(seq, "SimpleRNN", {"units": 2, "activation": "hard_sigmoid"}, "Dense")
  add(seq, "LSTM", {"units": 2, "activation": "leaky_relu"}, "Dense")
  add(vec, "Dense", {"units": 3, "activation": "relu"}, "Dense")
  add(vec, "Dense", {"units": 3, "activation": "softmax"}, "Dense")
  # the constructor options of the pooling layers that decide the output shape
  add(img, "GlobalAveragePooling2D", {"keepdims": True}, "Flatten")
  add(img, "GlobalAveragePooling2D", {"keepdims": True,
                                      "data_format": "channels_first"}, "Dense")
  add(img, "GlobalAveragePooling2D", {"data_format": "channels_first"}, "Dense")
  add(img, "GlobalAveragePooling2D", {"keepdims": False,
                                      "data_format": "channels_last"}, "Dense")
  add(img, "AveragePooling2D", {"pool_size": [2, 2],
                                "data_format": "channels_first"}, "Flatten")
  add(img, "AveragePooling2D", {"pool_size": [3, 2], "strides": [1, 2],
                                "padding": "same"}, "Flatten")
  return t


_A = {"kernel_quantizer": "quantized_bits(4,0,1)",
      "depthwise_quantizer": "quantized_bits(4,0,1)",
      "pointwise_quantizer": "quantized_bits(5,0,1)",
      "recurrent_quantizer": "quantized_bits(5,1,1)",
      "bias_quantizer": "quantized_bits(6,2)",
      "state_quantizer": "quantized_bits(7,2)",
      "average_quantizer": "quantized_bits(6,0,1)",
      "gamma_quantizer": "quantized_relu_po2(4)",
      "beta_quantizer": "quantized_po2(5)",
      "mean_quantizer": "quantized_po2(6)",
      "variance_quantizer": "quantized_relu_po2(5)",
      "activation_quantizer": "quantized_relu(6,2)",
      "recurrent_activation_quantizer": "quantized_sigmoid(6)"}
_B = {"kernel_quantizer": "ternary", "depthwise_quantizer": "binary",
      "pointwise_quantizer": "ternary", "recurrent_quantizer": "binary",
      "bias_quantizer": "quantized_po2(4)",
      "state_quantizer": "quantized_bits(3,1)",
      "average_quantizer": "quantized_bits(3,1,1)",
      "gamma_quantizer": "quantized_relu(5,1)",
      "beta_quantizer": "quantized_bits(5,1)",
      "mean_quantizer": "quantized_bits(6,1)",
      "variance_quantizer": "quantized_relu(7,1)",
      "activation_quantizer": "quantized_tanh(3)",
      "recurrent_activation_quantizer": "quantized_bits(3,0,1)"}


_RNN = ("SimpleRNN", "LSTM", "GRU", "Bidirectional")
_MODE_PRIO = {"class": 0, "none": 1, "primary_only": 1, "both": 2, "hidden": 3,
              "name": 4, "with_act": 5, "name_empty": 3, "class_empty": 3,
              "both_empty": 3, "empty_hides": 3}
_EMPTY_MODES = ("name_empty", "class_empty", "both_empty", "empty_hides")


def _dag_cases():
  """A small functional DAG: skip connection (Add) and Concatenate."""
  conv = {"filters": 2, "kernel_size": [3, 3], "padding": "same",
          "activation": "relu"}
  layers = [
      {"name": "conv_a", "cls": "Conv2D", "kw": conv, "in": [KM.INPUT_NAME]},
      {"name": "add_1", "cls": "Add", "kw": {}, "in": [KM.INPUT_NAME, "conv_a"]},
      {"name": "conv_b", "cls": "Conv2D", "kw": dict(conv, filters=1),
       "in": ["add_1"]},
      {"name": "cat_1", "cls": "Concatenate", "kw": {"axis": -1},
       "in": ["conv_b", "conv_a"]},
      {"name": "act_1", "cls": "Activation", "kw": {"activation": "tanh"},
       "in": ["cat_1"]},
      {"name": "flat", "cls": "Flatten", "kw": {}, "in": ["act_1"]},
      {"name": "fc", "cls": "Dense", "kw": {"units": 2}, "in": ["flat"]},
  ]
  desc = {"api": "functional", "input_shape": [4, 4, 2], "layers": layers,
          "outputs": ["fc", "act_1"], "wseed": 11}
  full = {"kernel_quantizer": _A["kernel_quantizer"],
          "bias_quantizer": _A["bias_quantizer"]}
  other = {"kernel_quantizer": _B["kernel_quantizer"],
           "bias_quantizer": _B["bias_quantizer"]}
  out = []
  for qd, tr in (({"QConv2D": full}, True),
                 ({"conv_b": other, "QConv2D": full,
                   "QActivation": {"tanh": "quantized_tanh(5)"}}, True),
                 ({"conv_a": {"bias_quantizer": _B["bias_quantizer"]},
                   "QConv2D": full, "QDense": other}, False)):
    out.append({"model": desc, "qdict": qd, "activation_bits": 6,
                "transfer": tr, "prefer_adaptive": False,
                "custom_objects": "empty"})
  # squeeze-and-excite block: gap(keepdims=True) -> 1x1 conv -> Multiply
  se_layers = [
      {"name": "conv_a", "cls": "Conv2D", "kw": conv, "in": [KM.INPUT_NAME]},
      {"name": "gap_1", "cls": "GlobalAveragePooling2D",
       "kw": {"keepdims": True}, "in": ["conv_a"]},
      {"name": "gate", "cls": "Conv2D",
       "kw": {"filters": 2, "kernel_size": [1, 1], "activation": "sigmoid"},
       "in": ["gap_1"]},
      {"name": "mul_1", "cls": "Multiply", "kw": {}, "in": ["conv_a", "gate"]},
      {"name": "flat", "cls": "Flatten", "kw": {}, "in": ["mul_1"]},
      {"name": "fc", "cls": "Dense", "kw": {"units": 2}, "in": ["flat"]},
  ]
  se = {"api": "functional", "input_shape": [4, 4, 2], "layers": se_layers,
        "outputs": ["fc"], "wseed": 12}
  avg = {"average_quantizer": _A["average_quantizer"]}
  for qd, tr in (({"QGlobalAveragePooling2D": avg, "QConv2D": full}, True),
                 ({"gap_1": {"average_quantizer": _B["average_quantizer"]},
                   "QGlobalAveragePooling2D": avg}, False),
                 ({"QConv2D": full}, False)):
    out.append({"model": se, "qdict": qd, "activation_bits": 4,
                "transfer": tr, "prefer_adaptive": False,
                "custom_objects": "none"})
  return out


def lattice(quick=False):
  """Deterministic cases: every convertible class alone x selection mode,
  ordered so that the class-entry / no-entry modes of all classes come first
  (a starved run still reaches every class).  quick: use_bias=False and
  Sequential variants only with the class-entry mode, recurrent classes (1-4 s
  per conversion) only with the class / none / both modes."""
  cases = [(0, c) for c in _dag_cases()]
  for shape, cls, kw, tail in _templates():
    biases = [True, False] if cls in (
        "Conv2D", "DepthwiseConv2D", "SeparableConv2D", "Conv1D",
        "SeparableConv1D", "SimpleRNN", "LSTM", "GRU", "Dense",
        "Bidirectional") else [None]
    if "unit_forget_bias" in json.dumps(kw) or "backward_layer" in kw or (
        cls == "Bidirectional" and kw["layer"]["cls"] == "GRU") or (
            kw.get("activation") in KM.OTHER_ACTS):
      biases = [True]             # extra recurrent templates: no bias variants
    for ub in biases:
      kw2 = copy.deepcopy(kw)
      if ub is False:
        if cls == "Bidirectional":
          kw2["layer"]["kw"]["use_bias"] = False
        else:
          kw2["use_bias"] = False
      target = {"name": "target", "cls": cls, "kw": kw2, "in": [KM.INPUT_NAME]}
      tl = {"name": "tail", "cls": tail,
            "kw": {"units": 2} if tail == "Dense" else {}, "in": ["target"]}
      for api in (["functional", "sequential"] if ub is not False
                  else ["functional"]):
        desc = {"api": api, "input_shape": shape, "layers": [target, tl],
                "outputs": ["tail"], "wseed": 7}
        if api == "sequential":
          desc["seq_input"] = "kw"
        variant = ub is False or api == "sequential"
        for mode in ("none", "class", "primary_only", "name", "both", "hidden",
                     "with_act") + _EMPTY_MODES:
          if quick and mode != "class" and variant:
            continue
          if mode in _EMPTY_MODES and cls != "BatchNormalization":
            # BatchNormalization: all four forms in both tiers (selected by
            # the mere presence of the key); other kinds in quick only the two
            # name forms, recurrent kinds (slow) only in thorough
            if variant or (quick and (cls in _RNN or mode in (
                "class_empty", "both_empty"))):
              continue
          if quick and mode != "class" and (
              kw.get("activation") in KM.OTHER_ACTS):
            continue          # look-alike activation templates: auto path only
          if mode == "primary_only" and (variant or cls not in _RNN):
            continue
          if quick and cls in _RNN and (
              mode in ("hidden", "name", "with_act") or
              (variant and cls != "LSTM")):
            if not (cls == "LSTM" and mode == "with_act"):
              continue
          qd = _lattice_dict(target, mode)
          if qd is None:
            continue
          prio = _MODE_PRIO[mode] + (6 if variant else 0)
          if cls == "BatchNormalization" and mode in _EMPTY_MODES:
            prio = 1
          cases.append((prio, {
              "model": desc, "qdict": qd, "activation_bits": 5,
              "transfer": mode in ("class", "both", "name_empty", "both_empty"),
              "prefer_adaptive": False,
              "custom_objects": "aux" if mode == "name" else "none"}))
          if cls == "Activation" and mode in ("class", "name"):
            qd2 = _lattice_dict(target, mode, adaptive=True)
            cases.append((prio, {
                "model": desc, "qdict": qd2, "activation_bits": 5,
                "transfer": False, "prefer_adaptive": mode == "name",
                "custom_objects": "none"}))
  cases.sort(key=lambda pc: pc[0])      # stable
  cases = [c for _, c in cases]
  # front-load a greedy cover of the required labels, so that a starved run
  # (slow machine) still reaches every class that matters
  need = set(REQUIRED_LABELS["quick" if quick else "thorough"])
  labs = []
  for c in cases:
    pl = REF.plan(c["model"], c["qdict"], c["activation_bits"],
                  c["prefer_adaptive"])
    labs.append(set(case_labels(c, pl, "lattice")[0]) & need)
  front, left = [], list(range(len(cases)))
  while need:
    best = max(left, key=lambda j: (len(labs[j] & need), -j))
    if not labs[best] & need:
      break
    need -= labs[best]
    front.append(best)
    left.remove(best)
  return [cases[j] for j in front + left]


def _lattice_dict(ld, mode, adaptive=False):
  cls = ld["cls"]
  other = {"QDense" if cls != "Dense" else "QConv2D":
           {"kernel_quantizer": "binary", "bias_quantizer": "binary"}}
  if cls in QD.ACT_LAYERS:
    key = QD.act_key(ld)
    ckey = "QAdaptiveActivation" if adaptive else "QActivation"
    qa = "quantized_relu(6)" if adaptive else "quantized_relu(6,2)"
    qb = "quantized_bits(4)" if adaptive else "quantized_bits(4,1,1)"
    if mode == "none":
      return dict(other)
    if mode == "class":
      return {ckey: {key: qa}}
    if mode == "name":
      return {ld["name"]: qa}
    if mode == "both":
      return {ld["name"]: {key: qb}, ckey: qa}
    if mode == "hidden":
      return {ld["name"]: {"not_" + key: qb}, ckey: {key: qa}}
    if mode == "name_empty":
      return {ld["name"]: {}}
    if mode == "class_empty":
      return {ckey: {}}
    if mode == "both_empty":
      return {ld["name"]: {}, ckey: {}}
    if mode == "empty_hides":
      return {ld["name"]: {}, ckey: {key: qa}}
    return {ckey: qa}                         # with_act: plain string entry
  inner = ld["kw"]["layer"]["cls"] if cls == "Bidirectional" else None
  prim, sec = QD.roles_of(cls, inner)
  qk = QD.Q_OF[cls]
  no_act = [r for r in sec if not r.endswith("activation_quantizer")]
  full_a = {r: _A[r] for r in prim + no_act}
  full_b = {r: _B[r] for r in prim + no_act}
  if mode == "none":
    return dict(other)
  if mode == "name_empty":
    return {ld["name"]: {}}
  if mode == "class_empty":
    return {qk: {}}
  if mode == "both_empty":
    return {ld["name"]: {}, qk: {}}
  if mode == "empty_hides":       # empty name entry in front of a full class entry
    return {ld["name"]: {}, qk: full_a}
  if mode == "primary_only":      # e.g. kernel_quantizer and nothing else
    return {qk: {r: _A[r] for r in prim}}
  if mode == "class":
    return {qk: full_a}
  if mode == "name":
    return {ld["name"]: full_a}
  if mode == "both":
    return {ld["name"]: full_b, qk: full_a}
  if mode == "hidden":
    if not prim:
      return None
    return {ld["name"]: {r: _B[r] for r in no_act}, qk: full_a}
  acts = [r for r in sec if r.endswith("activation_quantizer")]
  if not acts:
    return None
  return {qk: dict(full_a, **{r: _A[r] for r in acts})}


# --------------------------------------------------------------------------


def _emit(ctx, case, fails):
  for sc, sig, detail in fails:
    ctx.fail(sc, sig, case, detail)


def case_strategy(ctx):
  from hypothesis import strategies as st  # pylint: disable=g-import-not-at-top

  @st.composite
  def gen(draw):
    desc = draw(KM.model_descs(max_rnn=1 if ctx.quick else 2))
    prefer = draw(st.sampled_from([False, False, False, True]))
    qd = draw(QD.qdicts(desc, prefer))
    return {"model": desc, "qdict": qd,
            "activation_bits": draw(st.integers(2, 8)),
            "transfer": draw(st.booleans()),
            "prefer_adaptive": prefer,
            "custom_objects": draw(st.sampled_from(["none", "empty", "aux"]))}

  return gen()


def run(ctx):
  lat = lattice(ctx.quick)
  ctx.info["lattice_size"] = len(lat) if ctx.idx == 0 else 0
  # quick: the enumeration may use at most 60% of the budget, the rest is
  # reserved for the random part (a slow machine must not make it vacuous)
  reserve = 0.4 * ctx.budget_s if ctx.quick else 60.0
  for case in ctx.shard(lat):
    if ctx.time_left() <= reserve:
      ctx.labels["inconclusive_time"] += 1
      ctx.labels["lattice_cut_short"] += 1
      break
    _emit(ctx, case, oracle(ctx, case, origin="lattice"))

  collected = set()

  def orc(case):
    if ctx.time_left() <= 0:
      ctx.labels["inconclusive_time"] += 1
      return []
    out = []
    for f in oracle(ctx, case, origin="hyp"):
      if core.fkey(f[0], f[1]) in collected:
        ctx.fail(f[0], f[1], case, f[2])     # shrunk in an earlier chunk
      else:
        out.append(f)
    return out

  # Hypothesis in chunks, so that the run ends with the time budget instead of
  # burning through a fixed example count (conversion speed varies 0.3-4 s)
  total = (1600 if ctx.quick else 40000) // ctx.n + 1
  chunk, k, rounds = 30, 0, 0
  strat = case_strategy(ctx)
  while total > 0 and ctx.time_left() > 3:
    name = "c12.%d" % k
    core.hyp_run(ctx, strat, orc, min(chunk, total), name=name)
    rounds += ctx.info.pop("hyp_rounds_" + name, 0)
    collected.update(ctx.failures.keys())
    total -= chunk
    k += 1
  ctx.info["hyp_rounds_c12"] = rounds
  ctx.info["hyp_chunks"] = k


def replay(ctx, case):
  _emit(ctx, case, oracle(ctx, case, origin="replay"))
