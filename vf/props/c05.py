"""C05 - auto-scaled fixed point (quantized_bits / quantized_linear with alpha
'auto', 'auto_po2' or a frozen post_training_scale): every output is the
exposed scale x an in-range integer code; the scale is one positive value per
channel/group; 'auto' maps the channel maximum to the top code; 'auto_po2'
scales are exact powers of two inside the exponent bounds; finite outputs;
power-of-two equivariance.

Relation between the exposed scale and the grid (derived from the docstrings):
  quantized_linear: scale = quantization_scale / data_type_scale with
      data_type_scale = 2^(integer - bits + keep_negative), output =
      quantization_scale * code  =>  output = scale * 2^(integer-ub) * code;
  quantized_bits: the internal scale (relative to x / 2^integer) is multiplied
      by m = 2^ub before it is exposed ("z is an integer number, so we must
      make the scale * m and z / m"), output = 2^integer * z / m * scale
      =>  output = scale * 2^(integer-ub) * code as well; the po2 exponent
      bounds apply to the internal scale, i.e. to log2(scale) - ub
      (tests/quantizer_impl_test.py states the same factor).
  ub = bits - keep_negative.
"""
import numpy as np

from vf import core
from vf.gen import scaled as G
from vf.ref import scale as R

RULE = ("cases = (quantized_bits | quantized_linear, bits 2..8, integer 0..3 "
        "(<= non-sign bits), alpha 'auto'/'auto_po2', scale_axis None/int"
        "(/list for quantized_bits), elements_per_scale and min/max_po2_exponent "
        "(quantized_bits+auto_po2; a third of the bounded cases put a bound "
        "at the value 0 with the natural exponent within +-3 of it), "
        "post_training_scale (quantized_bits), "
        "use_ste, keep_negative/symmetric (quantized_linear), use_variables/"
        "var_name, use_stochastic_rounding False/True) x learning phase 0/1 "
        "(tf.random.set_seed(case seed) before every call) x optional "
        "reconfiguration history in front of the checked call (a quarter of "
        "the cases: 1..3 uses - call on another tensor / max / min / range / "
        "str / get_config - then a change of a modifiable attribute: "
        "symmetric flipped 0<->1 or there-and-back, alpha switched None/"
        "'auto'/'auto_po2' -> the final alpha, _set_trainable_parameter(), or "
        "the quantizer handed to a QDense/QConv2D/QConv1D/QDepthwiseConv2D "
        "constructor; the oracle uses the configuration in force at the "
        "checked call) x (float32 tensor of rank "
        "1..4, <= 96 (thorough: 256) elements, built group by group: normal / all-zero / single "
        "non-zero / constant / sign-aligned / 2^-6 and 2^+6 relative "
        "magnitude; non-zero channel maxima within 2^-21..2^20) drawn by "
        "Hypothesis; a fifth of the cases are equivariance pairs (x, 2^k x), "
        "k in -6..6, channel maxima 2^-7..2^12. Non-trivial = rank >= 2, at "
        "least two groups with different scales and at least one element that "
        "is neither zero nor on the top code; distinct by hash of the case.")
ASSUMPTIONS = [
    "checks run under TF_USE_LEGACY_KERAS=1 (tf_keras), float32, eager, "
    "K.epsilon()==1e-7, channels_last; "
    "qnoise_factor=1 (default or explicit; other factors are C07's); "
    "use_stochastic_rounding in {False, True} x learning phase in {0, 1}: "
    "every clause of the statement is asserted in all four combinations "
    "(stochastic rounding still has to give an in-range INTEGER code; it is "
    "only in force for quantized_linear in phase 1 - quantized_bits' "
    "data-derived-scale path rounds deterministically, and phase 0 is "
    "documented to round to nearest); the distribution of the stochastic "
    "codes is C08's. Under stochastic rounding the 'auto' top-code clause "
    "also accepts the code next to the top code for a channel maximum whose "
    "exact quotient x/unit is strictly inside the top code (float32 leaves it "
    "a few ulp below an integer, probability ~1e-5), with one more step of "
    "distance; 'auto_po2' equivariance is not asserted there (the refinement "
    "sees random codes), 'auto' equivariance is (same TF seed for both calls)",
    "reconfiguration histories use only what the library offers to callers: "
    "attributes listed as modifiable in quantized_linear.__init__ (alpha, "
    "symmetric), the switch every QKeras layer applies to an alpha=None "
    "weight quantizer (alpha 'auto_po2', symmetric True), and for "
    "quantized_bits the same layer switch plus 'auto' <-> 'auto_po2' (no "
    "elements_per_scale / exponent bounds / frozen scale then); range() is "
    "only called before the first call (afterwards the per-channel scale does "
    "not broadcast with the code vector - unrelated to this property); an "
    "exception anywhere in the history is reported as call_raises; "
    "quantized_bits use_ste in {True, False} (with qnoise_factor 1 the "
    "non-STE form (1-f)*x + f*xq is exactly xq), symmetric in {default,0,1} "
    "(forced to 1 by 'auto*'); use_variables/var_name in both classes "
    "(qnoise_factor becomes a tf.Variable at the first call; primed and "
    "follow-up calls reuse the built quantizer)",
    "quantized_bits is generated with keep_negative=True only (its 'auto' "
    "path ignores keep_negative); scale_axis entries non-negative/ascending",
    "power-of-two scales: y/(scale*2^(integer-ub)) must be an integer exactly; "
    "inputs are generated with |x| < 2^23 grid units wherever the code is "
    "non-zero (exact regime of x+(xq-x)); a failure beyond it would carry "
    "region=ste_cancellation",
    "float scales ('auto', frozen non-po2): |y - scale*2^(integer-ub)*k| <= "
    "1 ulp(max(|x|,|y|)) + 2^-23*|y| for an integer k (one rounding of the "
    "product, one of the straight-through sum)",
    "'auto' top-code clause asserted for channels whose maximum is >= "
    "2^bits * K.epsilon() (quantized_linear floors its scale at epsilon); "
    "|y_max - x_max| <= 2 ulp(x_max) (measured: 1 ulp over 12k tensors; the "
    "float32 scale carries a 2^-24 relative error that is multiplied by the "
    "top code), plus u/2 only for quantized_linear(keep_negative=True, "
    "symmetric=0 at the time of the call), whose documented two's complement "
    "range puts the maximum half a step beyond the top code",
    "frozen post_training_scale is positive and broadcastable; a power of two "
    "under alpha='auto_po2'",
    "equivariance: exact for 'auto'; for 'auto_po2' asserted only when a "
    "float64 replay of the documented refinement (max-based start, 5 "
    "least-squares rounds, each snapped to a power of two) finds no rounding "
    "within 1e-3 (log2) of a tie and no scale below 1024*epsilon for x and "
    "for 2^k x; otherwise the pair is counted as equiv_skipped (float32 log "
    "rounding may legitimately differ; its error is ~5e-6 in log2). Pairs "
    "where that replay does not reproduce the observed scales are labelled "
    "equiv_trace_mismatch (0 on the unchanged tree)",
    "the follow-up call of an equivariance pair and the call after a priming "
    "tensor (case['prime']) use the same quantizer object: q.scale must "
    "describe the latest call",
]
BUDGET_S = {"quick": 35, "thorough": 800}
REQUIRED_LABELS = {
    t: ["quantized_bits", "quantized_linear", "alpha:auto", "alpha:auto_po2",
        "rank1", "rank2", "rank3", "rank4", "axis_int", "axis_list", "eps",
        "po2_bounds", "po2_bound_zero", "bounds_active", "pts", "zero_group", "top_code_checked",
        "equiv_checked:auto", "equiv_checked:auto_po2", "clipped", "primed",
        "keep_negative=False", "symmetric=0", "use_ste=False",
        "use_ste=False+pts", "use_variables:quantized_bits",
        "use_variables:quantized_linear", "train_phase",
        "stoch_train:quantized_linear", "stoch_infer:quantized_linear",
        "stoch_train:quantized_bits", "reconfig:sym_flip",
        "reconfig:alpha_switch", "reconfig:trainable", "reconfig:layer",
        "reconfig:layer:quantized_linear", "reconfig:layer:quantized_bits",
        "pre_use:call", "pre_use:bounds"]
    for t in ("quick", "thorough")}

EPS = R.EPS


def fmt(cfg):
  kw = cfg["kw"]
  kn = bool(kw.get("keep_negative", True))
  bits = kw["bits"]
  ub = bits - (1 if kn else 0)
  if cfg["cls"] == "quantized_bits":
    sym = 1
  else:
    sym = int(kw.get("symmetric", 1))
  kmax = 2 ** ub - 1
  kmin = -(2 ** ub - sym) if kn else 0
  return {"ub": ub, "kn": kn, "kmin": kmin, "kmax": kmax,
          "integer": kw.get("integer", 0), "bits": bits, "sym": sym}


def stoch_train(cfg, phase):
  """Stochastic rounding is in force: quantized_linear, option set, training
  phase (quantized_bits' data-derived-scale path has no stochastic mode)."""
  return bool(cfg["cls"] == "quantized_linear" and phase and
              cfg["kw"].get("use_stochastic_rounding"))


def _base(cfg, sigx=None):
  kw = cfg["kw"]
  sig = {"cls": cfg["cls"], "alpha": kw["alpha"]}
  sig.update(sigx or {})
  if kw.get("post_training_scale") is not None:
    sig["frozen"] = True
  if kw.get("use_ste") is False:
    sig["use_ste"] = False
  if kw.get("use_variables"):
    sig["use_variables"] = True
  return sig


def _labels(case):
  cfg = G.c05_effective(case["cfg"], case.get("steps"))
  kw = cfg["kw"]
  labs = [cfg["cls"], "alpha:" + kw["alpha"], "rank%d" % len(case["shape"]),
          G.axis_kind(kw), "bits%d" % kw["bits"]]
  if kw.get("elements_per_scale") is not None:
    labs.append("eps")
  if kw.get("min_po2_exponent") is not None or kw.get("max_po2_exponent") is not None:
    labs.append("po2_bounds")
    if kw.get("min_po2_exponent") == 0 or kw.get("max_po2_exponent") == 0:
      labs.append("po2_bound_zero")
  if kw.get("post_training_scale") is not None:
    labs.append("pts")
  if kw.get("keep_negative") is False:
    labs.append("keep_negative=False")
  if kw.get("symmetric") == 0:
    labs.append("symmetric=0")
  if kw.get("use_ste") is False:
    labs.append("use_ste=False")
    if kw.get("post_training_scale") is not None:
      labs.append("use_ste=False+pts")
  if kw.get("use_variables"):
    labs.append("use_variables:" + cfg["cls"])
  phase = int(case.get("phase") or 0)
  if phase:
    labs.append("train_phase")
  if kw.get("use_stochastic_rounding"):
    labs.append("stoch_%s:%s" % ("train" if phase else "infer", cfg["cls"]))
  steps = case.get("steps")
  if steps:
    for r in G.c05_routes(steps):
      labs.append("reconfig:" + r)
      labs.append("reconfig:%s:%s" % (r, cfg["cls"]))
    ops = {s_["op"] for s_ in steps}
    if "call" in ops:
      labs.append("pre_use:call")
    if ops & {"max", "min", "range"}:
      labs.append("pre_use:bounds")
  return labs


def groups_of(cfg, shape):
  """Group ids of the exposed scale."""
  kw = cfg["kw"]
  cls, alpha = cfg["cls"], kw["alpha"]
  if len(shape) == 1:
    if cls == "quantized_bits" and alpha == "auto":
      return R.group_ids(shape, rank1="all")     # one scale for the vector
    return R.group_ids(shape, rank1="element")   # every entry its own channel
  return R.group_ids(shape, kw.get("scale_axis"), kw.get("elements_per_scale"))


def prime_tensor(x32):
  return (np.roll(x32.reshape(-1), 1).reshape(x32.shape) * np.float32(-2.5)
          + np.float32(0.375)).astype(np.float32)


def evaluate(cfg, shape, xs, st=None, q=None, prime=False, phase=0, seed=None,
             ctor=None, steps=None, sigx=None):
  """One call + every single-call clause. Returns (fails, obs|None).

  cfg is the configuration in force at the checked call; when the case has a
  history, ctor holds the constructor arguments and steps the operations that
  lead to cfg."""
  st = st if st is not None else {}
  fails = []
  kw = cfg["kw"]
  base = _base(cfg, sigx)
  sto = stoch_train(cfg, phase)
  f = fmt(cfg)
  alpha = kw["alpha"]
  frozen = kw.get("post_training_scale") is not None
  x32 = np.asarray(xs, dtype=np.float32).reshape(shape)
  x = x32.astype(np.float64)
  try:
    if q is None:
      q = G.build(ctor if ctor is not None else cfg)
      q = G.apply_steps(q, steps, prime_tensor(x32), phase, seed)
    if prime:
      G.call(q, prime_tensor(x32), phase, seed)
    y32 = G.call(q, x32, phase, seed)
    s_raw = G.scale_of(q)
    qs_raw = None
    if cfg["cls"] == "quantized_linear":
      qs_raw = np.asarray(q.quantization_scale.numpy()
                          if hasattr(q.quantization_scale, "numpy")
                          else q.quantization_scale, dtype=np.float64)
  except Exception as e:  # pylint: disable=broad-except
    sig = dict(core.exc_signature(e), **base)
    return [("call_raises", sig, repr(e)[:300])], None
  finally:
    core.reset_globals()
  y = y32.astype(np.float64)
  if y.shape != x.shape:
    return [("output_shape", dict(base), "x%s -> y%s" % (x.shape, y.shape))], None
  # (e) finite outputs
  if not np.isfinite(y).all():
    i = int(np.argmax(~np.isfinite(y).reshape(-1)))
    gz = bool(x.reshape(-1)[i] == 0)
    fails.append(("finite", dict(base, region="zero_input" if gz else "nonzero_input"),
                  "x=%r -> y=%r" % (x.reshape(-1)[i], y.reshape(-1)[i])))
    return fails, None
  if s_raw is None:
    return [("scale_missing", dict(base), "q.scale is None after the call")], None
  try:
    s = np.broadcast_to(s_raw, x.shape).astype(np.float64)
  except ValueError:
    return [("scale_shape", dict(base, axis=G.axis_kind(kw)),
             "q.scale%s does not broadcast to x%s" % (s_raw.shape, x.shape))], None
  if frozen:
    pts = np.asarray(kw["post_training_scale"], dtype=np.float32).astype(np.float64)
    if s_raw.shape != pts.shape or (s_raw != pts).any():
      fails.append(("frozen_scale", dict(base), "q.scale=%r after the call, "
                    "post_training_scale=%r" % (s_raw.tolist(), pts.tolist())))
      return fails, None
  gid = groups_of(cfg, shape)
  ng = R.n_groups(gid)
  gabs = R.gmax(gid, np.abs(x), ng)
  st["zero_group"] = bool((gabs == 0).any())
  # (b) positive, finite, one value per group
  badpos = ~(np.isfinite(s) & (s > 0))
  if badpos.any():
    zg = (gabs == 0)[gid]
    for region, mask in (("all_zero_channel", badpos & zg),
                         ("nonzero_channel", badpos & ~zg)):
      if mask.any():
        i = int(np.argmax(mask.reshape(-1)))
        fails.append(("scale_positive", dict(base, region=region),
                      "scale=%r for the group of element %d (group max |x| = %r)" %
                      (s.reshape(-1)[i], i, gabs[gid.reshape(-1)[i]])))
  if not frozen:
    smax, smin = R.gmax(gid, s, ng), R.gmin(gid, s, ng)
    if (smax != smin).any():
      g = int(np.argmax(smax != smin))
      fails.append(("scale_grouping",
                    dict(base, axis=G.axis_kind(kw),
                         eps=kw.get("elements_per_scale") is not None),
                    "group %d of %d holds scales %r..%r (shape %r scale_axis %r "
                    "elements_per_scale %r, q.scale shape %r)" %
                    (g, ng, smin[g], smax[g], shape, kw.get("scale_axis"),
                     kw.get("elements_per_scale"), s_raw.shape)))
      return fails, None
  # documented identity of quantized_linear's three scales
  if qs_raw is not None:
    try:
      qs = np.broadcast_to(qs_raw, x.shape)
      if (qs != s * 2.0 ** (f["integer"] - f["ub"])).any():
        fails.append(("scale_identity", dict(base),
                      "quantization_scale != scale * data_type_scale"))
    except ValueError:
      fails.append(("scale_identity", dict(base), "quantization_scale shape %r" %
                    (qs_raw.shape,)))
  # (a) outputs = scale * 2^(integer-ub) * integer code in range
  live = s > 0
  U = s * 2.0 ** (f["integer"] - f["ub"])
  Us = np.where(live, U, 1.0)
  po2 = R.is_po2(Us) & live
  inside = np.abs(x) < 2.0 ** 23 * Us
  tol = np.where(po2, 0.0,
                 R.ulp32(np.maximum(np.abs(x), np.abs(y))) + 2.0 ** -23 * np.abs(y))
  k = np.where(live, np.round(y / Us), 0.0)
  dev = np.where(live, np.abs(y - k * Us), np.abs(y))
  off = dev > tol
  if (live & ~po2).any():
    st["float_scale"] = True
  if (po2 & ~inside).any():
    st["outside_exact_regime"] = True
  if (off & inside).any():
    off = off & inside         # report the in-regime failure first
  if off.any():
    idx = np.nonzero(off.reshape(-1))[0]
    i = int(idx[np.argmax((dev / np.maximum(Us, 1e-300)).reshape(-1)[idx])])
    fails.append(("integer_code", dict(base, scale="po2" if po2.reshape(-1)[i] else (
        "zero" if not live.reshape(-1)[i] else "float"),
                                       region="exact_regime" if inside.reshape(-1)[i]
                                       else "ste_cancellation"),
                  "x=%r y=%r scale=%r unit=scale*2^(%d-%d)=%r y/unit=%r" %
                  (x.reshape(-1)[i], y.reshape(-1)[i], s.reshape(-1)[i],
                   f["integer"], f["ub"], U.reshape(-1)[i],
                   (y / Us).reshape(-1)[i])))
  rng = live & ~off & ((k < f["kmin"]) | (k > f["kmax"]))
  if rng.any():
    if (rng & inside).any():
      rng = rng & inside
    i = int(np.argmax(rng.reshape(-1)))
    fails.append(("code_range", dict(base, side="high" if k.reshape(-1)[i] > 0 else "low",
                                     region="exact_regime" if inside.reshape(-1)[i]
                                     else "ste_cancellation"),
                  "x=%r y=%r code=%r outside [%d,%d]" %
                  (x.reshape(-1)[i], y.reshape(-1)[i], k.reshape(-1)[i],
                   f["kmin"], f["kmax"])))
  st["clipped"] = bool((live & (np.abs(x) > (np.abs(k) + 0.5001) * Us)).any())
  st["interior"] = bool((live & (k != 0) & (k < f["kmax"]) & (k > f["kmin"])).any())
  sg = R.gmax(gid, s, ng)
  st["distinct_scales"] = len(set(sg.tolist()))
  # (c) 'auto': channel maximum -> top code, unclipped
  if alpha == "auto" and not frozen and not fails:
    ref = np.abs(x) if f["kn"] else x
    gm = R.gmax(gid, ref, ng)
    chk = gm >= 2.0 ** f["bits"] * EPS
    if chk.any():
      st["top_code_checked"] = True
    ismax = (ref == gm[gid]) & chk[gid]
    top_ok = np.where(x > 0, k == f["kmax"], k <= -f["kmax"])
    # only the two's complement range of quantized_linear (keep_negative,
    # symmetric=0) is documented to sit half a step beyond the top code
    half = 0.5 if (cfg["cls"] == "quantized_linear" and f["kn"] and
                   not f["sym"]) else 0.0
    slack = half * Us + 2.0 * R.ulp32(x)
    if sto:
      # stochastic rounding of a quotient that float32 leaves just below the
      # top code may legitimately give the code underneath
      v = x / Us
      below = np.where(x > 0, (k == f["kmax"] - 1) & (v < f["kmax"]),
                       (k == 1 - f["kmax"]) & (v > -f["kmax"]))
      top_ok = top_ok | below
      slack = slack + np.where(below, Us, 0.0)
      if (ismax & below).any():
        st["top_code_below"] = True
    near_ok = np.abs(y - x) <= slack
    bad = ismax & ~(top_ok & near_ok)
    if bad.any():
      i = int(np.argmax(bad.reshape(-1)))
      fails.append(("auto_top_code",
                    dict(base, clause="code" if not top_ok.reshape(-1)[i] else "clipped",
                         axis=G.axis_kind(kw)),
                    "channel maximum x=%r -> y=%r code=%r (top code %d, unit %r)" %
                    (x.reshape(-1)[i], y.reshape(-1)[i], k.reshape(-1)[i],
                     f["kmax"], U.reshape(-1)[i])))
  # (d) auto_po2: exact powers of two inside the bounds
  if alpha == "auto_po2" and not frozen and live.all():
    p2 = R.is_po2(sg)
    if not p2.all():
      g = int(np.argmax(~p2))
      fails.append(("po2", dict(base), "group %d: scale=%r is not a power of two" %
                    (g, sg[g])))
    else:
      e = R.po2_exponent(sg) - f["ub"]
      lo, hi = kw.get("min_po2_exponent"), kw.get("max_po2_exponent")
      for side, bad in (("below", (e < lo) if lo is not None else None),
                        ("above", (e > hi) if hi is not None else None)):
        if bad is not None and bad.any():
          g = int(np.argmax(bad))
          fails.append(("po2_bounds", dict(base, side=side),
                        "group %d: log2(scale)-ub = %d outside [%r,%r] (scale=%r, "
                        "ub=%d)" % (g, e[g], lo, hi, sg[g], f["ub"])))
      if (lo is not None and (e == lo).any()) or (hi is not None and (e == hi).any()):
        st["bounds_active"] = True
  return fails, {"y": y32, "s": s, "sg": sg, "gid": gid, "k": k, "q": q}


def _trace(cfg, shape, x):
  kw = cfg["kw"]
  f = fmt(cfg)
  if cfg["cls"] == "quantized_bits":
    s, flags = R.qbits_po2_trace(x, shape, f["bits"], f["integer"],
                                 kw.get("scale_axis"), kw.get("elements_per_scale"))
    return s * 2.0 ** f["ub"], flags           # exposed scale
  s, flags = R.qlinear_po2_trace(x, shape, f["bits"], f["kn"], f["sym"],
                                 kw.get("scale_axis"))
  return s / 2.0 ** (f["integer"] - f["ub"]), flags


def oracle(ctx, case):
  shape, xs = case["shape"], case["xs"]
  steps = case.get("steps")
  cfg = G.c05_effective(case["cfg"], steps)
  kw = cfg["kw"]
  phase = int(case.get("phase") or 0)
  seed = case.get("tf_seed")
  sto = stoch_train(cfg, phase)
  sigx = {}
  if sto:
    sigx["stoch"] = "train"
  if steps:
    sigx["reconfig"] = "+".join(G.c05_routes(steps))
  st = {}
  fails, obs = evaluate(cfg, shape, xs, st, prime=bool(case.get("prime")),
                        phase=phase, seed=seed, ctor=case["cfg"], steps=steps,
                        sigx=sigx)
  labs = _labels(case)
  if case.get("prime"):
    labs.append("primed")
  meta = case.get("meta") or {}
  if meta.get("kind") == "equiv" and obs is not None and not fails:
    base = _base(cfg, sigx)
    kk = int(meta["k"])
    x32 = np.asarray(xs, dtype=np.float32).reshape(shape)
    x2 = (x32 * np.float32(2.0 ** kk)).astype(np.float32)
    f2, o2 = evaluate(cfg, shape, x2.reshape(-1).tolist(), {}, q=obs["q"],
                      phase=phase, seed=seed, sigx=sigx)
    sound = True
    if kw["alpha"] == "auto_po2" and sto:
      # the refinement sees stochastic codes; the deterministic replay that
      # decides whether exact equivariance is a sound expectation does not apply
      sound = False
      labs.append("equiv_skipped_stochastic")
    elif kw["alpha"] == "auto_po2":
      t1, fl1 = _trace(cfg, shape, x32.astype(np.float64))
      t2, fl2 = _trace(cfg, shape, x2.astype(np.float64))
      sound = not (fl1 or fl2)
      if sound and o2 is not None and not (
          (t1 == obs["s"]).all() and (t2 == o2["s"]).all()):
        labs.append("equiv_trace_mismatch")     # canary, see ASSUMPTIONS
    if o2 is None or f2:
      for sc, sig, d in f2:
        fails.append((sc, dict(sig, follow_up="x*2^k"), d))
    elif not sound:
      if not sto:
        labs.append("equiv_skipped")
    else:
      fac = 2.0 ** kk
      # groups at the epsilon floor of quantized_linear are not covered by the
      # clause ("well above the library's epsilon floor")
      f = fmt(cfg)
      xx = x32.astype(np.float64)
      gm = R.gmax(obs["gid"], np.abs(xx) if f["kn"] else xx)
      above = (gm * min(1.0, fac) >= 1024 * EPS * 2.0 ** f["bits"])[obs["gid"]]
      if cfg["cls"] == "quantized_bits":
        above = np.ones_like(above)
      if above.all():
        labs.append("equiv_checked:" + kw["alpha"])
        if sto:
          labs.append("equiv_checked_stochastic")
      elif above.any():
        labs.append("equiv_partly_checked:" + kw["alpha"])
      else:
        labs.append("equiv_skipped_floor")
      o2 = dict(o2, s=np.where(above, o2["s"], 0.0),
                y=np.where(above, o2["y"], np.float32(0)))
      obs = dict(obs, s=np.where(above, obs["s"], 0.0),
                 y=np.where(above, obs["y"], np.float32(0)))
      if (o2["s"] != obs["s"] * fac).any():
        i = int(np.argmax((o2["s"] != obs["s"] * fac).reshape(-1)))
        fails.append(("equivariance", dict(base, what="scale"),
                      "k=%d: scale %r -> %r (expected %r) at element %d" %
                      (kk, obs["s"].reshape(-1)[i], o2["s"].reshape(-1)[i],
                       obs["s"].reshape(-1)[i] * fac, i)))
      elif (o2["y"].astype(np.float64) != obs["y"].astype(np.float64) * fac).any():
        i = int(np.argmax((o2["y"].astype(np.float64) !=
                           obs["y"].astype(np.float64) * fac).reshape(-1)))
        fails.append(("equivariance", dict(base, what="output"),
                      "k=%d: q(x)=%r, q(2^k x)=%r at x=%r" %
                      (kk, obs["y"].reshape(-1)[i], o2["y"].reshape(-1)[i],
                       x32.reshape(-1)[i])))
  for key in ("zero_group", "top_code_checked", "bounds_active", "clipped",
              "outside_exact_regime", "float_scale", "top_code_below"):
    if st.get(key):
      labs.append(key)
  nontrivial = (len(shape) >= 2 and st.get("distinct_scales", 0) >= 2 and
                st.get("interior", False))
  if nontrivial:
    labs.append("nontrivial")
  ctx.tick(case, labels=labs, nontrivial=nontrivial)
  return fails


def edge_cases():
  cases = []
  sp = [0.0, -0.0, 1e-20, -1e-20, 1e-6, -1e-6, 1.0, -1.0, 0.5, -0.75,
        float(np.float32(2.0 ** 20)), -float(np.float32(2.0 ** 20)), 3.0, -2.5]
  z = [0.0] * 12
  onez = [0.0, 1.0, 0.0, -2.0, 0.0, 3.0, 0.0, 0.5, 0.0, -0.25, 0.0, 1.5]
  for cls in ("quantized_bits", "quantized_linear"):
    for a in ("auto", "auto_po2"):
      for bits, integer in ((2, 0), (4, 1), (8, 3), (8, 0)):
        kw = {"bits": bits, "integer": integer, "alpha": a}
        for shape, xs in (([14], sp), ([7, 2], sp), ([2, 7], sp), ([12], z),
                          ([3, 4], z), ([6, 2], onez), ([2, 3, 2], onez)):
          cases.append({"cfg": {"cls": cls, "kw": dict(kw)}, "shape": shape, "xs": xs})
          if cls == "quantized_bits" and bits == 4:
            cases.append({"cfg": {"cls": cls, "kw": dict(kw, use_ste=False)},
                          "shape": shape, "xs": xs})
            cases.append({"cfg": {"cls": cls, "kw": dict(kw, use_variables=True)},
                          "shape": shape, "xs": xs, "prime": True})
      # exponent bounds incl. the boundary value 0, active from either side
      if cls == "quantized_bits" and a == "auto_po2":
        for bits, integer in ((4, 1), (8, 0)):
          for lo, hi in ((0, None), (None, 0), (0, 0), (-2, None), (None, -9),
                         (-3, 0), (0, 4)):
            kw = {"bits": bits, "integer": integer, "alpha": a}
            if lo is not None:
              kw["min_po2_exponent"] = lo
            if hi is not None:
              kw["max_po2_exponent"] = hi
            # magnitudes stay below 2^23 grid units (see ASSUMPTIONS)
            for shape, xs in (([6, 2], [v * 2.0 ** 8 for v in onez]),
                              ([6, 2], onez),
                              ([6, 2], [v * 2.0 ** -12 for v in onez])):
              cases.append({"cfg": {"cls": cls, "kw": dict(kw)}, "shape": shape,
                            "xs": xs})
      # rounding mode x learning phase, reconfiguration histories
      kw = {"bits": 4, "integer": 1, "alpha": a}
      other = "auto" if a == "auto_po2" else "auto_po2"
      for shape, xs in (([7, 2], sp), ([6, 2], onez)):
        def add(kw_, **extra):
          cases.append(dict({"cfg": {"cls": cls, "kw": kw_}, "shape": shape,
                             "xs": xs}, **extra))
        add(dict(kw), phase=1)
        add(dict(kw, use_stochastic_rounding=True), tf_seed=1)
        add(dict(kw, use_stochastic_rounding=True), tf_seed=2, phase=1)
        add(dict(kw, alpha=other), steps=[
            {"op": "call"}, {"op": "set", "attr": "alpha", "value": a}])
        if cls == "quantized_linear":
          for pre in ("max", "call"):
            for fin in (0, 1):
              add(dict(kw, symmetric=1 - fin), steps=[
                  {"op": pre}, {"op": "set", "attr": "symmetric", "value": fin}])
        if a == "auto_po2":
          kn = dict(kw, alpha=None, symmetric=0)
          add(dict(kn), steps=[{"op": "call"}, {"op": "trainable"}])
          for kind in G.LAYER_KINDS:
            add(dict(kn), steps=[{"op": "min"}, {"op": "layer", "kind": kind}])
  return cases


def run(ctx):
  import tensorflow as tf  # pylint: disable=g-import-not-at-top
  if abs(float(tf.keras.backend.epsilon()) - EPS) > 1e-12:
    raise core.HarnessError("K.epsilon() is %r, reference assumes 1e-7" %
                            tf.keras.backend.epsilon())
  G.configure(ctx.tier)
  for case in ctx.shard(edge_cases()):
    for sc, sig, d in oracle(ctx, case):
      ctx.fail(sc, sig, case, d)
  n = (16000 if ctx.quick else 240000) // ctx.n + 1
  # chunks: the soft budget is checked between Hypothesis runs, so a slow
  # machine ends the search early (recorded as inconclusive tail) instead of
  # generating examples that are no longer evaluated
  chunk = 250 if ctx.quick else 2000
  done, i = 0, 0
  while done < n:
    if ctx.time_left() <= 0:
      ctx.labels["inconclusive_time"] += 1
      break
    m = min(chunk, n - done)
    core.hyp_run(ctx, G.c05_case(), lambda c: oracle(ctx, c), m, name="c05_%d" % i)
    done += m
    i += 1
  ctx.info["hyp_cases_requested"] = done


def replay(ctx, case):
  for sc, sig, d in oracle(ctx, case):
    ctx.fail(sc, sig, case, d)
