"""C17 - qtools accumulator, adder, bias-add and merge types hold every sum
they are sized for; widening an operand never narrows the result type."""
import itertools
import math

from vf import core
from vf.gen import qtypes as G
from vf.ref import qtypes as R
from vf.ref.qtypes import Fr

RULE = ("a case is one TYPE-LEVEL configuration (never a value pair): "
        "'acc' = (weight type, input type, kernel shape, use_bias) -> "
        "MultiplierFactory + AccumulatorFactory; 'add' = ordered operand type "
        "pair -> adder_factory.IAdder().make_quantizer; 'bias' = accumulator "
        "output (use_bias=False) + bias type through IAdder (the path of "
        "generate_layer_data_type_map); 'merge' = 2..4 operand types + merge "
        "layer name -> MergeFactory().make_quantizer; 'mono' = one of the "
        "above + one widening step (operand bits+1, bits+1&int_bits+1, po2 "
        "bits+1 / cap x2 / cap removed, N -> N+1, use_bias False -> True); "
        "'seq' = a SEQUENCE of acc/add/bias/merge items served in order by "
        "ONE instance of MultiplierFactory, AccumulatorFactory, IAdder and "
        "MergeFactory (families of types differing only in max_val_po2 / "
        "int_bits / class name, in ascending, descending and interleaved "
        "order; one multiplier over many kernel shapes; one operand list over "
        "all merge layers), an item failing only on the shared factories is "
        "'stale_factory_state'.  Kernel shapes: dense (n,o), rank-3 (k,ci,co) "
        "and rank-4 (kh,kw,ci,co) with every (c_in,c_out) in {1,2,many}^2 and "
        "dense (n,1).  "
        "Deterministic part: type list T (fixed 1..16 bits signed/unsigned, "
        "po2 1..8 bits x caps, ternary, binary, binary01, bernoulli, "
        "stochastic_*, quantized_relu(1,1), ulaw, leaky relu) - all ordered "
        "pairs of T as multipliers x a rotating third (thorough: half) of the N "
        "list {1,2,3,4,5,8,9,...,2^20-1,2^20} as dense (N,o) and conv "
        "(kh,kw,ci,co) shapes x use_bias; all ordered "
        "pairs of T as adder operands; a bias sample; all pairs of a merge "
        "list x 5 merge layers plus triples/quadruples; widenings of all of "
        "them.  Random part: Hypothesis draws of every case kind with bits <= "
        "16 and N <= 2^20.  Non-trivial: acc with N >= 2; add/bias/merge with "
        "operands that are not all the same type; every mono case.  Distinct "
        "by hash of the case description.  Nothing in this check is "
        "exhaustive over a closed domain (coverage.exhaustive=false).")
ASSUMPTIONS = [
    "all arithmetic exact (Fractions); no tolerance",
    "value sets as in C16: fixed k*2^-(bits-sign-int_bits); po2 operands +-2^e cut at max_val_po2; ternary/binary kinds judged by value set; a multiplier/accumulator output fed into the next operator is read from its reported fields (operand role)",
    "sum containment is decided from extremes: N*min, N*max (resp. sum of operand minima/maxima) must be members and the result step must divide the granularity (gcd of value differences) of every operand; this is necessary and sufficient for all sums because a fixed-point lattice is closed under addition inside its range; brute-force enumeration of all N-term sums (lattice <= 9 values, N <= 4) cross-checks it and a disagreement is a harness error",
    "N = prod(kernel_shape[:-1]) for every rank (2, 3, 4) - 'a kernel of N multiply-accumulate terms' per output element; make_accumulator has no depthwise heuristic of its own: the depthwise and pooling callers (generate_layer_data_type_map.py, qtools_util.py) rewrite their kernel to (kh,kw,1,1) BEFORE the call, so (kh,kw,1,1) means kh*kw terms and (kh,kw,c_in,1) is an ordinary convolution with one filter and kh*kw*c_in terms; rank-3 Conv1D kernels are passed by the callers as they are (the library logs 'unsupported kernel shape' at CRITICAL level and sizes them by the same rule)",
    "use_bias=True is additionally required to hold N+1 terms of the multiplier type (accumulator_impl: 'each filter adds 1 bias'; the bias type is unknown to make_accumulator)",
    "Maximum/Minimum/Concatenate results must contain every operand lattice; Average is only required to cover [mean of minima, mean of maxima] after rounding towards the inside (no resolution claim); merge Multiply is C16's chain and not re-checked",
    "widening = replacing an operand type by a superset lattice (bits+1 keeping int_bits, bits+1 and int_bits+1, po2 bits+1, po2 cap doubled/removed), N+1, or adding the bias; compared fields: bits, int_bits, bits-sign-int_bits of fixed-point results",
    "quantized_tanh is excluded here (its conversion defect is C16-KF3)",
]
BUDGET_S = {"quick": 70, "thorough": 800}
REQUIRED_LABELS = {
    "quick": ["acc", "add", "bias", "merge", "mono", "hyp", "acc:Po2Accumulator",
              "acc:FixedPointAccumulator", "acc:FloatingPointAccumulator",
              "add:FixedPointAdder", "add:Po2FixedPointAdder", "add:Po2Adder",
              "add:FloatingPointAdder", "merge:Add", "merge:Maximum", "merge:Minimum",
              "merge:Average", "merge:Concatenate", "N>=2^16", "N_pow2", "bruteforce",
              "merge_n>2", "via:factory", "via:impl", "seq", "seq_item:acc", "seq_item:add",
              "seq_item:merge", "seq_item:bias", "dense:co=1"] +
             ["r%d:ci=%s,co=%s" % (r, a, b) for r in (3, 4) for a in ("1", "2", "many") for b in ("1", "2", "many")],
}
REQUIRED_LABELS["thorough"] = REQUIRED_LABELS["quick"]

MERGE_OPS = ["Add", "Maximum", "Minimum", "Average", "Concatenate"]


# --------------------------------------------------------------------------
# helpers


def _is_pow2(n):
  return n >= 1 and (n & (n - 1)) == 0


def _frac(q):
  return int(q.bits) - int(bool(q.is_signed)) - int(q.int_bits)


def _lib(e):
  """True if the exception was raised inside the code under test."""
  return core.qkeras_frame(e.__traceback__) is not None


def _sum_clauses(lo, lats, lo_sum, hi_sum):
  """Clauses violated by a result lattice `lo` for a sum whose extreme values
  are lo_sum / hi_sum and whose terms come from lattices `lats`."""
  out = {}
  for name, v in (("min", lo_sum), ("max", hi_sum)):
    why = lo.why_not(v)
    if why:
      out.setdefault(why, "%s sum %s not in %s" % (name, v, lo.describe()))
  if lo.kind == "fixed":
    for l in lats:
      if l.gran is not None and (l.gran / lo.step).denominator != 1:
        out.setdefault("step", "result step %s is coarser than / does not divide operand granularity %s of %s" % (
            lo.step, l.gran, l.describe()))
  return out


def _brute_sums(lat, n):
  vals = lat.values()
  for combo in itertools.combinations_with_replacement(vals, n):
    yield sum(combo, Fr(0))


def conv_shape(n, co=2):
  """(kh, kw, ci, co) with kh*kw*ci == n."""
  kh = kw = 1
  for f in (7, 5, 3, 2):
    if n % f == 0 and kh == 1:
      kh, n = f, n // f
  for f in (3, 2, 5, 7):
    if n % f == 0 and kw == 1:
      kw, n = f, n // f
  return [kh, kw, n, co]


def conv1d_shape(n, co=2):
  """(k, ci, co) with k*ci == n (Conv1D kernels are passed as rank 3)."""
  k = 3 if n % 3 == 0 else (2 if n % 2 == 0 else 1)
  return [k, n // k, co]


def shape_for(n, k):
  """k-th of nine shape forms with prod(shape[:-1]) == n."""
  k %= 9
  if k < 3:
    return [n, (1, 2, 5)[k]]
  if k < 6:
    return conv_shape(n, (1, 2, 7)[k - 3])
  return conv1d_shape(n, (1, 2, 4)[k - 6])


def shape_family():
  """every (c_in, c_out) in {1, 2, many}^2 for rank-4 and rank-3 kernels, and
  dense (n, 1)."""
  out = []
  for kh, kw in ((1, 1), (3, 3), (2, 5)):
    for ci in (1, 2, 16):
      for co in (1, 2, 7):
        out.append([kh, kw, ci, co])
  out += [[1, 1, 64, 1], [3, 3, 16, 1]]
  for k in (1, 3):
    for ci in (1, 2, 16):
      for co in (1, 2, 7):
        out.append([k, ci, co])
  out += [[1, 1], [2, 1], [64, 1]]
  return out


def _cls(v):
  return "1" if v == 1 else ("2" if v == 2 else "many")


def shape_label(shape):
  if len(shape) == 2:
    return "dense:co=%s" % _cls(shape[-1])
  return "r%d:ci=%s,co=%s" % (len(shape), _cls(shape[-2]), _cls(shape[-1]))


def widen_desc(d, how):
  """Superset type of d (same kind, same construction route), or None if
  `how` does not apply."""
  d2 = dict(d)
  k = d["k"]
  if k == "fixed":
    if _is_relu11(d) or d.get("q") in ("quantized_tanh", "int8", "int16"):
      return None          # widening would change the kind / is not expressible
    if d["bits"] >= 24:
      return None
    if how == "bits+1":
      d2["bits"] = d["bits"] + 1
      return d2
    if how == "int+1":
      d2["bits"], d2["int"] = d["bits"] + 1, d["int"] + 1
      return d2
    return None
  if k == "po2":
    if how == "bits+1" and d["bits"] < 8:
      d2["bits"] = d["bits"] + 1
      return d2
    if how == "cap*2" and d.get("max") is not None:
      d2["max"] = d["max"] + 1
      return d2
    if how == "cap_off" and d.get("max") is not None:
      d2["max"] = None
      return d2
  return None


def _is_relu11(d):
  return (d["k"] == "fixed" and not d["signed"] and d["bits"] == 1 and d["int"] == 1 and
          d.get("via") == "factory" and d.get("q") in (None, "quantized_relu"))


WIDENINGS = ["bits+1", "int+1", "cap*2", "cap_off"]


# --------------------------------------------------------------------------
# running the code under test


class LibFailure(Exception):
  def __init__(self, sub, sig, detail):
    Exception.__init__(self, detail)
    self.f = (sub, sig, detail)


def _build(d):
  try:
    return R.build(d)
  except Exception as e:  # pylint: disable=broad-except
    if not _lib(e):
      raise
    raise LibFailure("build_raises", dict(core.exc_signature(e), q=R.desc_label(d)), repr(e)[:300])


_LAST = {}
_SHARED = {}     # non-empty while a 'seq' case runs: one factory instance of each kind


def _new_factories():
  from qkeras.qtools.quantized_operators import accumulator_factory, adder_factory, merge_factory, multiplier_factory  # pylint: disable=g-import-not-at-top
  return {"mult": multiplier_factory.MultiplierFactory(), "acc": accumulator_factory.AccumulatorFactory(),
          "add": adder_factory.IAdder(), "merge": merge_factory.MergeFactory()}


def make_mult(w, x):
  """(the factories deep-copy their arguments, so outside shared-factory
  sequences the last multiplier is reused while consecutive cases share the
  operand pair)"""
  from qkeras.qtools.quantized_operators import multiplier_factory  # pylint: disable=g-import-not-at-top
  key = core.jhash([w, x])
  if not _SHARED and _LAST.get("key") == key:
    return _LAST["m"]
  qw, qx = _build(w), _build(x)
  try:
    if _SHARED:
      return _SHARED["mult"].make_multiplier(qw, qx)
    m = multiplier_factory.MultiplierFactory().make_multiplier(qw, qx)
    _LAST.update(key=key, m=m)
    return m
  except Exception as e:  # pylint: disable=broad-except
    if not _lib(e):
      raise
    raise LibFailure("make_multiplier_raises",
                     dict(core.exc_signature(e), w=R.desc_label(w), x=R.desc_label(x)), repr(e)[:300])


def make_acc(m, shape, bias):
  from qkeras.qtools.quantized_operators import accumulator_factory  # pylint: disable=g-import-not-at-top
  try:
    return (_SHARED.get("acc") or accumulator_factory.AccumulatorFactory()).make_accumulator(tuple(shape), m, bool(bias))
  except Exception as e:  # pylint: disable=broad-except
    if not _lib(e):
      raise
    raise LibFailure("make_accumulator_raises",
                     dict(core.exc_signature(e), mult=type(m).__name__, mkind=R.obj_kind(m.output)), repr(e)[:300])


def make_add(qa, qb, la, lb):
  from qkeras.qtools.quantized_operators import adder_factory  # pylint: disable=g-import-not-at-top
  try:
    return (_SHARED.get("add") or adder_factory.IAdder()).make_quantizer(qa, qb)
  except Exception as e:  # pylint: disable=broad-except
    if not _lib(e):
      raise
    raise LibFailure("make_adder_raises", dict(core.exc_signature(e), a=la, b=lb), repr(e)[:300])


def make_merge(qs, op, labs):
  from qkeras.qtools.quantized_operators import merge_factory  # pylint: disable=g-import-not-at-top
  try:
    lst = [(q, {"shape": (None, 4), "name": "e%d" % i}) for i, q in enumerate(qs)]
    return (_SHARED.get("merge") or merge_factory.MergeFactory()).make_quantizer(lst, op)
  except Exception as e:  # pylint: disable=broad-except
    if not _lib(e):
      raise
    raise LibFailure("make_merge_raises", dict(core.exc_signature(e), site="merge." + op,
                                               kinds="+".join(sorted(set(labs)))), repr(e)[:300])


# --------------------------------------------------------------------------
# oracles; each returns (fails, labels, result_object_or_None)


def check_acc(case, st):
  w, x, shape, bias = case["w"], case["x"], case["shape"], bool(case["bias"])
  n = 1
  for s in shape[:-1]:
    n *= int(s)
  m = make_mult(w, x)
  acc = make_acc(m, shape, bias)
  site = type(acc).__name__
  mk = R.obj_kind(m.output)
  st["labels"] += ["acc:" + site, "mult:" + type(m).__name__, "mkind:" + mk,
                   "shape%d" % len(shape), shape_label(shape)]
  if n >= 1 << 16:
    st["labels"].append("N>=2^16")
  if _is_pow2(n):
    st["labels"].append("N_pow2")
  base = {"site": site, "mult": type(m).__name__, "mkind": mk}
  fails = []
  out = acc.output
  if mk == "float":
    if not out.is_floating_point:
      fails.append(("acc_float", dict(base, clause="not_float"), "%r" % (R.fields(out),)))
    elif out.bits != m.output.bits:
      fails.append(("acc_float", dict(base, clause="bits"), "acc bits %r, multiplier bits %r" % (out.bits, m.output.bits)))
    return fails, out
  if out.is_floating_point:
    fails.append(("acc_float", dict(base, clause="float_from_quantized"), "%r" % (R.fields(out),)))
    return fails, out
  try:
    lm = R.obj_lat(m.output, "operand")
  except ValueError as e:
    if mk == "po2" and "empty" in str(e):
      # reported cap below the smallest exponent of the reported width: the
      # multiplier type holds no value at all (only produced by the signed x
      # unsigned po2 Adder, C16-KF1) - nothing to accumulate, C16's business
      st["labels"].append("mult_type_holds_no_value")
      st["skip_known_upstream"] = True
      return [], out
    raise LibFailure("bad_multiplier_type", dict(base, clause="fields"), "%s %r" % (e, R.fields(m.output)))
  try:
    lo = R.obj_lat(out, "output")
  except ValueError as e:
    return [("acc_sum", dict(base, clause="fields", n="-"), "%s %r" % (e, R.fields(out)))], out
  ctxs = "N=%d bias=%s multiplier output %r = %s; accumulator %r" % (
      n, bias, R.fields(m.output), lm.describe(), R.fields(out))
  cl = _sum_clauses(lo, [lm], n * lm.vmin, n * lm.vmax)
  for c, d in sorted(cl.items()):
    fails.append(("acc_sum", dict(base, clause=c, n="pow2" if _is_pow2(n) else "other"), d + "; " + ctxs))
  if bias:
    cl2 = _sum_clauses(lo, [lm], (n + 1) * lm.vmin, (n + 1) * lm.vmax)
    for c, d in sorted(cl2.items()):
      if c not in cl:
        fails.append(("acc_sum_bias", dict(base, clause=c, n="pow2" if _is_pow2(n + 1) else "other"),
                      "(N+1 terms) " + d + "; " + ctxs))
  # brute force cross-check of the extremes argument
  if lm.size <= 9 and n <= 4 and not st.get("nobrute"):
    st["labels"].append("bruteforce")
    bad = [s for s in _brute_sums(lm, n) if not lo.contains(s)]
    if bool(bad) != bool(cl):
      raise core.HarnessError("extremes/step argument and brute force disagree: %s bad=%r clauses=%r" % (ctxs, bad[:3], cl))
  return fails, out


def _add_oracle(adder, la, lb, labs, sub="adder_sum", brute=True):
  site = type(adder).__name__
  out = adder.output
  # tb: an operand of ternary / binary(+-1) kind is involved (directly or as
  # the kind of the multiplier behind an accumulator)
  tb = any(("ternary" in l) or l.startswith("binary:") or l == "binary" or l == "acc[binary]" for l in labs)
  base = {"site": site, "a": labs[0], "b": labs[1], "tb": tb}
  fails = []
  if la.kind == "float" or lb.kind == "float":
    if not out.is_floating_point:
      fails.append((sub, dict(base, clause="not_float"), "%r" % (R.fields(out),)))
    return fails, out
  if out.is_floating_point:
    fails.append((sub, dict(base, clause="float_from_quantized"), "%r" % (R.fields(out),)))
    return fails, out
  try:
    lo = R.obj_lat(out, "output")
  except ValueError as e:
    return [(sub, dict(base, clause="fields"), "%s %r" % (e, R.fields(out)))], out
  cl = _sum_clauses(lo, [la, lb], la.vmin + lb.vmin, la.vmax + lb.vmax)
  for c, d in sorted(cl.items()):
    fails.append((sub, dict(base, clause=c), "%s; operands %s + %s; reported %r" % (
        d, la.describe(), lb.describe(), R.fields(out))))
  if brute and la.size * lb.size <= 256:
    bad = [(u, v) for u in la.values() for v in lb.values() if not lo.contains(u + v)]
    if bool(bad) != bool(cl):
      raise core.HarnessError("extremes/step argument and brute force disagree: %s + %s -> %s bad=%r cl=%r" % (
          la.describe(), lb.describe(), lo.describe(), bad[:3], cl))
  return fails, out


def check_add(case, st):
  a, b = case["a"], case["b"]
  qa, qb = _build(a), _build(b)
  labs = (R.desc_label(a), R.desc_label(b))
  adder = make_add(qa, qb, *labs)
  st["labels"] += ["add:" + type(adder).__name__]
  return _add_oracle(adder, R.desc_lat(a), R.desc_lat(b), labs, brute=not st.get("nobrute"))


def check_bias(case, st):
  w, x, shape, b = case["w"], case["x"], case["shape"], case["b"]
  m = make_mult(w, x)
  acc = make_acc(m, shape, False)
  qb = _build(b)
  mk = R.obj_kind(m.output)
  labs = ("acc[%s]" % mk, R.desc_label(b))
  adder = make_add(acc.output, qb, *labs)
  st["labels"] += ["add:" + type(adder).__name__, "bias_acc:" + type(acc).__name__]
  if acc.output.is_floating_point:
    la = R.FloatLat(acc.output.bits)
  else:
    try:
      la = R.obj_lat(acc.output, "operand")
    except ValueError as e:
      raise LibFailure("bad_accumulator_type", {"site": type(acc).__name__, "mkind": mk}, "%s %r" % (e, R.fields(acc.output)))
  return _add_oracle(adder, la, R.desc_lat(b), labs, sub="bias_sum", brute=not st.get("nobrute"))


def _finest_is_widest(lats):
  fin = [l for l in lats if l.kind != "float"]
  if not fin:
    return True
  grans = [l.gran for l in fin if l.gran is not None]
  finest = min(grans) if grans else None
  widest = max(max(abs(l.vmin), abs(l.vmax)) for l in fin)
  return any((finest is None or l.gran == finest) and max(abs(l.vmin), abs(l.vmax)) == widest for l in fin)


def _merge_clauses(op, descs):
  """Runs the merge factory; -> (clauses {name: detail}, output, context)."""
  qs = [_build(d) for d in descs]
  lats = [R.desc_lat(d) for d in descs]
  mg = make_merge(qs, op, [R.desc_label(d) for d in descs])
  out = mg.output
  if any(l.kind == "float" for l in lats):
    return ({} if out.is_floating_point else {"not_float": "%r" % (R.fields(out),)}), out, "", None
  if out.is_floating_point:
    return {"float_from_quantized": "%r" % (R.fields(out),)}, out, "", None
  try:
    lo = R.obj_lat(out, "output")
  except ValueError as e:
    return {"fields": "%s %r" % (e, R.fields(out))}, out, "", None
  ctxs = "operands %s; reported %r = %s" % (" , ".join(l.describe() for l in lats), R.fields(out), lo.describe())
  cl = {}
  if op == "Add":
    cl = _sum_clauses(lo, lats, sum((l.vmin for l in lats), Fr(0)), sum((l.vmax for l in lats), Fr(0)))
  elif op in ("Maximum", "Minimum", "Concatenate"):
    for l in lats:
      for v in l.extremes():
        why = lo.why_not(v)
        if why:
          cl.setdefault(why, "operand value %s of %s not in result" % (v, l.describe()))
  elif op == "Average":
    k = len(lats)
    lo_m = sum((l.vmin for l in lats), Fr(0)) / k
    hi_m = sum((l.vmax for l in lats), Fr(0)) / k
    if lo.kind == "fixed":
      hi_in = math.floor(hi_m / lo.step) * lo.step      # rounded towards the inside
      lo_in = math.ceil(lo_m / lo.step) * lo.step
      if hi_in > lo.vmax:
        cl["above_max"] = "mean of maxima %s (rounded down %s) above result max" % (hi_m, hi_in)
      if lo_in < lo.vmin:
        cl["below_min"] = "mean of minima %s (rounded up %s) below result min" % (lo_m, lo_in)
  return cl, out, ctxs, lo


def _t_tb(d):
  if d["k"] in ("ternary", "binary"):
    return {"k": "fixed", "bits": 2, "int": 1, "signed": 1, "via": "impl"}
  return d


def _t_po2(d):
  if d["k"] != "po2":
    return d
  l = R.desc_lat(d)
  frac, ib = -l.emin, max(l.emax, 0) + 1
  return {"k": "fixed", "bits": l.signed + ib + frac, "int": ib, "signed": l.signed, "via": "impl"}


def _t_sign(d):
  if R.desc_sign(d):
    return d
  if d["k"] == "binary01":
    return {"k": "fixed", "bits": 2, "int": 1, "signed": 1, "via": "impl"}
  if d["k"] == "fixed":
    return {"k": "fixed", "bits": d["bits"] + 1, "int": d["int"], "signed": 1, "via": "impl"}
  return d


def diagnose_merge(op, descs, clause):
  """Root-cause class of a failing merge clause, by repair experiments: the
  operands are replaced, family by family, by plain fixed-point types holding
  a superset of their values; the first replacement that makes the clause
  disappear names the cause."""
  cur = list(descs)
  for name, tr in (("tb_fields", _t_tb), ("po2_conversion", _t_po2)):
    new = [tr(d) for d in cur]
    if new != cur:
      try:
        if clause not in _merge_clauses(op, new)[0]:
          return name
      except LibFailure:
        return name
      cur = new
  if len(set(R.desc_sign(d) for d in cur)) > 1:
    new = [_t_sign(d) for d in cur]
    if clause not in _merge_clauses(op, new)[0]:
      return "mixed_sign"
    cur = new
  if len(cur) > 2:
    if all(clause not in _merge_clauses(op, [a, b])[0] for a, b in itertools.combinations(cur, 2)):
      return "more_than_two_operands"
  return "sizing" if _finest_is_widest([R.desc_lat(d) for d in cur]) else "bits_and_int_bits_from_different_operands"


def check_merge(case, st):
  op, descs = case["op"], case["ops"]
  cl, out, ctxs, lo = _merge_clauses(op, descs)
  st["labels"] += ["merge:" + op, "merge_n%d" % len(descs)]
  if len(descs) > 2:
    st["labels"].append("merge_n>2")
  sub = "merge_" + ("sum" if op == "Add" else "select" if op != "Average" else "mean")
  fails = []
  for c, d in sorted(cl.items()):
    cause = diagnose_merge(op, descs, c) if (c not in ("not_float", "float_from_quantized", "fields") and not st.get("nobrute")) else "-"
    sig = {"site": "merge." + op, "clause": c, "cause": cause, "out": lo.kind if lo is not None else "-",
           "n_ops": "2" if len(descs) <= 2 else ">2"}
    fails.append((sub, sig, d + "; " + ctxs))
  return fails, out


CHECKS = {"acc": check_acc, "add": check_add, "bias": check_bias, "merge": check_merge}


def widened(case, wd):
  """The widened variant of a base case, or None when not applicable."""
  c = dict(case)
  tgt, how = wd["target"], wd["how"]
  if how == "N+1":
    if c["t"] not in ("acc", "bias"):
      return None
    sh = list(c["shape"])
    sh[-2] += 1
    c["shape"] = sh
    return c
  if how == "bias_on":
    if c["t"] != "acc" or c["bias"]:
      return None
    c["bias"] = True
    return c
  if tgt == "ops":
    if c["t"] != "merge":
      return None
    i = wd.get("index", 0) % len(c["ops"])
    d2 = widen_desc(c["ops"][i], how)
    if d2 is None:
      return None
    c["ops"] = list(c["ops"])
    c["ops"][i] = d2
    return c
  if tgt not in c:
    return None
  d2 = widen_desc(c[tgt], how)
  if d2 is None:
    return None
  c[tgt] = d2
  return c


def check_mono(case, st):
  base, wd = case["base"], case["widen"]
  wide = widened(base, wd)
  if wide is None:
    st["skip"] = True
    return [], None
  st2 = {"labels": [], "nobrute": True}
  _, o1 = CHECKS[base["t"]](base, st2)
  _, o2 = CHECKS[base["t"]](wide, {"labels": [], "nobrute": True})
  st["labels"] += [l for l in st2["labels"] if l.split(":")[0] in ("acc", "add", "merge")]
  how = wd["how"]
  tdesc = None
  if wd["target"] == "ops" and base["t"] == "merge":
    tdesc = base["ops"][wd.get("index", 0) % len(base["ops"])]
  elif wd["target"] in base and isinstance(base[wd["target"]], dict):
    tdesc = base[wd["target"]]
  if how == "bits+1" and tdesc is not None and tdesc["k"] == "po2":
    how = "po2_bits+1"      # widens the exponent range on both sides
  st["labels"].append("widen:" + how)
  if o1 is None or o2 is None or o1.is_floating_point or o2.is_floating_point:
    st["skip"] = True
    return [], None
  if R.obj_kind(o1) != "fixed" or R.obj_kind(o2) != "fixed":
    st["labels"].append("mono_nonfixed_result")
    return [], o2
  site = {"acc": "accumulator", "add": "adder", "bias": "bias_adder"}.get(base["t"]) or ("merge." + base["op"])
  fails = []
  for name, f in (("bits", lambda q: int(q.bits)), ("int_bits", lambda q: int(q.int_bits)), ("frac", _frac)):
    if f(o2) < f(o1):
      sig = {"site": site, "field": name, "widen": how, "target": wd["target"]}
      if base["t"] == "merge":
        sig["n"] = "2" if len(base["ops"]) == 2 else ">2"
      fails.append(("monotonic", sig, "%s shrinks %d -> %d when %s of %s is widened: %r -> %r ; results %r -> %r" % (
          name, f(o1), f(o2), how, wd["target"], base, wide, R.fields(o1), R.fields(o2))))
  return fails, o2


CHECKS["mono"] = check_mono


def _item_fails(item):
  st = {"labels": [], "nobrute": False}
  try:
    fails, _ = CHECKS[item["t"]](item, st)
  except LibFailure as lf:
    fails = [lf.f]
  return fails, st


def check_seq(case, st):
  """The items (acc / add / bias / merge cases) are served in order by ONE
  instance of each factory; every result is judged by the item's own oracle.
  An item that fails on the shared factories but not on fresh ones is
  reported as stale_factory_state."""
  items = case["items"]
  shared_res = []
  _SHARED.update(_new_factories())
  try:
    for it in items:
      shared_res.append(_item_fails(it))
  finally:
    _SHARED.clear()
  fails = []
  for pos, (it, (fs, ist)) in enumerate(zip(items, shared_res)):
    st["labels"] += ["seq_item:" + it["t"]] + [l for l in ist["labels"] if l.split(":")[0] in ("acc", "add", "merge")]
    if not fs:
      continue
    fresh = set(core.fkey(sc, sig) for sc, sig, _ in _item_fails(it)[0])
    for sc, sig, detail in fs:
      if core.fkey(sc, sig) in fresh:
        fails.append((sc, sig, detail))
      else:
        fails.append(("stale_factory_state", dict(sig, was=sc, item=it["t"]),
                      "item #%d (%r) passes with fresh factories but fails on the shared ones: %s" % (pos, it, detail)))
  st["labels"].append("seq_len%d" % min(len(items), 9))
  return fails, None


CHECKS["seq"] = check_seq


def oracle(case, st=None):
  st = st if st is not None else {}
  st.setdefault("labels", [])
  try:
    fails, _ = CHECKS[case["t"]](case, st)
  except LibFailure as lf:
    fails = [lf.f]
  return fails


def _descs(case):
  if case["t"] == "mono":
    return _descs(case["base"])
  if case["t"] == "seq":
    return [d for it in case["items"] for d in _descs(it)]
  return [case[k] for k in ("w", "x", "a", "b") if k in case] + list(case.get("ops", []))


def nontrivial(case):
  t = case["t"]
  if t == "mono":
    return True
  if t == "seq":
    return len(case["items"]) >= 2
  if t == "acc":
    n = 1
    for s in case["shape"][:-1]:
      n *= s
    return n >= 2
  ds = _descs(case) if t != "bias" else [case["b"], case["w"]]
  key = [(d["k"], d.get("bits"), d.get("int"), d.get("signed"), d.get("max")) for d in ds]
  return len(set(key)) > 1


def run_case(ctx, case, extra=()):
  st = {"labels": []}
  fails = oracle(case, st)
  if st.get("skip"):
    ctx.labels["skipped_not_applicable"] += 1
    return []
  vias = set(d.get("via", "impl") for d in _descs(case))
  labs = list(extra) + [case["t"]] + st["labels"] + ["via:" + v for v in sorted(vias)]
  ctx.tick(case, labels=labs, nontrivial=nontrivial(case),
           sample_label=case["t"] + ":" + (st["labels"][0] if st["labels"] else ""))
  return fails


# --------------------------------------------------------------------------
# enumeration


def type_list(tier):
  q = tier == "quick"
  fx = [(1, 0), (2, 0), (2, 1), (3, 1), (4, 2), (5, 5), (8, 0), (8, 3), (16, 7)]
  if not q:
    fx += [(1, 1), (3, 0), (3, 3), (4, 4), (6, 2), (7, 6), (12, 4), (16, 0), (16, 16)]
  out = []
  for b, i in fx:
    for s in (1, 0):
      out.append({"k": "fixed", "bits": b, "int": i, "signed": s})
  pb = [(2, 1), (3, 1), (4, 1), (5, 1), (1, 0), (2, 0), (3, 0), (4, 0)] + ([] if q else [(6, 1), (8, 1), (6, 0), (8, 0)])
  caps = [None, -1, 0, 2] if q else [None, -2, -1, 0, 1, 2, 4]
  for b, s in pb:
    for c in caps:
      if G._po2_ok(b, s, c):   # pylint: disable=protected-access
        out.append({"k": "po2", "bits": b, "signed": s, "max": c})
  out += G.small_kinds()
  out += [d for d in G.named_factory_types((4,) if q else (3, 8)) if d.get("q") != "quantized_tanh"]
  return out


def n_list(tier):
  ns = [1, 2, 3, 4, 5, 8, 9, 256, 1025, 65536, (1 << 20) - 1, 1 << 20]
  if tier != "quick":
    ns += [6, 7, 15, 16, 17, 255, 31, 32, 33, 63, 64, 65, 127, 128, 129, 257, 511, 512, 513, 1023, 1024,
           4095, 4096, 4097, 65535, 65537, (1 << 19), (1 << 19) + 1]
  return sorted(set(ns))


def cases(tier):
  """Deterministic case stream (a generator; sharded by the caller)."""
  T = type_list(tier)
  ns = n_list(tier)
  idx = 0
  fl = G.float_types()
  # accumulators
  for w, x in itertools.product(T + fl[:1], T + fl[:1]):
    idx += 1
    w2, x2 = G.with_via(w, idx), G.with_via(x, idx // 2)
    for j, n in enumerate(ns):
      if (tier == "quick" and (j + idx) % 3) or (tier != "quick" and (j + idx) % 2):
        continue            # every pair gets a rotating third (thorough: half) of the N list
      shape = shape_for(n, j // 3 + idx)
      for bias in (False, True):
        yield {"t": "acc", "w": w2, "x": x2, "shape": shape, "bias": bias}
    if idx % 7 == 0:
      # kernel-shape family: every (c_in, c_out) class for rank 4 / 3, dense (n,1)
      fam = shape_family()
      for j in range(6 if tier == "quick" else 12):
        k = (idx // 7 * 6 + j) % len(fam)
        yield {"t": "acc", "w": w2, "x": x2, "shape": fam[k], "bias": bool((idx + j) % 2)}
  # adders
  for a, b in itertools.product(T + fl, T + fl):
    idx += 1
    yield {"t": "add", "a": G.with_via(a, idx), "b": G.with_via(b, idx // 2)}
  # bias path
  BT = [d for i, d in enumerate(T) if i % 3 == 0] + fl[:1]
  MT = [d for i, d in enumerate(T) if i % 4 == 1]
  for w, x, b in itertools.product(MT, MT, BT):
    idx += 1
    n = ns[idx % len(ns)]
    yield {"t": "bias", "w": G.with_via(w, idx), "x": G.with_via(x, idx // 2),
           "shape": [n, 2] if idx % 2 else conv_shape(n), "b": G.with_via(b, idx // 4)}
  # merges
  ML = [d for i, d in enumerate(T) if i % 2 == 0 or d["k"] not in ("fixed", "po2")] + fl[:1]
  for a, b in itertools.product(ML, ML):
    idx += 1
    for op in MERGE_OPS:
      yield {"t": "merge", "op": op, "ops": [G.with_via(a, idx), G.with_via(b, idx // 2)]}
  M3 = [d for i, d in enumerate(ML) if i % 3 == 0]
  for tup in itertools.product(M3, M3, M3):
    idx += 1
    ops = [G.with_via(d, idx + j) for j, d in enumerate(tup)]
    if idx % 3 == 0:
      ops.append(G.with_via(M3[idx % len(M3)], idx))
    for op in (MERGE_OPS if idx % 2 else ["Add", "Maximum"]):
      yield {"t": "merge", "op": op, "ops": ops}


def seq_cases(tier):
  """Shared-factory sequences: families of types that differ only in
  max_val_po2 / int_bits / class name, served by one factory of each kind."""
  fams = G.variant_families(tier)
  partners = G.seq_partners()
  fam_shapes = shape_family()
  n = 0
  for fam in fams:
    fam = [d for d in fam if d.get("q") != "quantized_tanh"]
    for p in partners:
      for od in G.orders(fam):
        n += 1
        vs = [G.with_via(d, n + j) for j, d in enumerate(od)]
        pv = G.with_via(p, n // 2)
        shape = fam_shapes[n % len(fam_shapes)]
        yield {"t": "seq", "items": [{"t": "acc", "w": d, "x": pv, "shape": shape, "bias": bool(n % 2)} for d in vs]}
        yield {"t": "seq", "items": [{"t": "add", "a": d, "b": pv} if n % 2 else {"t": "add", "a": pv, "b": d} for d in vs]}
        op = MERGE_OPS[n % len(MERGE_OPS)]
        yield {"t": "seq", "items": [{"t": "merge", "op": op, "ops": [d, pv] + ([vs[0]] if n % 3 == 0 else [])} for d in vs]}
        if n % 3 == 0:
          yield {"t": "seq", "items": [{"t": "bias", "w": pv, "x": pv, "shape": [4, 2], "b": d} for d in vs]}
    # one multiplier, many kernel shapes / bias settings; one operand list, all merge layers
    n += 1
    w, x = G.with_via(fam[0], n), G.with_via(partners[n % len(partners)], n)
    shapes = [fam_shapes[(n * 5 + j * 7) % len(fam_shapes)] for j in range(6)] + [[3, 3, 16, 1], [3, 3, 16, 2], [3, 3, 1, 1]]
    yield {"t": "seq", "items": [{"t": "acc", "w": w, "x": x, "shape": sh, "bias": bool(j % 2)} for j, sh in enumerate(shapes)]}
    yield {"t": "seq", "items": [{"t": "merge", "op": op, "ops": [w, x]} for op in MERGE_OPS + MERGE_OPS[::-1]]}


def mono_cases(tier):
  T = type_list(tier)
  idx = 0
  TA = [d for i, d in enumerate(T) if i % 2 == 0]
  for a, b in itertools.product(T, TA):
    idx += 1
    base = {"t": "add", "a": G.with_via(a, idx), "b": G.with_via(b, idx // 2)}
    for how in WIDENINGS:
      for tgt in ("a", "b"):
        yield {"t": "mono", "base": base, "widen": {"target": tgt, "how": how}}
  ns = [1, 2, 3, 4, 7, 8, 255, 256, 1 << 20]
  for w, x in itertools.product(TA, TA):
    idx += 1
    n = ns[idx % len(ns)]
    base = {"t": "acc", "w": G.with_via(w, idx), "x": G.with_via(x, idx // 2),
            "shape": [n, 2] if idx % 2 else conv_shape(n), "bias": bool(idx % 4 == 0)}
    for how in WIDENINGS:
      for tgt in ("w", "x"):
        yield {"t": "mono", "base": base, "widen": {"target": tgt, "how": how}}
    yield {"t": "mono", "base": base, "widen": {"target": "shape", "how": "N+1"}}
    yield {"t": "mono", "base": base, "widen": {"target": "bias", "how": "bias_on"}}
  for a, b in itertools.product(TA, TA):
    idx += 1
    ops = [G.with_via(a, idx), G.with_via(b, idx // 2)]
    if idx % 4 == 0:
      ops.append(G.with_via(TA[idx % len(TA)], idx))
    for op in ("Add", "Maximum", "Average"):
      base = {"t": "merge", "op": op, "ops": ops}
      for how in WIDENINGS:
        yield {"t": "mono", "base": base, "widen": {"target": "ops", "how": how, "index": idx % len(ops)}}


def case_strategy(st_):
  ts = G.type_strategy(st_, 16, allow_float=True)
  ts_nf = G.type_strategy(st_, 16, allow_float=False)
  ts = ts.filter(lambda d: d.get("q") != "quantized_tanh")
  ts_nf = ts_nf.filter(lambda d: d.get("q") != "quantized_tanh")

  @st_.composite
  def shape(draw):
    n = draw(st_.one_of(st_.integers(1, 64), st_.integers(1, 1 << 20),
                        st_.builds(lambda k, d: max(1, (1 << k) + d), st_.integers(0, 20), st_.integers(-1, 1))))
    n = min(n, 1 << 20)
    form = draw(st_.integers(0, 3))
    co = draw(st_.sampled_from([1, 1, 2, 3, 8]))
    if form == 0:
      return [n, co]
    if form == 1:
      return conv1d_shape(n, co)
    if form == 2:
      return draw(st_.sampled_from(shape_family()))
    return conv_shape(n, co)

  acc = st_.fixed_dictionaries({"t": st_.just("acc"), "w": ts, "x": ts, "shape": shape(), "bias": st_.booleans()})
  add = st_.fixed_dictionaries({"t": st_.just("add"), "a": ts, "b": ts})
  bias = st_.fixed_dictionaries({"t": st_.just("bias"), "w": ts_nf, "x": ts_nf, "shape": shape(), "b": ts})
  merge = st_.fixed_dictionaries({"t": st_.just("merge"), "op": st_.sampled_from(MERGE_OPS),
                                  "ops": st_.lists(ts, min_size=2, max_size=4)})
  basec = st_.one_of(acc, add, bias, merge)
  wd = st_.one_of(
      st_.fixed_dictionaries({"target": st_.sampled_from(["w", "x", "a", "b", "ops"]),
                              "how": st_.sampled_from(WIDENINGS), "index": st_.integers(0, 3)}),
      st_.just({"target": "shape", "how": "N+1"}), st_.just({"target": "bias", "how": "bias_on"}))
  mono = st_.fixed_dictionaries({"t": st_.just("mono"), "base": basec, "widen": wd})
  vs = G.variant_strategy(st_).map(lambda l: [d for d in l if d.get("q") != "quantized_tanh"] or [{"k": "ternary", "via": "impl"}])

  @st_.composite
  def seq(draw):
    ws, xs = draw(vs), draw(vs)
    k = draw(st_.integers(2, 5))
    items = []
    for _ in range(k):
      w, x = ws[draw(st_.integers(0, 3)) % len(ws)], xs[draw(st_.integers(0, 3)) % len(xs)]
      kind = draw(st_.integers(0, 2))
      if kind == 0:
        items.append({"t": "acc", "w": w, "x": x, "shape": draw(shape()), "bias": draw(st_.booleans())})
      elif kind == 1:
        items.append({"t": "add", "a": w, "b": x})
      else:
        items.append({"t": "merge", "op": draw(st_.sampled_from(MERGE_OPS)), "ops": [w, x]})
    return {"t": "seq", "items": items}

  return st_.one_of(acc, add, bias, merge, mono, mono, seq())


def run(ctx):
  from hypothesis import strategies as st_  # pylint: disable=g-import-not-at-top
  ctx.info["exhaustive"] = False
  n_det = 0
  for stream in (cases(ctx.tier), seq_cases(ctx.tier), mono_cases(ctx.tier)):
    for i, case in enumerate(ctx.shard(stream)):
      if i % 256 == 0 and ctx.time_left() <= 0:
        ctx.labels["inconclusive_time"] += 1
        break
      n_det += 1
      for f in run_case(ctx, case):
        ctx.fail(f[0], f[1], case, f[2])
  ctx.info["deterministic_cases"] = n_det
  ctx.info["t_deterministic_s"] = round(ctx.budget_s - ctx.time_left(), 1)

  def orc(case):
    return run_case(ctx, case, extra=("hyp",))

  n = (2000 if ctx.quick else 100000) // ctx.n + 1
  core.hyp_run(ctx, case_strategy(st_), orc, n, name="c17")
  ctx.info["t_total_s"] = round(ctx.budget_s - ctx.time_left(), 1)


def replay(ctx, case):
  for f in run_case(ctx, case, extra=("replay",)):
    ctx.fail(f[0], f[1], case, f[2])
