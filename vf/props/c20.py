"""C20 - AutoQKeras trial models respect the search limits; the forgiving factor
rewards smaller models; the bit-size model counts elements x quantizer bits.

Part A drives AutoQKHyperModel.quantize_model(hp) with a recording tuner stub:
every hp.Choice / hp.Fixed call site is a choice point, a decision list selects
one leaf of the choice tree (exhaustively for the fixed small specs, sampled by
Hypothesis otherwise).  Part B checks ForgivingFactor.delta laws and
ForgivingFactorBits.compute_model_size against vf.ref.autoqk.
"""
import contextlib
import io
import json
import re

import numpy as np

from vf import core
from vf.gen import autoqk as G
from vf.ref import autoqk as R

RULE = ("Part A case = (reference-model/limit/configuration spec, decision list); "
        "the k-th multi-option choice point of the tuner interface takes option "
        "decisions[k] % arity. Fixed small specs are enumerated exhaustively "
        "(product of recorded arities, leaves sharded over workers); other specs "
        "and decisions are drawn by Hypothesis. The layer selection is None or a "
        "container (list/tuple/range/set/frozenset) of 0..n layer ids; the hyper-model "
        "is built directly or by the AutoQKeras wrapper (stub tuner). Non-trivial trial = the trial "
        "model was built, at least one layer is quantized and at least one "
        "choice point had >= 2 options; distinct by hash of (spec, effective "
        "decisions). Part B cases = forgiving-factor parameter tuples and "
        "partly quantized dense/conv/activation model descriptions; non-trivial "
        "= trial size differs from reference size / model has a quantized layer.")
ASSUMPTIONS = [
    "checks run under TF_USE_LEGACY_KERAS=1 and PROTOCOL_BUFFERS_PYTHON_IMPLEMENTATION=python",
    "the tuner is a stub with keras_tuner's retrieval semantics (same name -> same value; Fixed has one option)",
    "a quantizer 'comes from the configuration' iff its printed form equals the print of the same "
    "layer class constructed directly with one of the section's strings (canonical print)",
    "first regular-expression key in dictionary order that re.match()es the layer name wins, else the class name",
    "roles -> limit entries: kernel/depthwise/pointwise=0, bias=1, recurrent=2 of a 4-entry list, "
    "activation/linear/recurrent_activation=last; 'default' (8 if absent) replaces missing entries",
    "limits normally admit at least one configured string per role; about 1 in 8 sampled specs and one "
    "fixed spec carry one numeric entry below the narrowest configured width: an empty-choice exception "
    "for such a role is acceptable (label raised_unsatisfiable_limit), a trial that is built is judged "
    "as usual and a non-empty offered list is an `offered` failure; "
    "tune_filters_exceptions patterns are anchored; Conv2DTranspose is not generated (cannot be built "
    "quantized in this image); 'default' is absent, a number, or a 3/4-entry list (the constructor "
    "asserts 3 <= len <= 4); regular-expression keys are always written in full (only class keys "
    "are completed from 'default')",
    "layer_indexes is None or a container of layer ids (list, tuple, range, set or frozenset; lists and "
    "tuples possibly unsorted) of ANY size 0..number of layers: an empty container selects nothing (every "
    "trial is the unquantized reference), [0] selects only the InputLayer; 'layer i is selected' is judged "
    "by `i in container`, the only reading the documentation ('we only quantize layers whose ids are in "
    "layer_indexes') allows",
    "route: the hyper-model is constructed directly (AutoQKHyperModel(...)) or, for about 1 in 4 sampled specs "
    "and two fixed specs, by the public wrapper AutoQKeras(..., custom_tuner=stub) whose .hypermodel is then "
    "driven the same way (the stub tuner only stores its arguments: no search, no files)",
    "an exception of quantize_model for a generated (documented-valid) input is reported as sub_check "
    "quantize_raises: the property quantifies over assignments that must yield a trial model",
    "forgiving factor: rate and deltas are exactly representable in float32, sizes are integers "
    "<= 2^41; formula compared at 1e-6 relative (+1e-12 absolute); sign and strict monotonicity exact",
    "size model: per-layer numbers compared exactly (integers); softmax/sigmoid outputs are only "
    "generated when output_bits == ref_bits; InputLayer counts input_bits x elements",
]
# soft caps; the quick tier is count-limited (about 30 CPU-s per worker on an
# idle 16-core machine), the cap only matters on an overloaded machine
BUDGET_S = {"quick": 100, "thorough": 840}
REQUIRED_LABELS = {
    "quick": ["dfs", "hyp", "trial_built", "pattern_group", "list_limit",
              "layer_indexes", "layer_indexes_empty", "layer_indexes_single",
              "layer_indexes_all", "layer_indexes_subset", "route:autoqkeras",
              "outside_limit_layer", "outside_index_layer",
              "filters_scaled", "tight_limit", "act_layer_quantized",
              "raised_unsatisfiable_limit",
              "ff_delta", "ff_size", "ff_size_quantized"],
    "thorough": ["dfs", "hyp", "trial_built", "pattern_group", "list_limit",
                 "layer_indexes", "layer_indexes_empty", "layer_indexes_single",
                 "layer_indexes_all", "layer_indexes_subset", "route:autoqkeras",
                 "outside_limit_layer", "outside_index_layer",
                 "filters_scaled", "tight_limit", "act_layer_quantized", "rnn",
                 "raised_unsatisfiable_limit", "ff_delta", "ff_size", "ff_size_quantized"],
}

NO_Q_FORM = ("InputLayer", "Flatten", "MaxPooling2D", "Dropout")
STRUCT_KEYS = ["kernel_size", "strides", "padding", "dilation_rate",
               "depth_multiplier", "use_bias", "return_sequences",
               "return_state", "go_backwards", "stateful", "unroll",
               "data_format", "groups", "pool_size", "rate", "axis",
               "merge_mode"]

# ---------------------------------------------------------------------------
# canonical prints

_CANON = {}


def _canon(host, role, s):
  """Print of quantizer string `s` after the layer class `host` was built
  directly with it in slot `role` (None if the class rejects it)."""
  key = (host, role, s)
  if key in _CANON:
    return _CANON[key]
  import qkeras  # pylint: disable=g-import-not-at-top
  base = {"QDense": (1,), "QConv1D": (1, 1), "QConv2D": (1, 1),
          "QDepthwiseConv2D": (1,), "QSeparableConv2D": (1, 1),
          "QSimpleRNN": (1,), "QLSTM": (1,), "QGRU": (1,)}
  try:
    if host == "QActivation":
      out = str(qkeras.QActivation(s).quantizer)
    else:
      cls = getattr(qkeras, host)
      if role == "kernel":
        if host in ("QDepthwiseConv2D", "QSeparableConv2D"):
          out = str(cls(*base[host], depthwise_quantizer=s).depthwise_quantizer_internal)
        else:
          out = str(cls(*base[host], kernel_quantizer=s).kernel_quantizer_internal)
      elif role == "pointwise":
        out = str(cls(*base[host], pointwise_quantizer=s).pointwise_quantizer_internal)
      elif role == "recurrent":
        out = str(cls(*base[host], recurrent_quantizer=s).recurrent_quantizer_internal)
      elif role == "bias":
        out = str(cls(*base[host], bias_quantizer=s).bias_quantizer_internal)
      elif role == "activation":
        out = str(cls(*base[host], activation=s).activation)
      elif role == "recurrent_activation":
        out = str(cls(*base[host], recurrent_activation=s).recurrent_activation)
      else:
        raise core.HarnessError("canon: role %r" % role)
  except core.HarnessError:
    raise
  except Exception:  # pylint: disable=broad-except
    out = None
  _CANON[key] = out
  return out


def _is_quantizer(obj):
  return (obj is not None and not isinstance(obj, str) and
          obj.__class__.__module__.startswith("qkeras."))


def _slots(tl):
  """(role, host class, printed quantizer) for every quantizer the trial layer
  carries."""
  cn = tl.__class__.__name__
  out = []

  def add(role, q, host=cn):
    if _is_quantizer(q):
      out.append((role, host, str(q)))

  if cn in ("QDense", "QConv1D", "QConv2D"):
    add("kernel", tl.kernel_quantizer_internal)
    add("bias", tl.bias_quantizer_internal)
    add("activation", tl.activation)
  elif cn == "QDepthwiseConv2D":
    add("kernel", tl.depthwise_quantizer_internal)
    add("bias", tl.bias_quantizer_internal)
    add("activation", tl.activation)
  elif cn == "QSeparableConv2D":
    add("kernel", tl.depthwise_quantizer_internal)
    add("pointwise", tl.pointwise_quantizer_internal)
    add("bias", tl.bias_quantizer_internal)
    add("activation", tl.activation)
  elif cn in ("QSimpleRNN", "QLSTM", "QGRU"):
    add("kernel", tl.kernel_quantizer_internal)
    add("recurrent", tl.recurrent_quantizer_internal)
    add("bias", tl.bias_quantizer_internal)
    add("activation", tl.activation)
    if cn != "QSimpleRNN":
      add("recurrent_activation", tl.recurrent_activation)
  elif cn in ("QBidirectional", "Bidirectional"):
    for inner in (tl.forward_layer, tl.backward_layer):
      for role, host, p in _slots(inner):
        out.append((role, host, p))
  elif cn == "QActivation":
    add("act_layer", tl.quantizer)
  return out


# ---------------------------------------------------------------------------
# Part A


class Harness(object):
  """Reference model + hyper-model of one spec (re-used across leaves, as the
  tuner re-uses the hyper-model across trials)."""

  def __init__(self, spec):
    from qkeras.autoqkeras.autoqkeras_internal import AutoQKHyperModel  # pylint: disable=g-import-not-at-top
    from qkeras.autoqkeras.forgiving_metrics import ForgivingFactorBits  # pylint: disable=g-import-not-at-top
    self.spec = spec
    self.model = G.build_model(spec)
    self.ref_cfg = [json.dumps(l.get_config(), sort_keys=True, default=str)
                    for l in self.model.layers]
    self.ref_cls = [l.__class__.__name__ for l in self.model.layers]
    self.ref_names = [l.name for l in self.model.layers]
    self.ref_shapes = [l.output_shape for l in self.model.layers]
    target = ForgivingFactorBits(8.0, 8.0, 2.0, config={
        "default": ["parameters", "activations"]})
    try:
      self.layer_indexes = G.layer_indexes_value(spec)
    except ValueError as e:
      raise core.HarnessError("bad spec: %s" % e)
    self.route = spec.get("route", "hypermodel")
    kw = dict(limit=G.limit_dict(spec),
              tune_filters=spec["tune_filters"],
              tune_filters_exceptions=spec["tune_exc"],
              layer_indexes=self.layer_indexes,
              activation_bits=spec["activation_bits"],
              quantization_config=G.qconfig_dict(spec))
    with contextlib.redirect_stdout(io.StringIO()):
      if self.route == "hypermodel":
        self.hm = AutoQKHyperModel(self.model, ["acc"], target=target, **kw)
      elif self.route == "autoqkeras":
        # the public wrapper builds the hyper-model itself; the documented
        # custom_tuner hook receives it (no tuner run, nothing written)
        from qkeras.autoqkeras.autoqkeras_internal import AutoQKeras  # pylint: disable=g-import-not-at-top
        aq = AutoQKeras(self.model, metrics=["acc"], goal=target,
                        output_dir="/nonexistent/c20_autoqkeras_unused",
                        custom_tuner=G.StubTuner, **kw)
        self.hm = aq.hypermodel
        if aq.tuner.hypermodel is not self.hm:
          raise core.HarnessError("stub tuner did not receive the hyper-model")
      else:
        raise core.HarnessError("unknown route %r" % (self.route,))
    self.keys, self.limit = R.adjusted_limit(spec["limit"])
    self.qc = R.qconfig_pairs(spec)
    self._twins = {}

  def trial(self, decisions):
    hp = G.RecordingHP(decisions)
    self.hm.groups = {}          # as AutoQKHyperModel.build() does
    try:
      with contextlib.redirect_stdout(io.StringIO()):
        q, _ = self.hm.quantize_model(hp)
      return q, hp, None
    except core.HarnessError:
      raise
    except Exception as e:  # pylint: disable=broad-except
      return None, hp, e

  def twin_shapes(self, override):
    key = json.dumps(override, sort_keys=True)
    if key not in self._twins:
      m = G.build_model(self.spec, units_override=override)
      self._twins[key] = [l.output_shape for l in m.layers]
    return self._twins[key]


def _ref_layers(spec):
  return [{"k": "InputLayer", "name": "input"}] + list(spec["layers"])


def _roles_of(l):
  k = l["k"]
  roles = []
  if k in R.WEIGHT_CLASSES:
    roles.append("kernel")
    if k in R.RNN_CLASSES:
      roles.append("recurrent")
    if k.startswith("Separable"):
      roles.append("pointwise")
    if k == "Bidirectional" or l.get("use_bias", True):
      roles.append("bias")
    if k in R.RNN_CLASSES or not R.is_nonquant_activation(l.get("act")):
      roles.append("activation")
    if k in ("LSTM", "GRU", "Bidirectional"):
      roles.append("recurrent_activation")
  elif k == "Activation":
    if l["act"] == "linear":
      roles.append("linear")
    elif l["act"] != "softmax":
      roles.append("activation")
  return roles


_TUNER_HEAD = {"kernel": "kernel", "bias": "bias", "activation": "activation",
               "linear": "activation", "recurrent": "recurrent_kernel",
               "pointwise": "pointwise_kernel",
               "recurrent_activation": "recurrent_activation"}
_TUNER_FIELD = {"kernel": "kernel", "bias": "bias", "activation": "activation",
                "linear": "linear", "recurrent_activation": "recurrent_activation"}


def check_trial(h, decisions, origin):
  """Runs one trial and all Part A oracles.  Returns (fails, labels, nontrivial,
  effective decisions)."""
  spec = h.spec
  q, hp, exc = h.trial(decisions)
  layers = _ref_layers(spec)
  keys, limit, qc = h.keys, h.limit, h.qc
  sel = spec["layer_indexes"]
  tune = spec["tune_filters"]
  fails = []
  labels = [origin, "tune:" + tune, "route:" + h.route,
            "qconfig:" + ("default" if spec.get("qconfig") == "default" else "custom")]

  info = []
  for i, l in enumerate(layers):
    key, kind = R.match_key(keys, l["name"], l["k"])
    info.append({"key": key, "kind": kind,
                 "selected": sel is None or i in sel})
  if sel is not None:
    labels.append("layer_indexes")
    labels.append("li_form:" + spec.get("li_form", "list"))
    nsel = len(set(sel))
    labels.append("layer_indexes_empty" if nsel == 0 else
                  "layer_indexes_single" if nsel == 1 else
                  "layer_indexes_all" if nsel == len(layers) else
                  "layer_indexes_subset")

  # ---- expected filter scaling -------------------------------------------
  chosen = dict((n, v[k]) for n, v, k in hp.rec)
  override = {}
  for i, l in enumerate(layers):
    if (tune != "none" and l["k"] in R.SCALABLE and info[i]["key"] is not None
        and info[i]["selected"] and not re.search(spec["tune_exc"], l["name"])):
      f = chosen.get("network_filters_" + l["name"] if tune == "layer"
                     else "network_filters", 1.0)
      attr = R.SCALABLE[l["k"]]
      exp = R.scaled(l[attr], f)
      info[i]["scale"] = f
      if exp != l[attr]:
        override[l["name"]] = exp
  stale = False
  first_changed = None
  for i, l in enumerate(layers):
    if first_changed is not None and info[i]["key"] is not None and \
        info[i]["selected"] and l["k"] in (
            "Dense", "Conv1D", "Conv2D", "DepthwiseConv2D", "SimpleRNN", "LSTM",
            "GRU", "Bidirectional", "BatchNormalization"):
      stale = True
    if l["name"] in override and first_changed is None:
      first_changed = i

  # ---- offered option lists (tuner search space) --------------------------
  expect_names = {}
  for i, l in enumerate(layers):
    if info[i]["key"] is None:
      continue
    for role in _roles_of(l):
      if info[i]["kind"] == "class":
        nm = "%s_%s_quantizer" % (l["name"], _TUNER_HEAD[role])
      else:
        fld = _TUNER_FIELD.get(role)
        if fld is None:
          continue
        nm = "%s_%s_quantizer" % (info[i]["key"], fld)
      host = "Activation" if l["k"] == "Activation" else "layer"
      expect_names.setdefault(nm, (role, info[i]["key"], info[i]["kind"], host))
  tight = False
  listlim = False
  for nm, values, _ in hp.rec:
    if nm not in expect_names:
      continue
    role, key, kind, host = expect_names[nm]
    entry = R.role_entry(limit[key], role)
    allowed = R.allowed_strings(qc[R.ROLE_SECTION[role]], entry)
    if isinstance(entry, list):
      listlim = True
    elif entry in [b for _, b in qc[R.ROLE_SECTION[role]]]:
      tight = True
    extra = [v for v in values if v not in allowed]
    missing = [v for v in allowed if v not in values]
    if extra:
      fails.append(("offered", {"role": role, "match": kind, "host": host,
                                "clause": "offered_not_allowed"},
                    "choice %r offers %r; limit entry %r admits only %r" %
                    (nm, extra, entry, allowed)))
    if missing:
      fails.append(("offered", {"role": role, "match": kind, "host": host,
                                "clause": "allowed_not_offered"},
                    "choice %r offers %r; limit entry %r also admits %r" %
                    (nm, values, entry, missing)))
  if tight:
    labels.append("tight_limit")
  if listlim:
    labels.append("list_limit")

  eff = hp.effective()
  if exc is not None:
    # an empty option list for a role whose limit entry admits no configured
    # string (per the reference) is acceptable: no trial exists, nothing to judge
    cname = getattr(exc, "choice_name", None)
    if isinstance(exc, G.EmptyChoice) and cname in expect_names:
      role, key, kind, host = expect_names[cname]
      entry = R.role_entry(limit[key], role)
      if not R.allowed_strings(qc[R.ROLE_SECTION[role]], entry):
        labels.append("raised")
        labels.append("raised_unsatisfiable_limit")
        return fails, labels, False, eff
    sig = dict(core.exc_signature(exc), stale_shapes_expected=bool(stale))
    if isinstance(exc, KeyError):
      sig["arg"] = str(exc)[:60]
    fails.append(("quantize_raises", sig,
                  "%s: %s" % (type(exc).__name__, str(exc).replace("\n", " ")[:300])))
    labels.append("raised")
    if stale:
      labels.append("raised_stale_shapes")
    return fails, labels, False, eff

  labels.append("trial_built")
  tls = list(q.layers)
  # ---- (e) architecture ---------------------------------------------------
  if len(tls) != len(layers):
    fails.append(("architecture", {"clause": "layer_count"},
                  "%d layers, reference has %d" % (len(tls), len(layers))))
    return fails, labels, False, eff
  exp_shapes = h.twin_shapes(override) if override else h.ref_shapes
  any_q = False
  groups = {}
  pending = []
  for i, (l, tl) in enumerate(zip(layers, tls)):
    cn = tl.__class__.__name__
    rc = h.ref_cls[i]
    kcls = l["k"]
    if tl.name != l["name"]:
      fails.append(("architecture", {"clause": "name", "cls": kcls},
                    "layer %d is %r, reference %r" % (i, tl.name, l["name"])))
      continue
    if cn not in (rc, "Q" + rc):
      fails.append(("architecture", {"clause": "class", "cls": kcls},
                    "layer %r is %s, reference %s" % (tl.name, cn, rc)))
      continue
    if tl.output_shape != exp_shapes[i]:
      fails.append(("architecture", {"clause": "shape", "cls": kcls,
                                     "scaled": bool(override)},
                    "layer %r output %r, expected %r" %
                    (tl.name, tl.output_shape, exp_shapes[i])))
    tcfg = tl.get_config()
    rcfg = json.loads(h.ref_cfg[i])
    if kcls in R.SCALABLE:
      attr = R.SCALABLE[kcls]
      want = override.get(l["name"], l[attr])
      if tcfg.get(attr) != want:
        fails.append(("architecture", {"clause": "units", "cls": kcls,
                                       "tune": tune,
                                       "eligible": "scale" in info[i]},
                      "layer %r %s=%r, expected %r (reference %r, factor %r)" %
                      (tl.name, attr, tcfg.get(attr), want, l[attr],
                       info[i].get("scale"))))
    for sk in STRUCT_KEYS:
      if sk in rcfg and sk in tcfg:
        a, b = json.dumps(tcfg[sk], default=str), json.dumps(rcfg[sk], default=str)
        if a != b:
          fails.append(("architecture", {"clause": "config_key", "cls": kcls,
                                         "key": sk},
                        "layer %r %s=%s, reference %s" % (tl.name, sk, a, b)))
    quantized = cn != rc
    key, kind, selected = info[i]["key"], info[i]["kind"], info[i]["selected"]
    # ---- (c) untouched layers --------------------------------------------
    untouched = None
    if kcls in NO_Q_FORM:
      untouched = "no_quantized_form"
    elif not selected:
      untouched = "outside_indexes"
    elif key is None:
      untouched = "outside_limit"
    if untouched is not None:
      if untouched == "outside_limit" and kcls in R.WEIGHT_CLASSES:
        labels.append("outside_limit_layer")
      if untouched == "outside_indexes" and kcls in R.WEIGHT_CLASSES + ["Activation"]:
        labels.append("outside_index_layer")
      if quantized:
        fails.append(("untouched", {"clause": untouched, "cls": kcls,
                                    "change": "class"},
                      "layer %r became %s" % (tl.name, cn)))
      elif json.dumps(tcfg, sort_keys=True, default=str) != h.ref_cfg[i]:
        fails.append(("untouched", {"clause": untouched, "cls": kcls,
                                    "change": "config"},
                      "layer %r config changed: %s vs %s" %
                      (tl.name, json.dumps(tcfg, sort_keys=True, default=str)[:300],
                       h.ref_cfg[i][:300])))
      continue
    if not quantized:
      if kcls in R.WEIGHT_CLASSES or kcls == "Activation":
        if not (kcls == "Activation" and l["act"] == "softmax"):
          labels.append("in_limit_left_stock:" + kcls)
      continue
    any_q = True
    if kcls == "Activation":
      labels.append("act_layer_quantized")
    if kcls in R.RNN_CLASSES:
      labels.append("rnn")
    # ---- (a) / (b) quantizers of this layer ------------------------------
    for role, host, printed in _slots(tl):
      if role == "act_layer":
        role = "linear" if l["act"] == "linear" else "activation"
        hostkind = "Activation"
      else:
        hostkind = "layer"
      section = qc.get(R.ROLE_SECTION[role])
      if section is None:
        continue
      crole = None if host == "QActivation" else role
      cands = [s for s, _ in section if _canon(host, crole, s) == printed]
      observed = "other"
      if hostkind == "layer" and role == "activation":
        a = l.get("act") if kcls not in R.RNN_CLASSES else "tanh"
        if a in ("relu", "tanh", "sigmoid"):
          dflt = _canon(host, "activation", "quantized_%s(%d)" % (a, spec["activation_bits"]))
          if printed == dflt:
            observed = "activation_bits_default"
      base = {"role": role, "host": hostkind, "match": kind}
      # a linear Activation inside a pattern group: remember which weight
      # strings print like it (classified after the loop)
      klike = None
      if hostkind == "Activation" and role == "linear" and kind == "pattern":
        klike = set(s for s, _ in qc["kernel"]
                    if _canon("QActivation", None, s) == printed)
      if not cands:
        pending.append(("from_config", dict(base, clause="not_from_config",
                                            observed=observed),
                        "layer %r (%s) %s quantizer %s is not the print of any "
                        "string of section %r" % (tl.name, cn, role, printed,
                                                  R.ROLE_SECTION[role]),
                        key, klike))
        if observed == "activation_bits_default":
          labels.append("chosen_activation_ignored")
        continue
      entry = R.role_entry(limit[key], role)
      allowed = R.allowed_strings(section, entry)
      if not [s for s in cands if s in allowed]:
        bits = dict((s, b) for s, b in section)
        pending.append(("limit", dict(base, observed=observed,
                                      clause="not_in_list" if isinstance(entry, list)
                                      else "over_limit"),
                        "layer %r (%s) %s quantizer %s = config %r (bits %r) "
                        "exceeds limit entry %r of key %r" %
                        (tl.name, cn, role, printed, cands,
                         [bits[s] for s in cands], entry, key), key, klike))
      if kind == "pattern":
        groups.setdefault((key, role), []).append((tl.name, set(cands)))
  for sc, sig, detail, key, klike in pending:
    if klike:
      # the weight choice of the same group: from the trial's weight layers,
      # or (when those are outside layer_indexes) from the tuner record
      kc = set()
      for _, c in groups.get((key, "kernel"), []):
        kc |= c
      if chosen.get("%s_kernel_quantizer" % key) is not None:
        kc.add(chosen["%s_kernel_quantizer" % key])
      if kc & klike:
        sig = dict(sig, observed="group_kernel_choice")
        detail += " -- it is the weight choice %r of the same group" % sorted(kc & klike)
    fails.append((sc, sig, detail))
  # ---- (d) one choice per pattern group and role ---------------------------
  for (key, role), members in sorted(groups.items()):
    if len(members) >= 2:
      labels.append("pattern_group")
      common = set.intersection(*[c for _, c in members])
      if not common:
        fails.append(("shared", {"role": role, "clause": "group_differs"},
                      "layers grouped by %r use different %s choices: %r" %
                      (key, role, [(n, sorted(c)) for n, c in members])))
  if override:
    labels.append("filters_scaled")
  nontrivial = any_q and any(len(v) > 1 for _, v, _ in hp.rec)
  if not any_q:
    labels.append("nothing_quantized")
  return fails, labels, nontrivial, eff


def _tick_trial(ctx, case, labels, nontrivial, eff):
  key = {"spec": case["spec"], "eff": eff}
  seen = set()
  labels = [l for l in labels if not (l in seen or seen.add(l))]
  ctx.tick(case, labels=labels, nontrivial=False)
  if nontrivial:
    ctx.nontrivial.add(core.jhash(key))


def run_dfs(ctx, reserve=0.0):
  """Exhaustive enumeration of the fixed specs.  spec["arities"] (the option
  counts of the multi-option choice points, in call order) is bookkeeping for
  decoding a leaf number into a decision list; a run whose recorded arities
  differ is still judged by all oracles but the enumeration is then not
  claimed exhaustive."""
  import tensorflow as tf  # pylint: disable=g-import-not-at-top
  specs = G.dfs_specs(ctx.tier)
  leaves = []
  for si, spec in enumerate(specs):
    n = 1
    for a in spec["arities"]:
      n *= a
    leaves += [(si, k) for k in range(n)]
  if ctx.idx == 0:
    ctx.info["dfs_leaves"] = len(leaves)
  exhaustive = True
  harness = {}
  for si, leaf in ctx.shard(leaves):
    if ctx.time_left() <= reserve:
      ctx.labels["inconclusive_time"] += 1
      exhaustive = False
      break
    full = specs[si]
    spec = {k: v for k, v in full.items() if k != "arities"}
    if si not in harness:
      with contextlib.redirect_stdout(io.StringIO()):
        harness[si] = Harness(spec)
    dec = []
    r = leaf
    for a in full["arities"]:
      dec.append(r % a)
      r //= a
    case = {"kind": "trial", "spec": spec, "decisions": dec}
    fails, labels, nt, eff = check_trial(harness[si], dec, "dfs")
    raised = "raised" in labels
    if eff != dec and not raised:
      exhaustive = False
      labels.append("tree_shape_changed")
    _tick_trial(ctx, case, labels + ["dfs_spec_%d" % si], nt, eff)
    for sc, sig, detail in fails:
      ctx.fail(sc, sig, case, detail)
  tf.keras.backend.clear_session()
  return exhaustive


def oracle_trial(ctx, case, origin="hyp"):
  import tensorflow as tf  # pylint: disable=g-import-not-at-top
  ctx._c20_n = getattr(ctx, "_c20_n", 0) + 1
  if ctx._c20_n % 12 == 0:
    tf.keras.backend.clear_session()
  core.reset_globals()
  try:
    with contextlib.redirect_stdout(io.StringIO()):
      h = Harness(case["spec"])
  except core.HarnessError:
    raise
  except Exception as e:  # pylint: disable=broad-except
    fr = core.qkeras_frame(e.__traceback__)
    if fr is None:
      raise core.HarnessError("cannot build reference model: %r" % (e,))
    ctx.tick(case, labels=[origin, "raised"])
    return [("hypermodel_raises", core.exc_signature(e), repr(e)[:300])]
  fails, labels, nt, eff = check_trial(h, case["decisions"], origin)
  fam = {1: "vec", 2: "seq", 3: "img"}.get(len(case["spec"]["input"]), "?")
  _tick_trial(ctx, case, labels + ["family:" + fam], nt, eff)
  return fails


# ---------------------------------------------------------------------------
# Part B


def oracle_delta(ctx, case):
  from qkeras.autoqkeras.forgiving_metrics.forgiving_factor import ForgivingFactor  # pylint: disable=g-import-not-at-top
  fails = []
  ff = ForgivingFactor(case["delta_p"], case["delta_n"], case["rate"])
  ref = case["ref_int"] * case["stress"]
  ff.reference_size = ref

  def d(t):
    ff.trial_size = t
    return float(ff.delta())

  t1, t2 = case["t1"], case["t2"]
  d1, d2 = d(t1), d(t2)
  labels = ["ff_delta"]
  if float(ref).is_integer():
    ff.trial_size = int(ref)
    d0 = float(ff.delta())
    labels.append("ff_equal_size")
    if d0 != 0.0:
      fails.append(("ff_delta", {"law": "zero_at_equal"},
                    "delta(ref=%r, trial=%r) = %r" % (ref, int(ref), d0)))
  for t, v in ((t1, d1), (t2, d2)):
    if t < ref:
      labels.append("ff_smaller")
    elif t > ref:
      labels.append("ff_larger")
    if (t < ref and not v > 0) or (t > ref and not v < 0) or (t == ref and v != 0):
      fails.append(("ff_delta", {"law": "sign", "side": "smaller" if t < ref else
                                 ("larger" if t > ref else "equal")},
                    "delta(ref=%r, trial=%r) = %r" % (ref, t, v)))
    want = R.delta_formula(case["delta_p"], case["delta_n"], case["rate"], ref, t)
    if not abs(v - want) <= 1e-6 * abs(want) + 1e-12:
      fails.append(("ff_delta", {"law": "formula", "side": "smaller" if t < ref
                                 else "larger_or_equal"},
                    "delta(ref=%r, trial=%r) = %r, formula %r" % (ref, t, v, want)))
  if not d1 > d2:
    fails.append(("ff_delta", {"law": "strict_decreasing"},
                  "trial %r < %r but delta %r <= %r (ref %r)" % (t1, t2, d1, d2, ref)))
  ctx.tick(case, labels=list(dict.fromkeys(labels)),
           nontrivial=(t1 != ref and t2 != ref))
  return fails


def oracle_size(ctx, case):
  import tensorflow as tf  # pylint: disable=g-import-not-at-top
  from qkeras.autoqkeras.forgiving_metrics import ForgivingFactorBits  # pylint: disable=g-import-not-at-top
  ctx._c20_n = getattr(ctx, "_c20_n", 0) + 1
  if ctx._c20_n % 12 == 0:
    tf.keras.backend.clear_session()
  fails = []
  per, shapes = R.size_model(case)
  model = G.build_size_model(case)
  for l in model.layers[1:]:
    if list(l.output_shape[1:]) != shapes[l.name]:
      raise core.HarnessError("size model shape mismatch at %s: %r vs %r" %
                              (l.name, l.output_shape, shapes[l.name]))
  cfg = G.size_config(case["config"])
  mk = lambda: ForgivingFactorBits(  # pylint: disable=g-long-lambda
      case["delta_p"], case["delta_n"], case["rate"], case["stress"],
      case["input_bits"], case["output_bits"], case["ref_bits"], dict(cfg))
  ff = mk()
  try:
    total, p_size, a_size, d = ff.compute_model_size(model)
  except Exception as e:  # pylint: disable=broad-except
    ctx.tick(case, labels=["ff_size", "raised"])
    return [("ff_size_raises", core.exc_signature(e), repr(e)[:300])]
  kinds = {l["name"]: l["k"] for l in case["layers"]}
  n_in = int(np.prod(case["input"]))
  exp_total = exp_p = exp_a = 0
  for l in model.layers:
    cn = l.__class__.__name__
    lc = cfg.get(cn, cfg.get("default"))
    pw, aw = "parameters" in lc, "activations" in lc
    if cn == "InputLayer":
      p, a = 0, case["input_bits"] * n_in
    elif l.name in per:
      p, a = per[l.name]
      got = d.get(l.name)
      if got is None:
        fails.append(("ff_size", {"clause": "missing_layer", "cls": cn}, l.name))
      else:
        if int(got["parameters"]) != p:
          fails.append(("ff_size", {"clause": "parameters", "cls": cn},
                        "layer %r parameters %r, size model %r" %
                        (l.name, got["parameters"], p)))
        if int(got["activations"]) != a:
          fails.append(("ff_size", {"clause": "activations", "cls": cn},
                        "layer %r activations %r, size model %r" %
                        (l.name, got["activations"], a)))
    else:
      p, a = 0, 0
    exp_p += pw * p
    exp_a += aw * a
    exp_total += pw * p + aw * a
  if not fails:
    for nm, got, want in (("total", total, exp_total), ("p_total", p_size, exp_p),
                          ("a_total", a_size, exp_a)):
      if int(got) != want:
        fails.append(("ff_size", {"clause": nm, "cls": "model"},
                      "%s %r, size model %r" % (nm, got, want)))
  anyq = any(k.startswith("Q") for k in kinds.values())
  labels = ["ff_size", "ff_cfg:" + case["config"]]
  if anyq:
    labels.append("ff_size_quantized")
  # reference / trial / delta through the public target interface
  if not fails:
    ref_model = G.build_size_model(case, strip=True)
    ff2 = mk()
    rsize = ff2.get_reference(ref_model)
    ff2.get_trial(ref_model)          # a previous trial must not stick
    tsize = ff2.get_trial(model)
    dl = float(ff2.delta())
    rper, _ = R.size_model(_strip(case))
    r_total = case["input_bits"] * n_in * ("activations" in cfg.get("InputLayer", cfg["default"]))
    for l in ref_model.layers[1:]:
      lc = cfg.get(l.__class__.__name__, cfg.get("default"))
      if l.name in rper:
        r_total += ("parameters" in lc) * rper[l.name][0] + ("activations" in lc) * rper[l.name][1]
    if float(rsize) != r_total * case["stress"]:
      fails.append(("ff_size", {"clause": "reference", "cls": "model"},
                    "get_reference %r, size model %r x stress %r" %
                    (rsize, r_total, case["stress"])))
    elif int(tsize) != exp_total:
      fails.append(("ff_size", {"clause": "trial", "cls": "model"},
                    "get_trial %r, size model %r" % (tsize, exp_total)))
    elif tsize > 0 and rsize > 0:
      labels.append("ff_bits_delta")
      if (tsize < rsize and not dl > 0) or (tsize > rsize and not dl < 0) or \
          (tsize == rsize and dl != 0):
        fails.append(("ff_delta", {"law": "sign", "via": "ForgivingFactorBits"},
                      "reference %r trial %r delta %r" % (rsize, tsize, dl)))
      want = R.delta_formula(case["delta_p"], case["delta_n"], case["rate"],
                             float(rsize), float(tsize))
      if not abs(dl - want) <= 1e-6 * abs(want) + 1e-12:
        fails.append(("ff_delta", {"law": "formula", "via": "ForgivingFactorBits"},
                      "reference %r trial %r delta %r formula %r" %
                      (rsize, tsize, dl, want)))
  ctx.tick(case, labels=labels, nontrivial=anyq)
  return fails


def _strip(case):
  c = dict(case)
  ls = []
  for l in case["layers"]:
    l2 = {k: v for k, v in l.items() if k not in ("kq", "kq_bits", "bq", "bq_bits")}
    if l2["k"].startswith("Q"):
      l2["k"] = l2["k"][1:]
    if l2.get("act_bits"):
      l2.pop("act_bits")
      l2["act"] = "relu"
    ls.append(l2)
  c["layers"] = ls
  return c


# ---------------------------------------------------------------------------


def run(ctx):
  nd = (2400 if ctx.quick else 50000) // ctx.n + 1
  ns = (64 if ctx.quick else 1600) // ctx.n + 1
  nt = (96 if ctx.quick else 4000) // ctx.n + 1

  def part_b_delta():
    core.hyp_run(ctx, G.delta_case_st(), lambda c: oracle_delta(ctx, c), nd,
                 name="c20_delta")

  def part_b_size():
    core.hyp_run(ctx, G.size_case_st(), lambda c: oracle_size(ctx, c), ns,
                 name="c20_size")

  def sampled():
    core.hyp_run(ctx, G.trial_case_st(), lambda c: oracle_trial(ctx, c), nt,
                 name="c20_trial")

  total = ctx.budget_s

  def until(frac, fn):
    """Runs a phase with the soft cap moved to `frac` of the budget, so that a
    slow phase cannot starve the later ones (core stops Hypothesis phases at
    ctx.time_left() <= 0)."""
    ctx.budget_s = total * frac
    try:
      return fn()
    finally:
      ctx.budget_s = total

  if ctx.quick:
    # everything is count-limited; the ~120 leaves of the fixed specs are
    # always judged, the Hypothesis parts stop at their soft caps
    until(0.15, part_b_delta)
    until(0.4, part_b_size)
    until(1.0, sampled)
    exhaustive = run_dfs(ctx, reserve=-1e9)
  else:
    # ~1000 leaves first (up to 45% of the budget), then Part B (up to 50% /
    # 62%), then sampling until the soft cap
    exhaustive = until(0.45, lambda: run_dfs(ctx))
    until(0.5, part_b_delta)
    until(0.62, part_b_size)
    until(1.0, sampled)
  # core.merge_results sums numeric info: dfs_complete_workers == number of
  # workers means every leaf of every fixed spec was judged.
  ctx.info["dfs_complete_workers"] = 1 if exhaustive else 0


def replay(ctx, case):
  kind = case.get("kind", "trial")
  if kind == "trial":
    fails = oracle_trial(ctx, case, origin="replay")
  elif kind == "delta":
    fails = oracle_delta(ctx, case)
  elif kind == "size":
    fails = oracle_size(ctx, case)
  else:
    raise core.HarnessError("unknown case kind %r" % kind)
  for sc, sig, detail in fails:
    ctx.fail(sc, sig, case, detail)
