"""C01 - fixed-point quantizers emit only representable codes of the declared
format; min()/max() enclose every output; range() is exactly the reachable set.
"""
import numpy as np

from vf import core
from vf.gen import fixed as G

RULE = ("cases = (configuration from the fixed-point option lattice) x (tensor); "
        "deterministic part: every configuration with its full breakpoint walk "
        "(all codes and all rounding breakpoints +-2 ulp, saturation edges, "
        "zeros, denormals, magnitudes up to the 2^24-step bound); random part: Hypothesis "
        "tensors of rank 0..4. Non-trivial = tensor has at least one saturated "
        "element and one element strictly between two codes; distinct by hash "
        "of (config, tensor).")
ASSUMPTIONS = [
    "checks run under TF_USE_LEGACY_KERAS=1 (tf_keras), float32, eager",
    "float32 values are compared exactly in float64 (power-of-two units, exact)",
    "inputs generated with |x| < 2^24 steps of the finer of the input/output grids (the property's bound)",
    "constant alpha restricted to powers of two (codes*alpha exact in float32)",
    "quantized_relu(use_sigmoid=1) outputs within 2 ulp of a code are bucketed "
    "as ste_ulp_noise, further away as wrong_code",
]
BUDGET_S = {"quick": 80, "thorough": 900}
REQUIRED_LABELS = {"quick": ["walk", "hyp", "saturated", "interior", "range_checked"],
                   "thorough": ["walk", "hyp", "saturated", "interior", "range_checked"]}


def variant(cfg):
  kw = cfg["kw"]
  c = cfg["cls"]
  if c in ("quantized_bits", "quantized_linear"):
    a = kw.get("alpha")
    v = "alpha_none" if a is None else ("alpha_gt1" if a > 1 else
                                        ("alpha_1" if a == 1 else "alpha_lt1"))
    if kw["bits"] - (1 if kw.get("keep_negative", True) else 0) == 0:
      v += "+sign"
    return v
  if c == "quantized_relu":
    v = "sigmoid" if kw.get("use_sigmoid") else "plain"
    if kw.get("negative_slope"):
      v += "+leaky"
      nsb = kw["bits"] - 1
      if kw["negative_slope"] * 2 ** nsb < 1:
        v += "+subcode"   # slope*2^(bits-1) < 1: saturation below one code
    if not kw.get("is_quantized_clip", True):
      v += "+upper" if kw.get("relu_upper_bound") is not None else "+unclipped"
    elif kw.get("relu_upper_bound") is not None:
      v += "+upper_ignored"   # is_quantized_clip (default) has precedence
    return v
  return cfg.get("sigmoid", "hard") if not (kw.get("use_real_tanh") or kw.get("use_real_sigmoid")) else "own_real"


def oracle(cfg, xs, shape=None, full_walk=False, stats=None):
  """Returns list of (sub_check, signature, detail, minimal_case)."""
  fails = []
  m = G.model(cfg)
  u = m["u"]
  try:
    q = G.build(cfg)
    xs = np.asarray(xs, dtype=np.float32)
    xin = xs.reshape(shape) if shape is not None else xs
    y = G.call(q, xin).reshape(-1)
  except Exception as e:  # pylint: disable=broad-except
    sig = dict(core.exc_signature(e), cls=cfg["cls"], variant=variant(cfg))
    return [("call_raises", sig, repr(e)[:300], {"cfg": cfg, "xs": [float(v) for v in xs.reshape(-1)[:4]], "shape": None})]
  finally:
    core.reset_globals()
  xs = xs.reshape(-1)
  y64 = y.astype(np.float64)
  x64 = xs.astype(np.float64)
  base = {"cls": cfg["cls"], "variant": variant(cfg)}
  if cfg["kw"].get("use_stochastic_rounding"):
    base["sr_infer"] = True     # stochastic-rounding flag set, inference phase
  if cfg.get("from") is not None:
    base["redeclared"] = True   # attributes re-assigned on a live object
  if cfg["kw"].get("use_ste") is False:
    base["nonste"] = True       # use_ste=False blend

  def one(i):
    return {"cfg": cfg, "xs": [float(xs[i])], "shape": [1]}

  fin = np.isfinite(y64)
  if not fin.all():
    i = int(np.argmin(np.where(~fin, np.abs(x64), np.inf)))
    fails.append(("nonfinite", dict(base), "x=%r y=%r" % (xs[i], y[i]), one(i)))
    return fails
  k = y64 / u
  kr = np.round(k)
  off = (k != kr)
  if m["sign"]:
    off |= (kr == 0)
  if off.any():
    # classify: distance to the nearest in-range code in float32 ulps
    near = np.clip(kr, m["kmin"], m["kmax"]) * u
    ulp = np.spacing(np.maximum(np.abs(y), np.abs(near).astype(np.float32)).astype(np.float32)).astype(np.float64)
    dist = np.abs(y64 - near) / np.maximum(ulp, 1e-300)
    idx = np.nonzero(off)[0]
    seen = set()
    for i in idx[np.argsort(np.abs(x64[idx]), kind="stable")]:
      sig = dict(base, clause="offgrid")
      if m["neg_sat"] is not None and y64[i] == m["neg_sat"] * u and m["neg_sat"] != int(m["neg_sat"]):
        sig["kind"] = "leaky_saturation_fractional_code"
      elif dist[i] <= 2.0 and not (m["sign"] and kr[i] == 0):
        sig["kind"] = "ste_ulp_noise"
      else:
        sig["kind"] = "wrong_value"
      if m["sign"]:
        # 1-bit sign modes: inputs below the float32 resolution of the shifted
        # argument are their own root cause (sign decision + straight-through sum)
        sig["region"] = "tiny_negative" if (x64[i] < 0 and abs(x64[i]) <= 2.0 ** -21 * m["u_in"]) else "regular"
      key = (sig["kind"], sig.get("region"))
      if key in seen:
        continue
      seen.add(key)
      fails.append(("offgrid", sig, "x=%r y=%r y/u=%r u=%r" % (xs[i], y[i], k[i], u), one(i)))
  on = ~off
  lo = on & (kr < m["kmin"])
  hi = on & (kr > m["kmax"])
  for mask, name in ((lo, "below_min_code"), (hi, "above_max_code")):
    if mask.any():
      idx = np.nonzero(mask)[0]
      i = int(idx[np.argmin(np.abs(x64[idx]))])
      fails.append(("out_of_range", dict(base, clause=name),
                    "x=%r y=%r code=%r range=[%r,%r]" % (xs[i], y[i], kr[i], m["kmin"], m["kmax"]), one(i)))
  # min()/max() enclose
  try:
    qmin = float(np.asarray(q.min()).reshape(-1)[0])
    qmax = float(np.asarray(q.max()).reshape(-1)[0])
    bad = (y64 < qmin) | (y64 > qmax)
    if bad.any():
      idx = np.nonzero(bad)[0]
      i = int(idx[np.argmin(np.abs(x64[idx]))])
      fails.append(("minmax", dict(base, clause="minmax"),
                    "x=%r y=%r min()=%r max()=%r" % (xs[i], y[i], qmin, qmax), one(i)))
  except Exception as e:  # pylint: disable=broad-except
    fails.append(("minmax_raises", dict(core.exc_signature(e), **base), repr(e)[:300], {"cfg": cfg, "xs": [0.0], "shape": [1]}))
  bits = cfg["kw"].get("bits", 8)
  distinct = np.unique(y64 + 0.0)
  if len(distinct) > 2 ** bits and not fails:
    fails.append(("too_many_values", dict(base, clause="count"),
                  "%d distinct outputs > 2^%d" % (len(distinct), bits), {"cfg": cfg, "walk": True}))
  if stats is not None:
    sat = bool(((kr <= m["kmin"]) | (kr >= m["kmax"])).any())
    ui = m["u_in"]
    inter = bool((np.abs(x64 / ui - np.round(x64 / ui)) > 1e-3).any())
    stats["saturated"] = sat
    stats["interior"] = inter
  if full_walk and not fails:
    reached = set(int(v) for v in kr)
    if m["sign"]:
      want = {-1, 1}
    else:
      want = set(range(m["kmin"], m["kmax"] + 1))
    if m["surr"] == "relu_sigmoid":
      want = None   # 2*round(p)/m - 1 only produces every other code
    if want is not None and (want - reached):
      miss = sorted(want - reached)
      fails.append(("unreachable_code", dict(base, clause="reach"),
                    "codes never produced on the full walk: %r" % miss[:8], {"cfg": cfg, "walk": True}))
    # range() == reachable set, where the library defines range()
    has_range = None
    kw = cfg["kw"]
    if cfg["cls"] == "quantized_linear":
      has_range = True
    elif cfg["cls"] == "quantized_bits":
      has_range = (not kw.get("symmetric", 0)) and kw.get("keep_negative", True) and kw.get("alpha") in (None, 1.0) and not m["sign"]
    elif cfg["cls"] == "quantized_relu":
      has_range = (not kw.get("use_sigmoid")) and (not kw.get("negative_slope")) and kw.get("is_quantized_clip", True)
    if has_range:
      try:
        r = np.asarray(q.range(), dtype=np.float64).reshape(-1)
        rs = set(float(v) + 0.0 for v in r)
        ys = set(float(v) + 0.0 for v in distinct)
        if rs != ys or len(r) != len(rs):
          fails.append(("range_mismatch", dict(base, clause="range"),
                        "range()-reached=%r reached-range()=%r dup=%d" % (sorted(rs - ys)[:5], sorted(ys - rs)[:5], len(r) - len(rs)),
                        {"cfg": cfg, "walk": True}))
        if stats is not None:
          stats["range_checked"] = True
      except Exception as e:  # pylint: disable=broad-except
        fails.append(("range_raises", dict(core.exc_signature(e), **base), repr(e)[:300], {"cfg": cfg, "walk": True}))
  return fails


def _emit(ctx, fails):
  for sc, sig, detail, case in fails:
    ctx.fail(sc, sig, case, detail)


def run(ctx):
  cfgs = G.lattice(ctx.tier)
  ctx.info["lattice_size"] = len(cfgs) if ctx.idx == 0 else 0
  for cfg in ctx.shard(cfgs):
    m = G.model(cfg)
    full = (m["kmax"] - m["kmin"]) <= 70000
    xs = G.walk(cfg, m, full=full)
    st = {}
    fails = oracle(cfg, xs, full_walk=full, stats=st)
    labs = ["walk", cfg["cls"], cfg["cls"] + ":" + variant(cfg)]
    labs += [k for k, v in st.items() if v]
    ctx.tick({"cfg": cfg, "walk": True, "n_points": int(len(xs))}, labels=labs,
             nontrivial=st.get("saturated", False) and st.get("interior", False))
    _emit(ctx, fails)
  ctx.info["exhaustive"] = False

  # random tensors
  from hypothesis import strategies as st_  # pylint: disable=g-import-not-at-top

  @st_.composite
  def case_st(draw):
    cfg = draw(st_.sampled_from(cfgs))
    t = draw(G.tensor_strategy(G.model(cfg)))
    return {"cfg": cfg, "xs": t["xs"], "shape": t["shape"]}

  def orc(case):
    st = {}
    fails = oracle(case["cfg"], case["xs"], shape=case["shape"], stats=st)
    labs = ["hyp", "rank%d" % len(case["shape"])] + [k for k, v in st.items() if v]
    ctx.tick(case, labels=labs, nontrivial=st.get("saturated", False) and st.get("interior", False))
    return [(sc, sig, d) for sc, sig, d, _ in fails]

  n = (400 if ctx.quick else 20000) // ctx.n + 1
  core.hyp_run(ctx, case_st(), orc, n, name="c01")


def replay(ctx, case):
  cfg = case["cfg"]
  if case.get("walk"):
    m = G.model(cfg)
    full = (m["kmax"] - m["kmin"]) <= 70000
    xs = G.walk(cfg, m, full=full)
    fails = oracle(cfg, xs, full_walk=full)
  else:
    fails = oracle(cfg, case["xs"], shape=case.get("shape"))
  ctx.tick(case, labels=["replay"])
  _emit(ctx, fails)
