"""C19 - qtools operation counts are the true MAC counts; the energy report is
non-negative, every entry is the documented function of reported types, counts
and tensor sizes, the total is the sum, extract_energy_sum/profile select and add.
"""
import contextlib
import io
import math

import numpy as np

from vf import core
from vf.gen import qtmodels as G
from vf.ref import energy as E
from vf.ref import macs

RULE = ("cases = generated models (2-D: Q/keras Conv2D, DepthwiseConv2D, "
        "activations, BatchNormalization, Max/Average/QAverage pooling, "
        "Add/Multiply/Concatenate fork-merge blocks, (Q)GlobalAveragePooling or "
        "Flatten, Q/keras Dense; 1-D: Q/keras Conv1D stacks; dense-only stacks) "
        "over kernel 1..5, strides 1..3, dilation 1..2, same/valid(/causal), "
        "channels 1..8, spatial 4..12, x QTools options (keras_quantizer / "
        "keras_accumulator in none, fp32, fp16, int8, int16, int32; "
        "for_reference) x two pe() option sets x one "
        "include-energy dictionary.  Non-trivial = the model has a conv-like "
        "layer with stride>1, dilation>1 or non-valid padding, or a pooling or "
        "merge layer; distinct by hash of the case description.")
ASSUMPTIONS = [
    "checks run under TF_USE_LEGACY_KERAS=1 (tf_keras); QTools(process="
    "'horowitz', is_inference=False) with the documented options "
    "keras_quantizer / keras_accumulator (type of weights / MAC units of "
    "non-quantized layers) and for_reference (whole model costed in those types)",
    "floating-point units cost the table constants (fp16 mul 1.1 / add 0.4, "
    "fp32 mul 3.7 / add 0.9 pJ); a multiplier with floating-point operand(s) "
    "and a forced fixed-point product type is costed as a fixed-point "
    "multiplier as wide as the widest floating-point operand; in for_reference "
    "mode a merge layer keeps the adder width derived from its inputs (widest "
    "input + 1 carry bit), only its output type is replaced (comment in "
    "generate_layer_data_type_map)",
    "MAC convention: dense loop nest, one MAC per (output element, kernel tap, "
    "connected input channel), taps on zero padding are counted; output "
    "positions are enumerated by sliding the window, not taken from Keras "
    "(agreement with Keras' output shape is asserted as a harness check)",
    "average pooling: one accumulation per (output element, window tap); "
    "global average pooling: h*w*c",
    "activation / batch-norm / flatten / max-pooling / merge layers: the "
    "documented convention 'number of elements of the (largest) input'",
    "energy entries are compared with the restated formulas after the report's "
    "2-decimal rounding: |diff| <= 0.01 + 1e-9*|v|",
    "total_cost: |total - sum(rounded entries)| <= 0.005*4*L + 1",
    "merge layers: the report does not say which input type belongs to which "
    "input tensor, any assignment is accepted",
    "op_cost is not modelled (only checked >= 0) for BatchNormalization, "
    "Multiply with more than two inputs and multiplier kinds outside "
    "mul/shifter/mux/and/xor/add",
    "extract_energy_sum: int() of the sum of the selected entries, +-1e-6 "
    "before truncation",
]
BUDGET_S = {"quick": 50, "thorough": 780}
REQUIRED_LABELS = {
    "quick": ["count:QConv2D", "count:Conv2D", "count:QConv1D", "count:Conv1D",
              "count:QDepthwiseConv2D", "count:DepthwiseConv2D", "count:QDense",
              "count:Dense", "count:Add", "count:Multiply", "count:Concatenate",
              "count:MaxPooling2D", "count:AveragePooling2D",
              "count:QAveragePooling2D", "count:GlobalAveragePooling2D",
              "count:QGlobalAveragePooling2D", "count:BatchNormalization",
              "strided", "dilated", "pad:same", "pad:valid", "pad:causal",
              "energy_checked", "op_cost_checked",
              "op_cost_checked:keras_avgpool", "op_cost_checked:mul:fp16",
              "op_cost_checked:mul:fp32", "op_cost_checked:acc:fp16",
              "op_cost_checked:acc:fp32", "op_cost_checked:acc:fixed",
              "op_cost_checked:mul:fixed", "qt:ref:1", "qt:ref:0",
              "qt:kq:fp16", "qt:ka:fp16", "qt:ka:int32", "qt:kq:int8", "w:dram", "w:sram", "w:fixed",
              "a:dram", "a:sram", "io:0", "io:1", "sum_checked", "op:mul",
              "op:shifter", "op:mux"],
}
REQUIRED_LABELS["thorough"] = list(REQUIRED_LABELS["quick"])

KEYS = ["inputs", "outputs", "parameters", "op_cost"]
SPATIAL = ("conv2d", "kconv2d", "conv1d", "kconv1d", "dw2d", "kdw2d", "avgpool",
           "qavgpool", "gap", "qgap")
_STATE = {"n": 0}


@contextlib.contextmanager
def _quiet():
  """qtools prints progress lines and logs absl 'fatal' records for rank-3
  (Conv1D) kernels; keep the worker logs readable."""
  import logging  # pylint: disable=g-import-not-at-top
  buf = io.StringIO()
  logging.disable(logging.CRITICAL)
  try:
    with contextlib.redirect_stdout(buf):
      yield
  finally:
    logging.disable(logging.NOTSET)


def _housekeeping():
  import tensorflow as tf  # pylint: disable=g-import-not-at-top
  _STATE["n"] += 1
  if _STATE["n"] % 20 == 0:
    tf.keras.backend.clear_session()
  core.reset_globals()


# ---------------------------------------------------------------------------
# reference counts


def expected_count(n, in_shapes):
  k = n["k"]
  s = in_shapes[0]
  if k in ("conv2d", "kconv2d"):
    return macs.count_conv(s[:2], s[2], n["filters"], n["ks"], n["st"], n["dil"],
                           n["pad"])[0]
  if k in ("conv1d", "kconv1d"):
    return macs.count_conv(s[:1], s[1], n["filters"], n["ks"], n["st"], n["dil"],
                           n["pad"])[0]
  if k in ("dw2d", "kdw2d"):
    return macs.count_depthwise(s[:2], s[2], n.get("dm", 1), n["ks"], n["st"],
                                n["dil"], n["pad"])[0]
  if k in ("dense", "kdense"):
    return macs.count_dense(s[-1], n["units"])
  if k in ("avgpool", "qavgpool"):
    return macs.count_avgpool(s[:2], s[2], n["pool"], n["st"], n["pad"])[0]
  if k in ("gap", "qgap"):
    return macs.count_global_avgpool(s[:2], s[2])
  if k in G.MERGE:
    return max(macs.prod(t) for t in in_shapes)
  return macs.prod(s)          # act, kact, bn, maxpool, flatten


def count_signature(n, in_shapes, got, want):
  cls = G.KERAS_CLASS[n["k"]]
  sig = {"layer": cls}
  s = in_shapes[0]
  if got == 0:
    sig["reported"] = "zero"
  elif n["k"] in ("avgpool", "qavgpool") and got == s[2] * n["pool"][0] * n["pool"][1]:
    sig["reported"] = "channels*pool_area"
  else:
    sig["reported"] = "other"
    if "st" in n:
      sig["strided"] = any(v > 1 for v in n["st"])
    if "dil" in n:
      sig["dilated"] = any(v > 1 for v in n["dil"])
    if "pad" in n:
      sig["pad"] = n["pad"]
    if n["k"] in ("dw2d", "kdw2d"):
      sig["dm"] = n.get("dm", 1)
  return sig


# ---------------------------------------------------------------------------
# reference energy


def _close(a, b):
  return abs(a - b) <= 0.01 + 1e-9 * abs(b)


def ref_entries(case, i, rep, ins, outs, sinks, opt, count):
  """Returns {key: (list of admissible values | None, note)}."""
  n = case["nodes"][i]
  k = n["k"]
  is_in = any(j < 0 for j in n["in"])
  is_out = i in sinks
  a_mode, w_mode = opt["a"], opt["w"]
  ms, io_ = opt["min_sram"], opt["io"]
  res = {}
  sizes = [macs.prod(s) for s in ins[i]]
  bits = [q["bits"] for q in rep["input_quantizer_list"]]
  if len(bits) != len(sizes):
    raise core.HarnessError("N%d: %d input types for %d inputs" % (i, len(bits), len(sizes)))
  vals = []
  for pairing in E.pairings(sizes, bits):
    vals.append(sum(E.mem_read(sz, b, a_mode, ms, io_, is_in) for sz, b in pairing))
  res["inputs"] = (vals, "")
  obits = rep["output_quantizer"]["bits"]
  res["outputs"] = ([E.mem_write(macs.prod(outs[i]), obits, a_mode, ms, io_, is_out)],
                    E.mem_write(1, obits, a_mode, ms, io_, is_out))
  # parameters
  if k in G.WEIGHTED:
    ks = G.kernel_shape(n, ins[i][0])
    p = E.mem_read(macs.prod(ks), rep["weight_quantizer"]["bits"], w_mode, ms, io_)
    alt = None
    if n["bias"]:
      nb = outs[i][-1]
      bb = rep["bias_quantizer"]["bits"]
      alt = p + E.mem_read(ks[-1], bb, w_mode, ms, io_)
      p += E.mem_read(nb, bb, w_mode, ms, io_)
    res["parameters"] = ([p], alt)
  elif k == "bn":
    c = ins[i][0][-1]
    p = 0.0
    for key in ("gamma_quantizer", "beta_quantizer", "mean_quantizer",
                "variance_quantizer"):
      if rep.get(key):
        p += E.mem_read(c, rep[key]["bits"], w_mode, ms, io_)
    res["parameters"] = ([p], None)
  else:
    res["parameters"] = ([0.0], None)
  # op cost
  op = None
  if k in G.WEIGHTED:
    mrep = rep.get("multiplier")
    c1 = E.multiplier_cost(mrep.get("op_type"), rep["weight_quantizer"],
                           rep["input_quantizer_list"][0], mrep)
    if c1 is not None:
      op = E.mac_op_cost(count, c1, rep["accumulator"])
  elif k in ("add", "mul"):
    key = G.KERAS_CLASS[k] + "_quantizer"
    op = E.merge_op_cost(G.KERAS_CLASS[k], count, len(sizes), rep[key],
                         rep["input_quantizer_list"],
                         reference=bool((case.get("qt") or {}).get("ref")))
  elif k in ("act", "kact", "maxpool", "flatten", "cat", "qavgpool", "qgap"):
    op = 0.0
  elif k in ("avgpool", "gap"):
    op = count * E.add_cost(rep["pool_sum_accumulator"])
  res["op_cost"] = (None if op is None else [op], None)
  return res


# ---------------------------------------------------------------------------
# oracle


def oracle(ctx, case):
  from qkeras.qtools import run_qtools  # pylint: disable=g-import-not-at-top
  _housekeeping()
  fails = []
  labels = set()
  nodes = case["nodes"]
  model, ins, outs, sinks = G.build_dag(case)
  src_q = G.build_q(case["src"])
  nontrivial = False
  for n in nodes:
    if "pad" in n and n["k"] not in ("maxpool", "avgpool", "qavgpool"):
      labels.add("pad:" + n["pad"])
      if any(v > 1 for v in n["st"]):
        labels.add("strided")
        nontrivial = True
      if any(v > 1 for v in n["dil"]):
        labels.add("dilated")
        nontrivial = True
      if n["pad"] != "valid":
        nontrivial = True
    if n["k"] in G.MERGE or "pool" in n or n["k"] in ("gap", "qgap"):
      nontrivial = True

  def done():
    ctx.tick(case, labels=["case"] + sorted(labels), nontrivial=nontrivial)
    return fails

  # documented QTools options that decide the multiplier / accumulator types of
  # keras (non-quantized) layers and of the whole model in "reference" mode
  qo = case.get("qt") or {}
  kwargs = {}
  if qo.get("kq"):
    kwargs["keras_quantizer"] = qo["kq"]
  if qo.get("ka"):
    kwargs["keras_accumulator"] = qo["ka"]
  if qo.get("ref"):
    kwargs["for_reference"] = True
  labels.update(["qt:kq:%s" % qo.get("kq"), "qt:ka:%s" % qo.get("ka"),
                 "qt:ref:%d" % int(bool(qo.get("ref")))])
  try:
    with _quiet():
      qt = run_qtools.QTools(model, process="horowitz",
                             source_quantizers=[src_q], is_inference=False,
                             **kwargs)
    rep = qt._output_dict  # pylint: disable=protected-access
  except Exception as e:  # pylint: disable=broad-except
    fails.append(("qtools_raises", core.exc_signature(e), repr(e)[:300]))
    return done()

  # (a) operation counts
  counts = {}
  for i, n in enumerate(nodes):
    name = "N%d" % i
    cls = G.KERAS_CLASS[n["k"]]
    if name not in rep:
      fails.append(("report_missing_layer", {"layer": cls}, name))
      continue
    if rep[name]["layer_type"] != cls:
      raise core.HarnessError("%s is %s, expected %s" % (name, rep[name]["layer_type"], cls))
    got = rep[name]["operation_count"]
    want = expected_count(n, ins[i])
    counts[i] = got
    labels.add("count:" + cls)
    if got != want:
      fails.append(("operation_count", count_signature(n, ins[i], got, want),
                    "%s %s input %r: reported %r, loop nest %r | %r" %
                    (name, cls, ins[i], got, want,
                     {k: v for k, v in n.items() if k in ("ks", "st", "dil", "pad", "pool", "filters", "units", "dm")})))
    for key in ("multiplier",):
      if n["k"] in G.WEIGHTED and rep[name].get(key):
        labels.add("op:" + str(rep[name][key].get("op_type")))

  # (a') the public helper asked about another geometry of the same layer:
  # get_operation_count(layer, input_shape) takes the input shape explicitly,
  # conv / depthwise / pooling layers are resolution agnostic
  from qkeras.qtools import qtools_util  # pylint: disable=g-import-not-at-top
  alt = case.get("alt", [2, 3])
  for i, n in enumerate(nodes):
    if n["k"] not in SPATIAL:
      continue
    s0 = ins[i][0]
    nd = len(s0) - 1
    s1 = [s0[a] + alt[a % 2] for a in range(nd)] + [s0[-1]]
    cls = G.KERAS_CLASS[n["k"]]
    want = expected_count(n, [s1])
    try:
      with _quiet():
        got = qtools_util.get_operation_count(model.get_layer("N%d" % i),
                                              tuple([None] + s1))
    except Exception as e:  # pylint: disable=broad-except
      fails.append(("operation_count_direct_raises",
                    dict(core.exc_signature(e), layer=cls), repr(e)[:300]))
      continue
    labels.add("direct_other_geometry")
    if got != want:
      sig = count_signature(n, [s1], got, want)
      if got == counts.get(i):
        sig["reported"] = "count_of_the_built_geometry"
      fails.append(("operation_count_direct", sig,
                    "N%d %s built for %r, asked about %r: got %r, loop nest %r" %
                    (i, cls, s0, s1, got, want)))

  # (b)-(e) energy
  for opt in case["pe"]:
    labels.update(["w:" + opt["w"], "a:" + opt["a"], "io:%d" % int(opt["io"]),
                   "min_sram:%d" % opt["min_sram"]])
    try:
      with _quiet():
        en = qt.pe(weights_on_memory=opt["w"], activations_on_memory=opt["a"],
                   min_sram_size=opt["min_sram"], rd_wr_on_io=opt["io"])
    except Exception as e:  # pylint: disable=broad-except
      fails.append(("pe_raises", core.exc_signature(e), repr(e)[:300]))
      continue
    entries = []
    for i, n in enumerate(nodes):
      name = "N%d" % i
      cls = G.KERAS_CLASS[n["k"]]
      if name not in en or name not in rep:
        fails.append(("energy_missing_layer", {"layer": cls}, name))
        continue
      if en[name].get("class_name") != cls:
        fails.append(("energy_class_name", {"layer": cls}, repr(en[name])[:200]))
      ee = en[name]["energy"]
      ref = ref_entries(case, i, rep[name], ins, outs, sinks, opt, counts.get(i, 0))
      for key in KEYS:
        v = ee[key]
        entries.append(v)
        if not (v >= 0) or not math.isfinite(v):
          fails.append(("energy_negative", {"layer": cls, "entry": key},
                        "%s %s=%r" % (name, key, v)))
        vals, alt = ref[key]
        if vals is None:
          labels.add("op_cost_unmodelled")
          continue
        if key == "op_cost":
          labels.add("op_cost_checked")
          if n["k"] in ("avgpool", "gap"):
            labels.add("op_cost_checked:keras_avgpool")
          # arithmetic kind of the unit that is costed (reported types)
          for part in ("multiplier", "accumulator", "pool_sum_accumulator",
                       "Add_quantizer", "Multiply_quantizer"):
            if rep[name].get(part):
              labels.add("op_cost_checked:%s:%s" % (
                  "merge" if part.endswith("_quantizer") else
                  "acc" if part.endswith("accumulator") else "mul",
                  E.unit_kind(rep[name][part])))
        labels.add("energy_checked")
        if not any(_close(v, E.rounded(r)) for r in vals):
          sig = {"layer": cls, "entry": key}
          if key in ("inputs", "outputs"):
            sig.update(mode=opt["a"], io=bool(opt["io"]),
                       boundary=bool((key == "inputs" and any(j < 0 for j in n["in"]))
                                     or (key == "outputs" and i in sinks)))
            if key == "outputs" and n["k"] == "bn" and any(j < 0 for j in n["in"]) \
                and _close(v, E.rounded(alt)):
              sig = {"layer": cls, "entry": key,
                     "cause": "first_layer_bn_output_size_taken_as_1"}
          elif key == "parameters":
            sig.update(mode=opt["w"], io=bool(opt["io"]))
            if alt is not None and _close(v, E.rounded(alt)) and \
                n["k"] in ("dw2d", "kdw2d"):
              sig["cause"] = "bias_size_taken_as_kernel_shape[-1]"
          else:
            sig["op_type"] = (rep[name].get("multiplier") or {}).get("op_type")
            # unit that is costed: floating point (16 / 32 bit) or fixed point
            for part in ("accumulator", "pool_sum_accumulator", "Add_quantizer",
                         "Multiply_quantizer"):
              if rep[name].get(part):
                sig["unit"] = E.unit_kind(rep[name][part])
                break
            if (case.get("qt") or {}).get("ref"):
              sig["for_reference"] = True
          fails.append(("energy_entry", sig,
                        "%s %s %s: reported %r, restated %r | opt %r" %
                        (name, cls, key, v, [E.rounded(r) for r in vals][:3], opt)))
    # (d) total
    tot = en.get("total_cost")
    ssum = math.fsum(entries)
    nl = len(nodes)
    if not isinstance(tot, (int, np.integer)) or tot < 0 or \
        abs(tot - ssum) > 0.005 * 4 * nl + 1:
      fails.append(("total_cost", {"clause": "total==sum"},
                    "total_cost %r, sum of entries %r (%d layers)" % (tot, ssum, nl)))
    extra = [k for k in en if k != "total_cost" and k not in
             set("N%d" % i for i in range(nl))]
    if extra:
      fails.append(("energy_extra_layer", {"clause": "keys"}, repr(extra)[:200]))
    # (e) extract_energy_sum / profile
    cfgd = case["cfg"]
    try:
      got = qt.extract_energy_sum(cfgd, en)
      prof = qt.extract_energy_profile(cfgd, en)
    except Exception as e:  # pylint: disable=broad-except
      fails.append(("extract_raises", core.exc_signature(e), repr(e)[:300]))
      continue
    sel_total = []
    bad_prof = None
    for i, n in enumerate(nodes):
      name = "N%d" % i
      if name not in en:
        continue
      cls = G.KERAS_CLASS[n["k"]]
      keys = cfgd[cls] if cls in cfgd else cfgd.get("default", [])
      part = [en[name]["energy"][k] for k in keys]
      sel_total += part
      if name not in prof or abs(prof[name].get("total", float("nan")) - math.fsum(part)) > 1e-6 \
          or prof[name].get("energy") != en[name]["energy"]:
        bad_prof = (name, cls, keys)
    s = math.fsum(sel_total)
    labels.add("sum_checked")
    if cfgd.get("default") is None:
      labels.add("cfg_no_default")
    if any(G.KERAS_CLASS[n["k"]] in cfgd for n in nodes):
      labels.add("cfg_class_override")
    if got not in (int(s - 1e-6), int(s + 1e-6)):
      fails.append(("extract_energy_sum", {"clause": "sum_of_selected",
                                           "has_class_override": any(
                                               G.KERAS_CLASS[n["k"]] in cfgd for n in nodes)},
                    "extract_energy_sum=%r, selected entries add to %r | cfg %r" %
                    (got, s, cfgd)))
    if bad_prof is not None or set(prof) != set(k for k in en if k != "total_cost"):
      fails.append(("extract_energy_profile", {"clause": "per_layer_total"},
                    "layer %r | cfg %r" % (bad_prof, cfgd)))
  return done()


# ---------------------------------------------------------------------------
# strategy


def case_strategy(quick):
  from hypothesis import strategies as st  # pylint: disable=g-import-not-at-top

  kq_st = st.one_of(
      G.st_qb(st, bits=(2, 8)), G.st_qb(st, bits=(2, 8)),
      st.builds(lambda b: {"t": "po2", "bits": b, "mv": None}, st.integers(3, 5)),
      st.just({"t": "bin"}), st.just({"t": "ter"}), G.st_stochastic_q(st))
  bq_st = G.st_qb(st, bits=(2, 8), ints=(0, 3), alpha=(None,))
  avgq_st = st.builds(lambda b: {"t": "qb", "bits": b, "int": 0, "sym": 1, "kn": 1,
                                 "alpha": None}, st.integers(4, 8))
  actq_st = st.one_of(
      st.builds(lambda b, i: {"t": "relu", "bits": b, "int": min(i, b)},
                st.integers(2, 8), st.integers(0, 2)),
      st.builds(lambda b, i: {"t": "qb", "bits": b, "int": min(i, b - 1),
                              "sym": 1, "kn": 1, "alpha": None},
                st.integers(2, 8), st.integers(0, 2)))

  def geometry(draw, nd, cur, pads, kmax=5, force_same_stride1=False,
               equal_strides=False):
    pad = "same" if force_same_stride1 else draw(st.sampled_from(pads))
    ks, stv, dil = [], [], []
    for a in range(nd):
      s = 1 if force_same_stride1 else draw(st.integers(1, 3))
      if pad == "valid":
        k = draw(st.integers(1, min(kmax, cur[a])))
      else:
        k = draw(st.integers(1, kmax))
      d = 1
      if s == 1 and k > 1 and (pad != "valid" or (k - 1) * 2 + 1 <= cur[a]):
        d = draw(st.integers(1, 2))
      ks.append(k)
      stv.append(s)
      dil.append(d)
    if equal_strides:
      stv = [stv[0]] * nd
    if any(s > 1 for s in stv):
      dil = [1] * nd
    return ks, stv, dil, pad

  @st.composite
  def case19(draw):
    fam = draw(st.sampled_from(["2d", "2d", "2d", "1d", "1d", "dense"]))
    nodes = []
    shape = {}

    def push(n, inputs, in_shape):
      n["in"] = inputs
      nodes.append(n)
      idx = len(nodes) - 1
      if n["k"] in ("add", "mul"):
        shape[idx] = list(in_shape)
      elif n["k"] == "cat":
        shape[idx] = list(in_shape)
      else:
        shape[idx] = G.out_shape(n, in_shape)
      return idx

    def weighted(kind, cur_shape, **geo):
      q = draw(st.booleans())
      n = {"k": kind if q else "k" + kind, "bias": draw(st.booleans())}
      n.update(geo)
      if q:
        n["kq"] = draw(kq_st)
        n["bq"] = draw(bq_st)
      return n

    src = draw(st.builds(lambda b, i: {"t": "qb", "bits": b, "int": min(i, b - 1),
                                       "sym": 1, "kn": 1, "alpha": None},
                         st.integers(2, 8), st.integers(0, 2)))
    if fam == "2d":
      in_shape = [draw(st.integers(4, 12)), draw(st.integers(4, 12)),
                  draw(st.integers(1, 8))]
      cur, cs = -1, list(in_shape)
      n_trunk = draw(st.integers(1, 4))
      for t in range(n_trunk):
        opts = ["conv", "conv", "conv", "dw", "dw", "act", "bn", "maxpool",
                "avgpool", "avgpool", "qavgpool", "qavgpool", "merge", "merge",
                "merge"]
        ch = draw(st.sampled_from(opts))
        if ch == "conv":
          ks, stv, dil, pad = geometry(draw, 2, cs, ["valid", "same"])
          n = weighted("conv2d", cs, ks=ks, st=stv, dil=dil, pad=pad,
                       filters=draw(st.integers(1, 8)))
        elif ch == "dw":
          ks, stv, dil, pad = geometry(draw, 2, cs, ["valid", "same"],
                                       equal_strides=True)
          n = weighted("dw2d", cs, ks=ks, st=stv, dil=dil, pad=pad)
        elif ch == "act":
          n = ({"k": "act", "q": draw(actq_st)} if draw(st.booleans())
               else {"k": "kact"})
        elif ch == "bn":
          n = {"k": "bn"}
        elif ch in ("maxpool", "avgpool", "qavgpool"):
          pad = draw(st.sampled_from(["valid", "same"]))
          pool = [draw(st.integers(1, min(3, cs[0]))), draw(st.integers(1, min(3, cs[1])))]
          stv = [draw(st.integers(1, 3)), draw(st.integers(1, 3))]
          n = {"k": ch, "pool": pool, "st": stv, "pad": pad}
          if ch == "qavgpool":
            n["q"] = draw(avgq_st)
        else:
          mk = draw(st.sampled_from(["add", "mul", "cat"]))
          nb = draw(st.integers(2, 3))
          ident = draw(st.booleans()) and cur >= 0
          f = cs[2] if (ident and mk != "cat") else draw(st.integers(1, 8))
          branches = []
          for b in range(nb):
            if ident and b == 0:
              branches.append(cur)
              continue
            ks, stv, dil, pad = geometry(draw, 2, cs, ["same"], kmax=3,
                                         force_same_stride1=True)
            fb = f if mk != "cat" else draw(st.integers(1, 8))
            bn_ = weighted("conv2d", cs, ks=ks, st=stv, dil=dil, pad=pad, filters=fb)
            branches.append(push(bn_, [cur], cs))
          if mk == "cat":
            osh = cs[:2] + [sum(shape[b][2] if b >= 0 else cs[2] for b in branches)]
          else:
            osh = cs[:2] + [f]
          cur = push({"k": mk}, branches, osh)
          cs = shape[cur]
          continue
        cur = push(n, [cur], cs)
        cs = shape[cur]
      head = draw(st.sampled_from(["gap", "gap", "qgap", "qgap", "flatten",
                                   "flatten", "flatten", "none", "none"]))
      if head != "none":
        n = {"k": head}
        if head == "qgap":
          n["q"] = draw(avgq_st)
        cur = push(n, [cur], cs)
        cs = shape[cur]
        n_dense = draw(st.integers(0, 2))
      else:
        n_dense = 0
    elif fam == "1d":
      in_shape = [draw(st.integers(4, 12)), draw(st.integers(1, 8))]
      cur, cs = -1, list(in_shape)
      for t in range(draw(st.integers(1, 3))):
        ks, stv, dil, pad = geometry(draw, 1, cs, ["valid", "same", "causal"])
        n = weighted("conv1d", cs, ks=ks, st=stv, dil=dil, pad=pad,
                     filters=draw(st.integers(1, 8)))
        cur = push(n, [cur], cs)
        cs = shape[cur]
        if draw(st.booleans()):
          n = ({"k": "act", "q": draw(actq_st)} if draw(st.booleans())
               else {"k": "kact"})
          cur = push(n, [cur], cs)
          cs = shape[cur]
      cur = push({"k": "flatten"}, [cur], cs)
      cs = shape[cur]
      n_dense = draw(st.integers(0, 2))
    else:
      in_shape = [draw(st.integers(1, 16))]
      cur, cs = -1, list(in_shape)
      n_dense = draw(st.integers(1, 3))
    for t in range(n_dense):
      n = weighted("dense", cs, units=draw(st.integers(1, 8)))
      cur = push(n, [cur], cs)
      cs = shape[cur]
      if draw(st.booleans()):
        n = ({"k": "act", "q": draw(actq_st)} if draw(st.booleans())
             else {"k": "kact"})
        cur = push(n, [cur], cs)
        cs = shape[cur]
    pe = []
    for _ in range(2):
      pe.append({"w": draw(st.sampled_from(["dram", "sram", "fixed"])),
                 "a": draw(st.sampled_from(["dram", "sram"])),
                 "min_sram": draw(st.sampled_from([0, 1024, 2 ** 20])),
                 "io": draw(st.booleans())})
    classes = sorted(set(G.KERAS_CLASS[n["k"]] for n in nodes))
    cfgd = {}
    if draw(st.integers(0, 4)) != 0:
      cfgd["default"] = draw(st.lists(st.sampled_from(KEYS), unique=True, max_size=4))
    for c in classes:
      if draw(st.integers(0, 2)) == 0:
        cfgd[c] = draw(st.lists(st.sampled_from(KEYS), unique=True, max_size=4))
    case = {"in_shape": in_shape, "src": src, "nodes": nodes, "pe": pe,
            "cfg": cfgd, "alt": [draw(st.integers(1, 4)), draw(st.integers(1, 4))]}
    # QTools options (drawn last: earlier draws keep their meaning)
    if draw(st.integers(0, 2)) != 0:
      modes = [None, "fp32", "fp16", "fp16", "int8", "int16", "int32"]
      case["qt"] = {"kq": draw(st.sampled_from(modes)),
                    "ka": draw(st.sampled_from(modes)),
                    "ref": draw(st.sampled_from([False, True, True]))}
    return case

  return case19()


def fixed_cases():
  """Hand-built models that together produce every REQUIRED label; run first
  and regardless of the time budget (the vacuity guard must not depend on how
  far a slow machine gets)."""
  qb = lambda b, i, a=None: {"t": "qb", "bits": b, "int": i, "sym": 1, "kn": 1,
                             "alpha": a}
  relu = {"t": "relu", "bits": 4, "int": 1}
  conv = lambda k, f, inp, **kw: dict(
      {"k": k, "filters": f, "ks": [3, 3], "st": [1, 1], "dil": [1, 1],
       "pad": "same", "bias": True, "kq": qb(4, 0, 1.0), "bq": qb(4, 0), "in": [inp]},
      **kw)
  pes = [[{"w": "dram", "a": "dram", "min_sram": 0, "io": True},
          {"w": "sram", "a": "sram", "min_sram": 1024, "io": False}],
         [{"w": "fixed", "a": "dram", "min_sram": 2 ** 20, "io": False},
          {"w": "dram", "a": "sram", "min_sram": 0, "io": True}]]
  cfgd = {"default": ["inputs", "parameters", "op_cost"], "QActivation": ["outputs"]}
  a = [conv("conv2d", 4, -1, st=[2, 2]),
       {"k": "act", "q": relu, "in": [0]},
       conv("kconv2d", 4, 1, pad="valid", dil=[2, 2]),
       {"k": "bn", "in": [2]},
       {"k": "kact", "in": [3]},
       conv("conv2d", 4, 4, ks=[1, 1]), conv("kconv2d", 4, 4),
       {"k": "add", "in": [5, 6]},
       conv("conv2d", 4, 7, ks=[1, 1]), conv("conv2d", 4, 7, ks=[2, 2]),
       {"k": "mul", "in": [8, 9]},
       conv("kconv2d", 2, 10, ks=[1, 1]),
       {"k": "cat", "in": [10, 11]},
       {"k": "maxpool", "pool": [2, 2], "st": [1, 1], "pad": "valid", "in": [12]},
       {"k": "gap", "in": [13]},
       {"k": "kdense", "units": 3, "bias": True, "in": [14]},
       {"k": "dense", "units": 2, "bias": True, "kq": {"t": "ter"}, "bq": qb(4, 0),
        "in": [15]}]
  dwgeo = {"ks": [2, 2], "st": [1, 1], "dil": [1, 1], "pad": "valid", "bias": True}
  b = [dict({"k": "dw2d", "kq": {"t": "po2", "bits": 4, "mv": None}, "bq": qb(4, 0),
             "in": [-1]}, **dwgeo),
       dict({"k": "kdw2d", "in": [0]}, **dict(dwgeo, pad="same")),
       {"k": "avgpool", "pool": [2, 2], "st": [2, 1], "pad": "same", "in": [1]},
       {"k": "qavgpool", "pool": [2, 1], "st": [1, 2], "pad": "valid",
        "q": qb(6, 0), "in": [2]},
       {"k": "qgap", "q": qb(6, 0), "in": [3]},
       {"k": "dense", "units": 2, "bias": False, "kq": qb(4, 0, 1.0), "bq": qb(4, 0),
        "in": [4]}]
  c1 = lambda k, inp, **kw: dict(
      {"k": k, "filters": 3, "ks": [3], "st": [1], "dil": [1], "pad": "causal",
       "bias": True, "kq": qb(4, 0, 1.0), "bq": qb(4, 0), "in": [inp]}, **kw)
  c = [c1("conv1d", -1), c1("kconv1d", 0, pad="same", st=[2]),
       c1("conv1d", 1, pad="valid", dil=[2], kq={"t": "bin"}),
       {"k": "flatten", "in": [2]},
       {"k": "kdense", "units": 2, "bias": False, "in": [3]}]
  out = []
  for j, (shape, nodes) in enumerate((([12, 12, 3], a), ([7, 6, 2], b), ([11, 2], c))):
    out.append({"in_shape": shape, "src": qb(6, 0), "nodes": nodes,
                "pe": pes[j % 2], "cfg": cfgd, "alt": [2, 3]})
  out.append({"in_shape": [7, 6, 2], "src": qb(6, 0), "nodes": b, "pe": pes[0],
              "cfg": {"QDense": ["op_cost"]}, "alt": [1, 4]})
  # the same models under the QTools options keras_quantizer /
  # keras_accumulator / for_reference (16/32-bit float and int8/16/32 units)
  for j, (shape, nodes, qt) in enumerate((
      ([12, 12, 3], a, {"kq": "fp16", "ka": "fp16", "ref": True}),
      ([12, 12, 3], a, {"kq": None, "ka": "fp16", "ref": False}),
      ([7, 6, 2], b, {"kq": "int8", "ka": "int32", "ref": True}),
      ([11, 2], c, {"kq": "fp32", "ka": "fp32", "ref": True}),
      ([11, 2], c, {"kq": "int16", "ka": None, "ref": False}),
      ([7, 6, 2], b, {"kq": "fp16", "ka": None, "ref": True}))):
    out.append({"in_shape": shape, "src": qb(6, 0), "nodes": nodes,
                "pe": pes[j % 2], "cfg": cfgd, "alt": [2, 3], "qt": qt})
  return out


def run(ctx):
  for case in ctx.shard(fixed_cases()):      # never cut by the budget
    ctx.labels["fixed_prefix"] += 1
    for sc, sig, detail in oracle(ctx, case):
      ctx.fail(sc, sig, case, detail)
  n = (2880 if ctx.quick else 40000) // ctx.n + 1
  core.hyp_run(ctx, case_strategy(ctx.quick), lambda c: oracle(ctx, c), n,
               name="c19")


def replay(ctx, case):
  for sc, sig, detail in oracle(ctx, case):
    ctx.fail(sc, sig, case, detail)
