"""C15 - batch-norm folding and unfolding preserve the network function at
inference.

Sub-checks
  raises          a library call the property requires to work raised
  folded_weights  get_folded_weights() vs the closed form of the statement
  float_equiv     (a) no quantizers: folded layer == conv -> BN (float64 ref)
  quant_equiv     (b) quantizers: == conv(q_k(folded kernel)) + q_b(folded bias)
  unfold          (c) unfold_model: classes, copied weights, predictions
  fold_list       (d1) convert_to_folded_model: which layers are folded,
                  BN-free model predictions
  quantize_fold   (d2) model_quantize(enable_bn_folding=True) + weight transfer
  history         step lists on ONE folded model instance (call,
                  get_folded_weights, unfold_model, model_save_quantized_weights,
                  populate_bias_quantizer_from_accumulator, set_weights with
                  the same iteration, assign to single variables): every observation must hold for the CURRENT
                  parameters; "stale" marks results equal to the folded
                  weights of an earlier parameter set
"""
import os
import re

import numpy as np

from vf import core
from vf.gen import bnfold as G
from vf.ref import bnfold as R

RULE = ("layer cases = (QConv2DBatchnorm | QDepthwiseConv2DBatchnorm) x "
        "folding_mode x use_bias x center x scale x epsilon x "
        "ema_freeze_delay x activation x geometry (kernel 1..3(4), strides, "
        "dilation, padding, channels) x kernel/bias quantizer x explicitly "
        "set BN statistics (gamma incl. 0 / negative, beta, large means, "
        "variances down to 0 / 1e-6) x seeded kernel/bias/input; a "
        "deterministic option cross product plus Hypothesis cases. Model "
        "cases = small DAGs (chain, two branches merged by add/concat, "
        "shared conv output) of folded layers (unfold_model) or stock "
        "conv/depthwise + BN layers (convert_to_folded_model, "
        "model_quantize(enable_bn_folding=True)). History cases = one "
        "folded layer in a functional model + 2..6 (10) steps on that same "
        "instance (observe: call / get_folded_weights / unfold_model / "
        "model_save_quantized_weights; populate_bias_quantizer_from_"
        "accumulator, after which the bias reference quantizer is the one "
        "get_quantizers() reports; mutate: set_weights of a new drawn "
        "parameter set with unchanged iteration, assign to kernel / bias / "
        "gamma / beta / moving_mean / moving_variance), observations "
        "repeated at the end; non-trivial if it has a mutation. Otherwise "
        "non-trivial = the oracle "
        "compared outputs (no crash) and at least one BN statistic of a "
        "folded layer differs from the identity (gamma!=1, beta!=0, "
        "mean!=0 or var!=1) and the reference output is not all zero; "
        "distinct by hash of the case description.")
ASSUMPTIONS = [
    "checks run under TF_USE_LEGACY_KERAS=1 (tf_keras), float32, eager, "
    "training=False only",
    "layer-level references are float64 numpy (own conv / depthwise loop "
    "nest written from the TF padding rules); tolerance per output element "
    "1e-5*A + 1e-6 where A is the same expression evaluated with absolute "
    "values (A >= |ref|, equal to it without cancellation); measured on "
    "the unchanged tree (2 x 3256 cases): max error 0.020 of that tolerance "
    "(0.077 of the plain 1e-5*max|ref|+1e-6 of DESIGN.md)",
    "get_folded_weights() vs closed form: 2e-6*|value| + 1e-37 for the "
    "kernel, 2e-6*(|gamma/sqrt(var+eps)|*(|bias|+|mean|)+|beta|) + 1e-37 for "
    "the bias (float32 rsqrt, itself up to 2.2e-7 off, and three roundings: "
    "a-priori about 0.26 of it; measured max 0.10 in 6.5k cases, 5 of 1777 "
    "thorough cases between 0.1 and 0.5)",
    "quantized reference applies freshly built quantizers (same string) to "
    "get_folded_weights() once that is validated against the closed form "
    "(avoids rounding-breakpoint flips from a 1-ulp different folded "
    "tensor); a mismatch is only reported if the reference built from the "
    "closed-form tensors disagrees as well",
    "quantizer strings always carry an explicit alpha (the layers rewrite "
    "alpha=None to 'auto_po2')",
    "model-level comparisons are float32 vs float32 (Keras models): "
    "1e-5*max|ref| + 1e-6; observed bit-exact on the unchanged tree",
    "weight transfer for model_quantize(enable_bn_folding=True) is done by "
    "the check: kernel/bias (zeros if the conv had none) and the BN "
    "gamma (ones if scale=False) / beta (zeros if center=False) / "
    "moving statistics assigned by attribute",
    "depthwise layers use equal row/column strides; dilation only with "
    "stride 1 (TensorFlow / Keras constraints)",
]
BUDGET_S = {"quick": 38, "thorough": 840}
REQUIRED_LABELS = {
    "quick": ["lattice", "hyp_layer", "hyp_unfold", "hyp_quantize",
              "cls:conv", "cls:dw",
              "mode:ema_stats_folding", "mode:batch_stats_folding",
              "float_equiv_checked", "quant_equiv_checked",
              "folded_weights_checked", "gamma_zero", "gamma_negative",
              "var_tiny", "mean_large", "use_bias:False", "scale:False",
              "center:False", "pad:same", "strided", "dilated",
              "unfold_checked", "fold_list_checked", "quantize_fold_checked",
              "tmpl:branched", "not_folded_conv_present", "hyp_history",
              "history_checked", "hist:set_weights", "hist:assign",
              "hist:unfold", "hist:gfw", "populated", "stock_frozen",
              "stock_bn_stats_only"],
}
REQUIRED_LABELS["thorough"] = REQUIRED_LABELS["quick"]

FOLDED = ("QConv2DBatchnorm", "QDepthwiseConv2DBatchnorm")
PLAIN = {"conv": "QConv2D", "dw": "QDepthwiseConv2D"}
FCLS = {"conv": "QConv2DBatchnorm", "dw": "QDepthwiseConv2DBatchnorm"}

_count = {"n": 0}


def _housekeeping():
  import tensorflow as tf  # pylint: disable=g-import-not-at-top
  _count["n"] += 1
  if _count["n"] % 20 == 0:
    tf.keras.backend.clear_session()
  core.reset_globals()


def _lib_exc(e, stage, extra):
  """Failure tuple for an exception of the library; harness faults (no frame
  of the code under test in the traceback) propagate."""
  es = core.exc_signature(e)
  msg = str(e)
  if es["frame"] == "outside-qkeras":
    # symbolic (functional-API) calls run the autograph copy of call(); the
    # original frame is only quoted in the message
    repo = os.path.realpath(os.environ.get("VERIF_REPO", "/repo"))
    mm = re.search(r'File "(%s/qkeras/[^"]+)", line \d+, in (\w+)' %
                   re.escape(repo), msg)
    if not mm:
      raise e
    es["frame"] = os.path.relpath(mm.group(1), repo) + ":" + mm.group(2)
  if ("Attempt to convert a value (None)" in msg or
      "None values not supported" in msg):
    cause = "none_to_tensor"
  elif "Error when deserializing class" in msg:
    cause = "deserialize_" + (re.findall(r"deserializing class '(\w+)'", msg)
                              or ["?"])[0]
  else:
    cause = "other"
  # file (not function: the same defect surfaces in call / a lambda of call)
  sig = {"exc": es["exc"], "file": es["frame"].split(":")[0], "stage": stage,
         "cause": cause}
  sig.update(extra)
  return ("raises", sig, "%s: %s" % (type(e).__name__, str(e)[:300]))


def _fresh(qstr):
  from qkeras.quantizers import get_quantizer  # pylint: disable=g-import-not-at-top
  return get_quantizer(qstr)


def _quantize(qstr, arr):
  import tensorflow as tf  # pylint: disable=g-import-not-at-top
  if qstr is None:
    return np.asarray(arr, dtype=np.float32)
  q = _fresh(qstr) if isinstance(qstr, str) else qstr
  return np.asarray(q(tf.constant(np.asarray(arr, dtype=np.float32))),
                    dtype=np.float32)


def _fam(table, s):
  return table.get(s, "other")


def check_folded_weights(cls, lib_k, lib_b, kernel, bias, gamma, beta, mean,
                         var, eps):
  """Returns (ok_kernel, ok_bias, detail, ratio) against the closed form."""
  kf, bf, bmag = R.fold(cls, kernel, bias, gamma, beta, mean, var, eps)
  lk = np.asarray(lib_k, dtype=np.float64)
  lb = np.asarray(lib_b, dtype=np.float64)
  if lk.shape != kf.shape or lb.shape != bf.shape:
    return False, False, "shape %r/%r vs %r/%r" % (lk.shape, lb.shape,
                                                   kf.shape, bf.shape), 9.9, kf, bf
  tk = 2e-6 * np.abs(kf) + 1e-37
  tb = 2e-6 * bmag + 1e-37
  with np.errstate(invalid="ignore"):
    ek = np.abs(lk - kf)
    eb = np.abs(lb - bf)
  okk = bool(np.all(ek <= tk))
  okb = bool(np.all(eb <= tb))
  ratio = float(max(np.max(np.nan_to_num(ek / tk, nan=9.9)),
                    np.max(np.nan_to_num(eb / tb, nan=9.9))))
  d = ""
  if not okk:
    i = np.unravel_index(int(np.argmax(np.nan_to_num(ek / tk, nan=np.inf))), ek.shape)
    d += "kernel%r lib=%r closed_form=%r; " % (tuple(int(v) for v in i),
                                              float(lk[i]), float(kf[i]))
  if not okb:
    i = int(np.argmax(np.nan_to_num(eb / tb, nan=np.inf)))
    d += "bias[%d] lib=%r closed_form=%r" % (i, float(lb[i]), float(bf[i]))
  return okk, okb, d, ratio, kf, bf


def _cmp(y, ref, mag):
  """(bad?, ratio, detail) for |y-ref| <= 1e-5*mag + 1e-6 elementwise."""
  y = np.asarray(y, dtype=np.float64)
  if y.shape != ref.shape:
    return True, 9e9, "shape %r vs reference %r" % (y.shape, ref.shape)
  tol = 1e-5 * mag + 1e-6
  err = np.abs(y - ref)
  r = np.nan_to_num(err / tol, nan=np.inf)
  i = np.unravel_index(int(np.argmax(r)), r.shape)
  ratio = float(r[i])
  return (ratio > 1.0, ratio,
          "out%r got=%r ref=%r tol=%.3g (err/tol=%.3g, %d of %d elements off)"
          % (tuple(int(v) for v in i), float(y[i]), float(ref[i]),
             float(tol[i]), ratio, int((r > 1).sum()), r.size))


def stat_labels(p, labs):
  b = p["bn"]
  if p["scale"]:
    if any(v == 0 for v in b["gamma"]):
      labs.append("gamma_zero")
    if any(v < 0 for v in b["gamma"]):
      labs.append("gamma_negative")
  if any(v <= 1e-4 for v in b["var"]):
    labs.append("var_tiny")
  if any(abs(v) >= 100 for v in b["mean"]):
    labs.append("mean_large")
  g = p["geom"]
  labs.append("pad:" + g["pad"])
  if g["sh"] > 1 or g["sw"] > 1:
    labs.append("strided")
  if g["dh"] > 1 or g["dw"] > 1:
    labs.append("dilated")


def nonidentity(p):
  b = p["bn"]
  return ((p["scale"] and any(v != 1 for v in b["gamma"])) or
          (p["center"] and any(v != 0 for v in b["beta"])) or
          any(v != 0 for v in b["mean"]) or any(v != 1 for v in b["var"]))


# --------------------------------------------------------------------------
# layer-level oracle: (a), (b), folded weights


def oracle_layer(case, st):
  import tensorflow as tf  # pylint: disable=g-import-not-at-top
  fails = []
  cls, g = case["cls"], case["geom"]
  kernel, bias = G.layer_tensors(case, g["cin"])
  gamma, beta, mean, var = G.bn_tensors(case)
  x = G.input_tensor(case)
  opts = {"center": case["center"]}
  base = {"cls": cls, "mode": case["mode"], "use_bias": case["use_bias"],
          "scale": case["scale"]}
  strides, dil = (g["sh"], g["sw"]), (g["dh"], g["dw"])
  try:
    try:
      layer = G.make_folded_layer(case)
      layer(tf.constant(x), training=False)        # builds kernel + BN
      G.set_folded_weights(layer, cls, kernel, bias, gamma, beta, mean, var)
      y = layer(tf.constant(x), training=False).numpy()
    except Exception as e:  # pylint: disable=broad-except
      fails.append(_lib_exc(e, "call", opts))
      y = None
    try:
      if y is None:
        # the layer could not be called; build it to reach the weights
        layer = G.make_folded_layer(case)
        layer.build((None, g["h"], g["w"], g["cin"]))
        layer.batchnorm.build((None, 1, 1, G.cout_of(cls, g["cin"], g["out"])))
        G.set_folded_weights(layer, cls, kernel, bias, gamma, beta, mean, var)
      lib_k, lib_b = [np.asarray(t) for t in layer.get_folded_weights()]
    except Exception as e:  # pylint: disable=broad-except
      fails.append(_lib_exc(e, "get_folded_weights", opts))
      return fails
    okk, okb, d, ratio, kf, bf = check_folded_weights(
        cls, lib_k, lib_b, kernel, bias, gamma, beta, mean, var, case["eps"])
    st["folded_weights_checked"] = True
    st["fw_ratio"] = ratio
    if not (okk and okb):
      which = "kernel" if not okk else "bias"
      fails.append(("folded_weights",
                    {"cls": cls, "which": which, "use_bias": case["use_bias"],
                     "scale": case["scale"]}, d))
    if y is None:
      return fails
    if not np.all(np.isfinite(y)):
      fails.append(("float_equiv" if not (case["kq"] or case["bq"]) else
                    "quant_equiv", dict(base, clause="nonfinite"),
                    "non-finite output"))
      return fails
    relu = (lambda r: np.maximum(r, 0.0)) if case["act"] == "relu" else (lambda r: r)
    if case["kq"] is None and case["bq"] is None:
      ref, mag = R.conv_bn(cls, x, kernel, bias, gamma, beta, mean, var,
                           case["eps"], strides, g["pad"], dil)
      bad, ratio, d = _cmp(y, relu(ref), mag)
      st["float_equiv_checked"] = True
      st["out_ratio"] = ratio
      st["ref_nonzero"] = bool(np.any(ref != 0))
      if bad:
        fails.append(("float_equiv", dict(base, clause="output"), d))
    else:
      srcs = [(lib_k if okk else kf.astype(np.float32),
               lib_b if okb else bf.astype(np.float32)),
              (kf.astype(np.float32), bf.astype(np.float32))]
      res = []
      for sk, sb in srcs:
        qk = _quantize(case["kq"], sk)
        qb = _quantize(case["bq"], sb)
        ref, mag = R.conv_bias(cls, x, qk, qb, strides, g["pad"], dil)
        res.append(_cmp(y, relu(ref), mag))
        if not res[-1][0]:
          break
      st["quant_equiv_checked"] = True
      st["out_ratio"] = min(r[1] for r in res)
      st["ref_nonzero"] = bool(np.any(ref != 0))
      if len(res) == 2 and not res[1][0]:
        st["breakpoint_ambiguous"] = True
      if all(r[0] for r in res):
        fails.append(("quant_equiv",
                      dict(base, clause="output",
                           kq=_fam(G.KQ_INV, case["kq"]),
                           bq=_fam(G.BQ_INV, case["bq"])), res[0][2]))
    return fails
  finally:
    _housekeeping()


def layer_labels(case, st, src):
  labs = [src, "cls:" + case["cls"], "mode:" + case["mode"],
          "use_bias:%s" % case["use_bias"], "center:%s" % case["center"],
          "scale:%s" % case["scale"], "kq:" + _fam(G.KQ_INV, case["kq"]),
          "bq:" + _fam(G.BQ_INV, case["bq"]),
          "efd:%s" % case.get("efd"), "act:%s" % case.get("act"),
          "eps:%g" % case["eps"]]
  stat_labels(case, labs)
  for k in ("folded_weights_checked", "float_equiv_checked",
            "quant_equiv_checked", "breakpoint_ambiguous"):
    if st.get(k):
      labs.append(k)
  for key, name in (("out_ratio", "out_err/tol"), ("fw_ratio", "fw_err/tol")):
    if key in st:
      r = st[key]
      labs.append("%s<=%s" % (name, "0.01" if r <= 0.01 else
                              ("0.1" if r <= 0.1 else
                               ("0.5" if r <= 0.5 else
                                ("1" if r <= 1 else "inf")))))
  nontriv = bool((st.get("float_equiv_checked") or
                  st.get("quant_equiv_checked")) and nonidentity(case) and
                 st.get("ref_nonzero"))
  return labs, nontriv


# --------------------------------------------------------------------------
# model-level oracles


def _predict(model, x):
  import tensorflow as tf  # pylint: disable=g-import-not-at-top
  y = model(tf.constant(x), training=False)
  if not isinstance(y, (list, tuple)):
    y = [y]
  return [np.asarray(t, dtype=np.float64) for t in y]


def _cmp_models(ya, yb):
  """ya: observed, yb: reference; 1e-5*max|ref| + 1e-6 per output tensor."""
  if len(ya) != len(yb):
    return True, "number of outputs %d vs %d" % (len(ya), len(yb)), 9e9
  worst = 0.0
  d = ""
  for k, (a, b) in enumerate(zip(ya, yb)):
    if a.shape != b.shape:
      return True, "output %d shape %r vs %r" % (k, a.shape, b.shape), 9e9
    tol = 1e-5 * float(np.max(np.abs(b))) + 1e-6 if b.size else 1e-6
    err = np.nan_to_num(np.abs(a - b), nan=np.inf)
    i = np.unravel_index(int(np.argmax(err)), err.shape)
    r = float(err[i]) / tol
    if r > worst:
      worst = r
      d = "output %d %r got=%r ref=%r tol=%.3g" % (
          k, tuple(int(v) for v in i), float(a[i]), float(b[i]), tol)
  return worst > 1.0, d, worst


def _merge_order_changed(model, case, folds):
  """Names of add/concat layers of `model` whose input order differs from the
  description (folded BN names map to their conv)."""
  inv = {b: c for c, b in folds.items()}
  out = []
  for nd in case["nodes"]:
    if nd["op"] not in ("add", "concat"):
      continue
    want = [inv.get(i, i) for i in nd["inputs"]]
    try:
      lyr = model.get_layer(nd["name"])
      # the BN-free model re-calls the cloned layers: its node is the last
      ins = lyr.get_input_at(len(lyr._inbound_nodes) - 1)  # pylint: disable=protected-access
      got = [t._keras_history.layer.name for t in ins]  # pylint: disable=protected-access
    except Exception:  # pylint: disable=broad-except
      continue
    if got != want:
      out.append("%s:%s got %r want %r" % (nd["op"], nd["name"], got, want))
  return out


def _folded_nodes(case):
  return [nd for nd in case["nodes"] if nd["op"] in ("fconv", "fdw")]


def oracle_unfold(case, st):
  from qkeras import bn_folding_utils  # pylint: disable=g-import-not-at-top
  fails = []
  fn = _folded_nodes(case)
  opts = {"center": all(nd["center"] for nd in fn)}
  mcls = "+".join(sorted(set(nd["op"][1:] for nd in fn)))
  shp = G.node_shapes(case)
  try:
    try:
      m = G.build_model(case)
    except Exception as e:  # pylint: disable=broad-except
      return [_lib_exc(e, "call", opts)]
    x = G.input_tensor(case)
    try:
      ym = _predict(m, x)
    except Exception as e:  # pylint: disable=broad-except
      return [_lib_exc(e, "call", opts)]
    try:
      u = bn_folding_utils.unfold_model(m)
    except Exception as e:  # pylint: disable=broad-except
      return [_lib_exc(e, "unfold_model", opts)]
    st["unfold_checked"] = True
    left = [l.name for l in u.layers if l.__class__.__name__ in FOLDED]
    if left:
      fails.append(("unfold", {"clause": "folded_layer_left"},
                    "still folded: %r" % left))
    for nd in fn:
      cls = nd["op"][1:]
      try:
        ul = u.get_layer(nd["name"])
      except ValueError:
        fails.append(("unfold", {"clause": "layer_missing", "cls": cls},
                      nd["name"]))
        continue
      if ul.__class__.__name__ != PLAIN[cls]:
        fails.append(("unfold", {"clause": "class", "cls": cls},
                      "%s is %s" % (nd["name"], ul.__class__.__name__)))
        continue
      cin = shp[nd["inputs"][0]][2]
      kernel, bias = G.layer_tensors(nd, cin)
      gamma, beta, mean, var = G.bn_tensors(nd)
      w = ul.get_weights()
      if len(w) != 2:
        fails.append(("unfold", {"clause": "weights_count", "cls": cls},
                      "%s has %d weights" % (nd["name"], len(w))))
        continue
      okk, okb, d, _, _, _ = check_folded_weights(
          cls, w[0], w[1], kernel, bias, gamma, beta, mean, var, nd["eps"])
      if not (okk and okb):
        fails.append(("unfold",
                      {"clause": "weights", "cls": cls,
                       "which": "kernel" if not okk else "bias"}, d))
    try:
      yu = _predict(u, x)
    except Exception as e:  # pylint: disable=broad-except
      fails.append(_lib_exc(e, "unfolded_call", opts))
      return fails
    bad, d, ratio = _cmp_models(yu, ym)
    st["model_ratio"] = ratio
    st["ref_nonzero"] = any(bool(np.any(t != 0)) for t in ym)
    if bad:
      fails.append(("unfold", {"clause": "predictions", "cls": mcls},
                    d))
    return fails
  finally:
    import tensorflow as tf  # pylint: disable=g-import-not-at-top
    tf.keras.backend.clear_session()
    core.reset_globals()


def oracle_quantize(case, st):
  from qkeras.utils import convert_to_folded_model, model_quantize  # pylint: disable=g-import-not-at-top
  fails = []
  shp = G.node_shapes(case)
  byname = {nd["name"]: nd for nd in case["nodes"]}
  folds = G.expected_folds(case)
  convs = [nd for nd in case["nodes"] if nd["op"] in ("conv", "dw")]
  st["n_folds"] = len(folds)
  st["not_folded_conv"] = any(nd["name"] not in folds for nd in convs)
  try:
    m = G.build_model(case)
    x = G.input_tensor(case)
    y0 = _predict(m, x)
    st["ref_nonzero"] = any(bool(np.any(t != 0)) for t in y0)
    # ---- d1: convert_to_folded_model
    try:
      fm, lst = convert_to_folded_model(m)
    except Exception as e:  # pylint: disable=broad-except
      return [_lib_exc(e, "convert_to_folded_model", {})]
    st["fold_list_checked"] = True
    if sorted(lst) != sorted(folds):
      extra = sorted(set(lst) - set(folds))
      miss = sorted(set(folds) - set(lst))
      fails.append(("fold_list",
                    {"clause": "extra" if extra else "missing"},
                    "layers_to_fold=%r expected=%r" % (sorted(lst),
                                                      sorted(folds))))
    else:
      want = ["in"] + [nd["name"] for nd in case["nodes"]
                       if nd["name"] not in folds.values()]
      got = [l.name for l in fm.layers]
      if sorted(got) != sorted(want):
        fails.append(("fold_list", {"clause": "model_layers"},
                      "layers %r expected %r" % (got, want)))
      else:
        ref1 = G.build_model(case, {b: ("skip",) for b in folds.values()})
        bad, d, _ = _cmp_models(_predict(fm, x), _predict(ref1, x))
        if bad:
          oc = _merge_order_changed(fm, case, folds)
          if any(o.startswith("concat") for o in oc):
            fails.append(("fold_list", {"clause": "merge_input_order",
                                        "merge": "concat"},
                          "%s; %s" % ("; ".join(oc), d)))
          else:
            fails.append(("fold_list", {"clause": "bn_free_predictions"}, d))
    # ---- d2: model_quantize(enable_bn_folding=True)
    qc, plan = G.quantizer_config(case, folds)
    unq = any(v == "unquantized_fold" for v in plan.values())
    try:
      qm = model_quantize(m, qc, 4, enable_bn_folding=True)
    except Exception as e:  # pylint: disable=broad-except
      fails.append(_lib_exc(e, "model_quantize",
                            {"foldable_layer_without_quantizer": unq}))
      return fails
    st["quantize_fold_checked"] = True
    override = {}
    eps_dropped = False
    for nd in convs:
      name, cls = nd["name"], nd["op"]
      pl = plan[name]
      cin = shp[nd["inputs"][0]][2]
      kernel, bias = G.layer_tensors(nd, cin)
      try:
        ql = qm.get_layer(name)
      except ValueError:
        fails.append(("quantize_fold", {"clause": "layer_missing"}, name))
        return fails
      cname = ql.__class__.__name__
      if pl is None or pl == "unquantized_fold":
        want = {"conv": "Conv2D", "dw": "DepthwiseConv2D"}[cls]
      elif pl[0]:
        want = FCLS[cls]
      else:
        want = PLAIN[cls]
      if cname != want:
        fails.append(("quantize_fold", {"clause": "class", "cls": cls,
                                        "want": want},
                      "%s is %s, expected %s" % (name, cname, want)))
        return fails
      if pl is None or pl == "unquantized_fold":
        ql.set_weights([kernel] + ([bias] if bias is not None else []))
        continue
      if not pl[0]:
        ql.set_weights([kernel] + ([bias] if bias is not None else []))
        qb = _quantize(pl[2], bias) if bias is not None else None
        override[name] = ("conv_weights", _quantize(pl[1], kernel), qb)
        continue
      # folded layer: transfer conv + BN parameters
      bnd = byname[folds[name]]
      cout = G.cout_of(cls, cin, nd["geom"]["out"])
      gamma, beta, mean, var = G.bn_tensors(bnd)
      if ql.folding_mode != pl[3]:
        fails.append(("quantize_fold", {"clause": "folding_mode", "cls": cls},
                      "%s has %s, config says %s" % (name, ql.folding_mode,
                                                      pl[3])))
      if bias is not None and not ql.use_bias:
        fails.append(("quantize_fold", {"clause": "bias_dropped", "cls": cls},
                      "%s: folded layer has use_bias=False but the conv had "
                      "a bias" % name))
        return fails
      G.set_folded_weights(
          ql, cls, kernel,
          None if not ql.use_bias else
          (bias if bias is not None else np.zeros((cout,), np.float32)),
          gamma if gamma is not None else np.ones((cout,), np.float32),
          beta if beta is not None else np.zeros((cout,), np.float32),
          mean, var)
      try:
        lib_k, lib_b = [np.asarray(t) for t in ql.get_folded_weights()]
      except Exception as e:  # pylint: disable=broad-except
        fails.append(_lib_exc(e, "get_folded_weights", {}))
        return fails
      okk, okb, d, _, kf, bf = check_folded_weights(
          cls, lib_k, lib_b, kernel, bias, gamma, beta, mean, var, bnd["eps"])
      if not (okk and okb):
        if float(np.float32(bnd["eps"])) != float(np.float32(1e-3)):
          o2 = check_folded_weights(cls, lib_k, lib_b, kernel, bias, gamma,
                                    beta, mean, var, 1e-3)
          if o2[0] and o2[1]:
            eps_dropped = True
            fails.append(("quantize_fold",
                          {"clause": "bn_epsilon_dropped", "cls": cls},
                          "%s: BN epsilon %g replaced by the folded layer's "
                          "default 0.001; %s" % (name, bnd["eps"], d)))
            continue
        fails.append(("quantize_fold",
                      {"clause": "folded_weights", "cls": cls,
                       "which": "kernel" if not okk else "bias"}, d))
        lib_k, lib_b = kf.astype(np.float32), bf.astype(np.float32)
      override[name] = ("conv_weights", _quantize(pl[1], lib_k),
                        _quantize(pl[2], lib_b))
      override[folds[name]] = ("skip",)
    for nd in case["nodes"]:
      if nd["op"] == "bn" and nd["name"] not in folds.values():
        gamma, beta, mean, var = G.bn_tensors(nd)
        qm.get_layer(nd["name"]).set_weights(
            [v for v in (gamma, beta) if v is not None] + [mean, var])
    if eps_dropped:
      return fails
    ref2 = G.build_model(case, override)
    try:
      yq = _predict(qm, x)
    except Exception as e:  # pylint: disable=broad-except
      fails.append(_lib_exc(e, "quantized_call", {}))
      return fails
    bad, d, ratio = _cmp_models(yq, _predict(ref2, x))
    st["model_ratio"] = ratio
    if bad:
      oc = _merge_order_changed(qm, case, folds)
      if any(o.startswith("concat") for o in oc):
        fails.append(("quantize_fold", {"clause": "merge_input_order",
                                        "merge": "concat"},
                      "%s; %s" % ("; ".join(oc), d)))
      else:
        fails.append(("quantize_fold",
                      {"clause": "predictions",
                       "style": case["q"]["style"]}, d))
    return fails
  finally:
    import tensorflow as tf  # pylint: disable=g-import-not-at-top
    tf.keras.backend.clear_session()
    core.reset_globals()


def model_labels(case, st, src):
  labs = [src]
  ops = [nd["op"] for nd in case["nodes"]]
  merged = any(o in ("add", "concat") for o in ops)
  labs.append("tmpl:branched" if merged or len(case["outputs"]) > 1
              else "tmpl:chain")
  for nd in case["nodes"]:
    if nd["op"] in ("fconv", "fdw"):
      labs.append("cls:" + nd["op"][1:])
      labs.append("mode:" + nd["mode"])
      labs.append("center:%s" % nd["center"])
  for k in ("unfold_checked", "fold_list_checked", "quantize_fold_checked"):
    if st.get(k):
      labs.append(k)
  if case["kind"] == "unfold":
    for nd in case["nodes"]:
      if nd.get("trainable") is False:
        labs.append("stock_frozen")
      if nd["op"] == "bn" and not nd["center"] and not nd["scale"]:
        labs.append("stock_bn_stats_only")
  if case["kind"] == "quantize":
    labs.append("qstyle:" + case["q"]["style"])
    labs.append("folds:%d" % min(st.get("n_folds", 0), 3))
    if st.get("not_folded_conv"):
      labs.append("not_folded_conv_present")
    if any(nd["op"] == "bn" and nd["eps"] != 1e-3 for nd in case["nodes"]):
      labs.append("bn_eps_nondefault")
  if "model_ratio" in st:
    labs.append("model_err/tol%s" % ("==0" if st["model_ratio"] == 0 else
                                     ("<=1" if st["model_ratio"] <= 1 else ">1")))
  labs = sorted(set(labs), key=labs.index)
  if case["kind"] == "unfold":
    nid = any(nonidentity(nd) for nd in _folded_nodes(case))
  else:
    nid = st.get("n_folds", 0) > 0 and any(
        nonidentity(nd) for nd in case["nodes"] if nd["op"] == "bn")
  nontriv = bool("model_ratio" in st and nid and st.get("ref_nonzero"))
  return labs, nontriv


# --------------------------------------------------------------------------
# histories on one folded model instance


def _fold32(cls, p, eps):
  """Folded tensors in float32 with TensorFlow ops in the documented order
  (rsqrt(var+eps) * gamma, then * kernel / * (bias-mean) + beta): quantizer
  input that does not go through get_folded_weights()."""
  import tensorflow as tf  # pylint: disable=g-import-not-at-top
  inv = tf.math.rsqrt(tf.constant(p["var"]) + eps)
  if p["gamma"] is not None:
    inv = inv * tf.constant(p["gamma"])
  b = tf.constant(p["bias"]) if p["bias"] is not None else 0
  bf = inv * (b - tf.constant(p["mean"]))
  if p["beta"] is not None:
    bf = bf + tf.constant(p["beta"])
  k = tf.constant(p["kernel"])
  if cls == "dw":
    inv = tf.reshape(inv, [k.shape[2], k.shape[3]])
  return (inv * k).numpy(), bf.numpy()


def _fw_args(p):
  return (p["kernel"], p["bias"], p["gamma"], p["beta"], p["mean"], p["var"])


def oracle_history(case, st):
  import contextlib  # pylint: disable=g-import-not-at-top
  import io  # pylint: disable=g-import-not-at-top
  from qkeras import bn_folding_utils  # pylint: disable=g-import-not-at-top
  from qkeras.utils import model_save_quantized_weights  # pylint: disable=g-import-not-at-top
  fails = []
  node = case["nodes"][0]
  cls = node["op"][1:]
  g = node["geom"]
  eps = node["eps"]
  cin = case["input"][2]
  opts = {"center": node["center"]}
  strides, dil = (g["sh"], g["sw"]), (g["dh"], g["dw"])
  relu = ((lambda r: np.maximum(r, 0.0)) if node["act"] == "relu"
          else (lambda r: r))
  kernel, bias = G.layer_tensors(node, cin)
  gamma, beta, mean, var = G.bn_tensors(node)
  cur = {"kernel": kernel, "bias": bias, "gamma": gamma, "beta": beta,
         "mean": mean, "var": var}
  earlier = []
  state = {"after": "none", "n": 0, "bq": node["bq"], "populated": False}

  def add(clause, detail, stale=None):
    sig = {"clause": clause, "cls": cls, "after": state["after"]}
    if stale is not None:
      sig["stale"] = stale
    fails.append(("history", sig, "step %d: %s" % (state["n"], detail)))

  def weights_vs_current(lk, lb, clause):
    okk, okb, d, _, _, _ = check_folded_weights(cls, lk, lb, *_fw_args(cur),
                                                eps=eps)
    if okk and okb:
      return True
    stale = False
    for old in earlier:
      o = check_folded_weights(cls, lk, lb, *_fw_args(old), eps=eps)
      if o[0] and o[1]:
        stale = True
        break
    add(clause, ("equal to the folded weights of EARLIER parameters; "
                 if stale else "") + d, stale)
    return False

  try:
    try:
      m = G.build_model(case)
      layer = m.get_layer(node["name"])
    except Exception as e:  # pylint: disable=broad-except
      return [_lib_exc(e, "call", opts)]
    x = G.input_tensor(case)

    def obs_call():
      try:
        y = _predict(m, x)[0]
      except Exception as e:  # pylint: disable=broad-except
        fails.append(_lib_exc(e, "call", opts))
        return
      if node["kq"] is None and state["bq"] is None:
        ref, mag = R.conv_bn(cls, x, cur["kernel"], cur["bias"], cur["gamma"],
                             cur["beta"], cur["mean"], cur["var"], eps,
                             strides, g["pad"], dil)
        res = [_cmp(y, relu(ref), mag)]
      else:
        kf, bf, _ = R.fold(cls, *_fw_args(cur), eps=eps)
        res = []
        for sk, sb in (_fold32(cls, cur, eps),
                       (kf.astype(np.float32), bf.astype(np.float32))):
          ref, mag = R.conv_bias(cls, x, _quantize(node["kq"], sk),
                                 _quantize(state["bq"], sb), strides,
                                 g["pad"], dil)
          res.append(_cmp(y, relu(ref), mag))
          if not res[-1][0]:
            break
      if all(r[0] for r in res):
        add("output_after_populate" if state["populated"] else "output",
            res[0][2])

    def obs_gfw():
      try:
        lk, lb = [np.asarray(t) for t in layer.get_folded_weights()]
      except Exception as e:  # pylint: disable=broad-except
        fails.append(_lib_exc(e, "get_folded_weights", opts))
        return
      weights_vs_current(lk, lb, "folded_weights")

    def obs_unfold():
      try:
        u = bn_folding_utils.unfold_model(m)
        w = u.get_layer(node["name"]).get_weights()
        yu = _predict(u, x)
        ym = _predict(m, x)
      except Exception as e:  # pylint: disable=broad-except
        fails.append(_lib_exc(e, "unfold_model", opts))
        return
      st["unfolds"] = st.get("unfolds", 0) + 1
      if len(w) != 2:
        add("unfold_weights", "%d weights" % len(w))
      else:
        weights_vs_current(w[0], w[1], "unfold_weights")
      bad, d, _ = _cmp_models(yu, ym)
      if bad:
        add("unfold_predictions", d)

    for stp in case["steps"]:
      state["n"] += 1
      op = stp["op"]
      if op == "call":
        obs_call()
      elif op == "gfw":
        obs_gfw()
      elif op == "unfold":
        obs_unfold()
      elif op == "save_qweights":
        try:
          with contextlib.redirect_stdout(io.StringIO()):
            model_save_quantized_weights(m)
        except Exception as e:  # pylint: disable=broad-except
          fails.append(_lib_exc(e, "model_save_quantized_weights", opts))
      elif op == "populate":
        if node["kq"] is None:
          continue      # float kernel: no fixed-point accumulator to derive
        from qkeras.quantizers import quantized_bits  # pylint: disable=g-import-not-at-top
        before = layer.get_quantizers()[1]
        try:
          with contextlib.redirect_stdout(io.StringIO()):
            bn_folding_utils.populate_bias_quantizer_from_accumulator(
                m, [quantized_bits(8, 0, 1)])
          rep = layer.get_quantizers()[1]
        except Exception as e:  # pylint: disable=broad-except
          fails.append(_lib_exc(e, "populate_bias_quantizer", opts))
          continue
        st["populates"] = st.get("populates", 0) + 1
        if before is not None:
          if str(rep) != str(before):
            add("populate_changed_given_quantizer",
                "%s -> %s" % (before, rep))
        elif rep is None:
          add("populate_no_quantizer", "get_quantizers()[1] is None")
        else:
          # reference = a copy of the quantizer the layer REPORTS
          state["bq"] = rep.__class__.from_config(rep.get_config())
          state["populated"] = True
      elif op == "set_weights":
        nk, nb = G.layer_tensors(dict(node, wseed=stp["wseed"],
                                      kscale=stp["kscale"]), cin)
        ng, nbt, nm, nv = G.bn_tensors(dict(node, bn=stp["bn"]))
        new = {"kernel": nk, "bias": nb, "gamma": ng, "beta": nbt,
               "mean": nm, "var": nv}
        lst = []
        for wv in layer.weights:
          leaf = wv.name.split("/")[-1].split(":")[0]
          key = {"kernel": "kernel", "depthwise_kernel": "kernel",
                 "bias": "bias", "gamma": "gamma", "beta": "beta",
                 "moving_mean": "mean", "moving_variance": "var"}.get(leaf)
          if key is None:
            if leaf != "iteration":
              raise core.HarnessError("unexpected weight %s" % wv.name)
            lst.append(wv.numpy())          # step counter unchanged
          else:
            lst.append(new[key])
        layer.set_weights(lst)
        earlier.append(dict(cur))
        cur.update(new)
        state["after"] = "set_weights"
        st["mutations"] = st.get("mutations", 0) + 1
      elif op == "assign":
        what = stp["what"]
        if cur[what] is None:        # no such variable (use_bias/center/scale)
          continue
        if "vals" in stp:
          val = np.asarray(stp["vals"], dtype=np.float32)
        else:
          rs = np.random.RandomState(stp["seed"])
          val = (rs.standard_normal(cur[what].shape) *
                 (node["kscale"] if what == "kernel" else 1.0)
                 ).astype(np.float32)
        var_ = {"kernel": (layer.kernel if cls == "conv" else
                           layer.depthwise_kernel),
                "bias": layer.bias, "gamma": layer.batchnorm.gamma,
                "beta": layer.batchnorm.beta,
                "mean": layer.batchnorm.moving_mean,
                "var": layer.batchnorm.moving_variance}[what]
        var_.assign(val)
        earlier.append(dict(cur))
        cur[what] = val
        state["after"] = "assign:" + what
        st["mutations"] = st.get("mutations", 0) + 1
      else:
        raise core.HarnessError("unknown step %r" % op)
    # final observations for the current parameters
    state["n"] += 1
    obs_call()
    obs_gfw()
    obs_unfold()
    st["history_checked"] = True
    # one entry per bucket
    seen, out = set(), []
    for f in fails:
      k = core.fkey(f[0], f[1])
      if k not in seen:
        seen.add(k)
        out.append(f)
    return out
  finally:
    import tensorflow as tf  # pylint: disable=g-import-not-at-top
    tf.keras.backend.clear_session()
    core.reset_globals()


def history_labels(case, st, src):
  node = case["nodes"][0]
  labs = [src, "cls:" + node["op"][1:], "mode:" + node["mode"],
          "center:%s" % node["center"], "kq:" + _fam(G.KQ_INV, node["kq"])]
  for stp in case["steps"]:
    labs.append("hist:" + stp["op"])
  labs.append("hist_len:%d" % min(len(case["steps"]), 10))
  if st.get("history_checked"):
    labs.append("history_checked")
  if st.get("populates"):
    labs.append("populated")
  labs = sorted(set(labs), key=labs.index)
  return labs, bool(st.get("history_checked") and st.get("mutations"))


# --------------------------------------------------------------------------


ORACLES = {"layer": (oracle_layer, layer_labels),
           "unfold": (oracle_unfold, model_labels),
           "quantize": (oracle_quantize, model_labels),
           "history": (oracle_history, history_labels)}


def evaluate(ctx, case, src):
  orc, lab = ORACLES[case["kind"]]
  st = {}
  fails = orc(case, st)
  labs, nontriv = lab(case, st, src)
  ctx.tick(case, labels=labs, nontrivial=nontriv)
  return fails


def run(ctx):
  lat = (G.fixed_history_cases() + G.lattice_cases(ctx.tier) +
         G.fixed_model_cases())
  ctx.info["lattice_size"] = len(lat) if ctx.idx == 0 else 0
  for case in ctx.shard(lat):
    for sc, sig, d in evaluate(ctx, case, "lattice"):
      ctx.fail(sc, sig, case, d)

  # Hypothesis part: one mixed strategy (layer / unfold / quantize cases), run
  # in batches so that the time budget can end it between batches.
  def orc(case):
    if ctx.time_left() <= 0:
      ctx.labels["skipped_time"] += 1
      return []
    return evaluate(ctx, case, "hyp_" + case["kind"])

  strat = G.mixed_case_strategy(ctx.tier)
  todo = (6400 if ctx.quick else 60000) // ctx.n + 1
  batch = 40
  i = 0
  while todo > 0 and ctx.time_left() > 0:
    core.hyp_run(ctx, strat, orc, min(batch, todo), name="c15_%d" % i)
    todo -= batch
    i += 1
  ctx.info["hyp_examples_not_run"] = max(todo, 0)


def replay(ctx, case):
  for sc, sig, d in evaluate(ctx, case, "replay"):
    ctx.fail(sc, sig, case, d)
