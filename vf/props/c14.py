"""C14 - model_save_quantized_weights: after the export every quantized layer
holds its quantizer applied once to its previous weights, the returned
dictionary describes those weights (po2: sign*2^exponent, auto_po2: scale x
integer, fused batch-norm terms), and with data-independent scales the export
preserves predictions and is idempotent.  Short generated histories:
export / predict / export again / freeze / export.
"""
import contextlib
import io

import numpy as np

from vf import core
from vf.gen import qmodels as G

RULE = ("case = (generated quantized-model description with weight-bearing "
        "layers, fixed-point / constant-alpha / auto / auto_po2 / po2 / relu_po2 "
        "/ binary / ternary weight quantizers, QBatchNormalization in fusable "
        "and non-fusable placements, random weights, optionally whole tensors "
        "in a degenerate / untrained state: initializer value, zeros, ones, a "
        "constant, one non-zero element - per tensor, per layer, all batch-norm "
        "statistics, or the whole freshly built model) x (generated step list over "
        "export, predict, freeze, freeze_q). Non-trivial = at least one export "
        "step ran on a model with at least one non-None weight quantizer; "
        "distinct by hash of (description, steps).")
ASSUMPTIONS = [
    "checks run under TF_USE_LEGACY_KERAS=1 (tf_keras), float32, eager, "
    "learning phase 0, one TF thread",
    "(a) stored weights are compared bit-exactly with the layer's own quantizer "
    "(attribute <slot>_internal named after the constructor argument, NOT the "
    "zip order of the exporter) applied once to the pre-export weights",
    "(b) po2 / auto_po2 relations are evaluated in float64 on float32 values; "
    "all factors are powers of two, so the comparisons are exact (no tolerance)",
    "(c) bn_inv / fused_bias are recomputed in float64 from the quantized BN "
    "parameters; tolerance 1e-6 * (sum of |terms|) + 1e-7 for the float32 "
    "evaluation order (measured max 2.4e-7 relative on the unchanged tree); "
    "with an inverse_quantizer the element is skipped when the quantizer's "
    "output changes under a +-2e-6 relative perturbation of its input "
    "(rounding-breakpoint straddle)",
    "(d) 'data-independent' = no weight quantizer of the model has a string "
    "alpha without post_training_scale (read from the public attributes of the "
    "live quantizer objects); predictions and the second export are compared "
    "bit-exactly",
    "after a freeze every frozen quantizer is exercised in its layer: quantizing "
    "3*w+0.37 must leave q.scale == post_training_scale and give outputs on that "
    "scale's grid (exact)",
    "freeze steps run only on models clone_model_and_freeze_auto_po2_scale "
    "documents as supported: a chain whose auto_po2 quantizers sit on "
    "QConv2D / QDepthwiseConv2D / QDense kernels or a QBatchNormalization "
    "inverse quantizer, at most one per layer",
    "folded layers (QConv2DBatchnorm / QDepthwiseConv2DBatchnorm) are "
    "documented as not re-written by the export: checked as 'weights "
    "unchanged, dictionary = quantizer(get_folded_weights())'",
    "degenerate weight states stay inside the domain of trained / untrained "
    "models: a moving variance is never filled with a negative value; an "
    "all-zero beta / moving mean under a quantizer that maps 0 to a non-zero "
    "code (power of two, binary) is checked like any other value: the fused "
    "terms use the quantized parameter the batch-norm layer holds afterwards "
    "(labels bn_fused_zero_param*)",
    "quantized_relu_po2(negative_slope != 0) is not generated as a weight "
    "quantizer (the dictionary has no sign entry for it by design)",
    "pooling layers: the entry must carry pool_area, mult_factor = 1/pool_area "
    "and q_mult_factor = average_quantizer(1/pool_area) (1/pool_area without a "
    "quantizer), compared exactly",
]
BUDGET_S = {"quick": 55, "thorough": 780}
REQUIRED_LABELS = {
    "quick": ["export", "export2", "predict", "freeze", "di_model", "dd_model",
              "rel:po2", "rel:relu_po2", "rel:auto_po2", "rel:auto_po2_scale_ne_1",
              "rel:plain", "bn_fused", "bn_not_fused", "pred_preserved_checked",
              "idempotence_checked", "L:QDense", "L:QConv2D", "L:QDepthwiseConv2D",
              "L:QBatchNormalization", "L:QSeparableConv2D", "L:QConv1D",
              "L:QSimpleRNN", "L:QLSTM", "L:QGRU", "L:QScaleShift",
              "L:QSeparableConv1D", "folded_layer", "bn_inverse_quantizer",
              "frozen_export", "canonical", "pool_entry_no_quantizer",
              "binary_use_01", "frozen_behaviour_checked", "wfill",
              "bn_fused_zero_param_q_nonzero"],
    "thorough": ["export", "export2", "predict", "freeze", "di_model", "dd_model",
                 "rel:po2", "rel:relu_po2", "rel:auto_po2",
                 "rel:auto_po2_scale_ne_1", "rel:plain", "bn_fused",
                 "bn_not_fused", "pred_preserved_checked", "idempotence_checked",
                 "bn_inverse_quantizer", "frozen_export", "L:QSimpleRNN",
                 "L:QLSTM", "L:QGRU", "L:QScaleShift", "L:QSeparableConv1D",
                 "L:QBidirectional", "folded_layer", "canonical", "hyp", "wfill",
                 "wfill:tensors", "wfill:model", "bn_fused_zero_param_q_nonzero"],
}

_count = {"n": 0}
FREEZE_CLASSES = ("QConv2D", "QDepthwiseConv2D", "QDense", "QBatchNormalization",
                  "QActivation", "Flatten", "ReLU", "Activation", "Dropout")
FREEZE_KERNEL_SLOT = {"QConv2D": "kernel_quantizer",
                      "QDepthwiseConv2D": "depthwise_quantizer",
                      "QDense": "kernel_quantizer"}


# --------------------------------------------------------------------------
# library calls (stdout of the exporter is swallowed)


def lib_export(model):
  from qkeras import utils as U  # pylint: disable=g-import-not-at-top
  with contextlib.redirect_stdout(io.StringIO()):
    return U.model_save_quantized_weights(model)


def lib_freeze(model, quantize):
  from qkeras import utils as U  # pylint: disable=g-import-not-at-top
  with contextlib.redirect_stdout(io.StringIO()):
    return U.clone_model_and_freeze_auto_po2_scale(
        model, quantize_model_weights=quantize)


# --------------------------------------------------------------------------
# independent description of "the quantizer of a weight"


def _np(v):
  return v.numpy() if hasattr(v, "numpy") else np.asarray(v)


def weight_roles(layer):
  """[(weight index, role name, quantizer object or None)] for a quantized
  layer, from variable names and the constructor-argument attributes."""
  cls = layer.__class__.__name__
  out = []
  if cls == "QBidirectional":
    k = 0
    for sub in (layer.forward_layer, layer.backward_layer):
      for (i, role, q) in weight_roles(sub):
        out.append((k + i, role, q))
      k += len(sub.get_weights())
    return out
  slots = G.WEIGHT_SLOTS.get(cls)
  if slots is None:
    return None
  names = [v.name.split("/")[-1].split(":")[0] for v in layer.weights]
  if len(names) != len(layer.get_weights()):
    return None
  for i, n in enumerate(names):
    slot = None
    for wname, s in slots:
      if n == wname:
        slot = s
    if slot is None:
      return None
    holder = layer.cell if hasattr(layer, "cell") else layer
    out.append((i, slot, getattr(holder, slot + "_internal")))
  return out


def qname(q):
  return None if q is None else q.__class__.__name__


def lsig(layer):
  """Signature part naming a layer: class (+ which BN parameters exist)."""
  cls = layer.__class__.__name__
  out = {"layer": cls}
  if cls == "QBatchNormalization":
    out["layer_variant"] = {(True, True): "full", (False, True): "no_gamma",
                            (True, False): "no_beta",
                            (False, False): "no_gamma_beta"}[
                                (bool(layer.scale), bool(layer.center))]
  return out


def culprit_fields(q):
  """Signature fields describing why a quantizer may fail to be idempotent."""
  a = getattr(q, "alpha", None)
  if isinstance(a, (int, float)) and not isinstance(a, bool):
    ca = "1" if a == 1 else "const!=1"
  else:
    ca = str(a)
  out = {"quantizer": qname(q), "culprit_alpha": ca}
  if qname(q) in ("quantized_po2", "quantized_relu_po2"):
    # the quadratic mode maps |x| < epsilon to an exponent outside its lattice
    out["quadratic_approximation"] = bool(getattr(q, "quadratic_approximation", False))
    out["log2_rounding"] = getattr(q, "log2_rounding", None)
  if qname(q) == "binary":
    # {0,1} codes: the stored code 0 is re-quantized as "non-negative" -> 1
    out["use_01"] = bool(getattr(q, "use_01", False))
  return out


def non_fixed_point(model):
  """First (layer, slot) whose stored weight is not a fixed point of its own
  quantizer - the reason a re-quantization changes values."""
  for layer in model.layers:
    if not hasattr(layer, "get_quantizers"):
      continue
    roles = weight_roles(layer) or []
    now = layer.get_weights()
    for i, slot, q in roles:
      if q is None:
        continue
      try:
        same = _eq(apply_q(q, now[i]), now[i])
      except Exception:  # pylint: disable=broad-except
        same = True
      if not same:
        return dict(lsig(layer), slot=slot, **culprit_fields(q))
  return {"layer": None}


def apply_q(q, w):
  import tensorflow as tf  # pylint: disable=g-import-not-at-top
  if q is None:
    return np.asarray(w)
  return _np(q(tf.constant(w)))


def is_dd(q):
  """Data-dependent scale (public attributes of the live object)."""
  if q is None:
    return False
  a = getattr(q, "alpha", None)
  if isinstance(a, str):
    return getattr(q, "post_training_scale", None) is None
  return False


def model_weight_quantizers(model):
  out = []
  for layer in model.layers:
    if not hasattr(layer, "get_quantizers"):
      continue
    roles = weight_roles(layer)
    if roles is None:
      if layer.__class__.__name__ in ("QConv2DBatchnorm",
                                      "QDepthwiseConv2DBatchnorm"):
        for q in layer.get_quantizers()[:2]:
          out.append((layer, "folded", q))
      continue
    for i, slot, q in roles:
      out.append((layer, slot, q))
  return out


def is_di_model(model):
  return not any(is_dd(q) for _, _, q in model_weight_quantizers(model))


def fusable_pairs(model):
  """{conv layer name: bn layer name}: QConv2D / QDepthwiseConv2D whose single
  consumer is a QBatchNormalization (independent graph walk on Keras nodes)."""
  cons = {}
  for layer in model.layers:
    for node in layer._inbound_nodes:   # pylint: disable=protected-access
      ins = node.inbound_layers
      if not isinstance(ins, (list, tuple)):
        ins = [ins]
      for src in ins:
        cons.setdefault(src.name, []).append(layer)
  out = {}
  for layer in model.layers:
    if layer.__class__.__name__ in ("QConv2D", "QDepthwiseConv2D"):
      c = cons.get(layer.name, [])
      if len(c) == 1 and c[0].__class__.__name__ == "QBatchNormalization":
        out[layer.name] = c[0].name
  return out, cons


def freeze_eligible(model):
  """The documented support envelope of clone_model_and_freeze_auto_po2_scale."""
  layers = model.layers
  if layers[0].__class__.__name__ != "InputLayer":
    return False
  for prev, layer in zip(layers[:-1], layers[1:]):
    nodes = layer._inbound_nodes   # pylint: disable=protected-access
    if len(nodes) != 1:
      return False
    ins = nodes[0].inbound_layers
    if isinstance(ins, (list, tuple)) or ins is not prev:
      return False
  if model.outputs[0] is not layers[-1].output:
    return False
  for layer in layers[1:]:
    cls = layer.__class__.__name__
    if cls not in FREEZE_CLASSES:
      return False
    # an already frozen model is not frozen again (the utility reads
    # q.scale.numpy(), which a post-training scale - an ndarray - lacks)
    if any(getattr(q, "post_training_scale", None) is not None
           for q in (getattr(layer, "quantizers", []) or [])):
      return False
    qs = list(getattr(layer, "quantizers", []) or [])
    autos = [q for q in qs if getattr(q, "alpha", None) == "auto_po2"]
    if not autos:
      continue
    if len(autos) > 1:
      return False
    if cls in FREEZE_KERNEL_SLOT:
      if getattr(layer, FREEZE_KERNEL_SLOT[cls] + "_internal") is not autos[0]:
        return False
    elif cls == "QBatchNormalization":
      if layer.inverse_quantizer_internal is not autos[0]:
        return False
    else:
      return False
    if qname(autos[0]) != "quantized_bits":
      return False
  return True


# --------------------------------------------------------------------------
# relations


def _f64(a):
  return np.asarray(_np(a), dtype=np.float64)


def _eq(a, b):
  a, b = _f64(a), _f64(b)
  try:
    a, b = np.broadcast_arrays(a, b)
  except ValueError:
    return False
  return bool(np.array_equal(a, b, equal_nan=True))


def check_entry(layer, roles, entry, stored, scales_exp, labels):
  """Relations (b) between the dictionary entry and the stored weights."""
  fails = []
  cls = layer.__class__.__name__
  hw = entry.get("weights")
  if hw is None or len(hw) != len(roles):
    return [("dict_shape", {"layer": cls, "key": "weights"},
             "entry has %r weights, layer has %d quantizer-weight pairs" % (
                 None if hw is None else len(hw), len(roles)))]
  signs = entry.get("signs")
  scales = entry.get("scales")
  seen_auto = False
  for k, (i, slot, q) in enumerate(roles):
    name = qname(q)
    sig = dict(lsig(layer), slot=slot, quantizer=name,
               alpha=getattr(q, "alpha", None) if isinstance(
                   getattr(q, "alpha", None), str) else None)
    after_auto = seen_auto
    if name == "quantized_bits" and getattr(q, "alpha", None) == "auto_po2":
      seen_auto = True
    st = _f64(stored[i])
    h = _f64(hw[k])
    if name in ("quantized_po2", "quantized_relu_po2"):
      labels.add("rel:po2" if name == "quantized_po2" else "rel:relu_po2")
      if name == "quantized_po2":
        # signs is a list parallel to weights: signs[k] belongs to weights[k]
        if signs is None or k >= len(signs) or np.size(
            _np(signs[k])) != st.size:
          fails.append(("po2_relation", dict(sig, relation="signs_aligned",
                                             after_auto_po2=after_auto),
                        "signs entry %s for weight %d of %d" % (
                            "missing" if signs is None else "has %d items" % len(signs),
                            k, len(roles))))
          continue
        sg = _f64(signs[k])
        if not np.all(np.isin(sg, [-1.0, 1.0])):
          fails.append(("po2_relation", dict(sig, relation="sign_values"),
                        "signs not in {-1,+1}: %r" % np.unique(sg)[:5]))
          continue
      else:
        sg = np.ones_like(st)
      with np.errstate(all="ignore"):
        rebuilt = sg * np.power(2.0, h)
      if not _eq(rebuilt, st):
        bad = np.argwhere(rebuilt != st)[:1]
        fails.append(("po2_relation", dict(sig, relation="sign*2^w==stored"),
                      "first mismatch at %r: sign*2^w=%r stored=%r" % (
                          bad.tolist(), rebuilt[tuple(bad[0])] if len(bad) else None,
                          st[tuple(bad[0])] if len(bad) else None)))
    elif name == "quantized_bits" and getattr(q, "alpha", None) == "auto_po2":
      labels.add("rel:auto_po2")
      ub = q.bits - int(bool(q.keep_negative))
      m = 2.0 ** ub
      m_i = 2.0 ** float(q.integer)
      if scales is None or len(scales) != len(roles) or np.size(
          _np(scales[k])) == 0:
        fails.append(("auto_po2_relation", dict(sig, relation="scales_present"),
                      "no scales entry for weight %d" % k))
        continue
      sc = _f64(scales[k])
      # R1: hw * m_i/m == stored
      if not _eq(h * (m_i / m), st):
        fails.append(("auto_po2_relation", dict(sig, relation="R1"),
                      "hw*m_i/m != stored (m=%r m_i=%r)" % (m, m_i)))
      # R2: scales == quantizer scale * m_i/m, power of two
      exp_scale = scales_exp.get(i)
      if exp_scale is not None and not _eq(sc, _f64(exp_scale) * (m_i / m)):
        fails.append(("auto_po2_relation", dict(sig, relation="R2"),
                      "scales=%r expected q.scale*m_i/m=%r" % (
                          sc.reshape(-1)[:6], (_f64(exp_scale) * (m_i / m)).reshape(-1)[:6])))
      with np.errstate(all="ignore"):
        l2 = np.log2(sc)
      if not np.all(np.isfinite(l2)) or not np.all(l2 == np.round(l2)):
        fails.append(("auto_po2_relation", dict(sig, relation="R2_po2"),
                      "scales not powers of two: %r" % sc.reshape(-1)[:6]))
        continue
      qs_one = bool(exp_scale is not None and np.all(_f64(exp_scale) == 1.0))
      if not qs_one:
        labels.add("rel:auto_po2_scale_ne_1")
      # R3 (the property's): scales * hw == stored, hw integers in range
      lim = 2.0 ** (q.bits - 1) - 1
      try:
        prod = np.broadcast_arrays(sc * h, st)[0]
        r3 = _eq(prod, st) and bool(np.all(h == np.round(h))) and bool(
            np.all(np.abs(h) <= lim))
      except ValueError:
        r3 = False
      if not r3:
        fails.append(("auto_po2_relation",
                      dict(sig, relation="R3", scale_is_one=qs_one),
                      "scales*hw==stored with integer hw in [-%d,%d] fails: "
                      "hw=%r scales=%r stored=%r" % (
                          lim, lim, h.reshape(-1)[:4], sc.reshape(-1)[:4],
                          st.reshape(-1)[:4])))
      # R3': stored lies on the exported scale grid inside the declared range
      with np.errstate(all="ignore"):
        z = st / np.broadcast_arrays(sc, st)[0]
      if not (np.all(z == np.round(z)) and np.all(np.abs(z) <= lim)):
        fails.append(("auto_po2_relation", dict(sig, relation="R3_grid"),
                      "stored/scales not integers within +-%d: %r" % (
                          lim, z.reshape(-1)[:6])))
    else:
      labels.add("rel:plain")
      if not _eq(h, st):
        fails.append(("plain_relation", dict(sig, relation="hw==stored"),
                      "dictionary weight differs from the stored weight"))
  return fails


def check_bn_fusing(model, conv, bn, entry, bn_prev, labels):
  """(c): bn_inv and fused_bias from the batch-norm algebra, float64."""
  import tensorflow as tf  # pylint: disable=g-import-not-at-top
  fails = []
  cls = conv.__class__.__name__
  sig = {"layer": cls, "relation": None,
         "bn_variant": lsig(bn).get("layer_variant")}
  if not entry.get("enable_bn_fusing") or "bn_inv" not in entry or (
      "fused_bias" not in entry):
    return [("bn_fusing", dict(sig, relation="fusing_terms_present"),
             "fusable pair %s -> %s has keys %r" % (conv.name, bn.name,
                                                    sorted(entry)))]
  if entry.get("fused_bn_layer_name") != bn.name:
    fails.append(("bn_fusing", dict(sig, relation="fused_bn_layer_name"),
                  "%r != %r" % (entry.get("fused_bn_layer_name"), bn.name)))
  # quantized BN parameters from the pre-export BN weights, by variable name
  names = [v.name.split("/")[-1].split(":")[0] for v in bn.weights]
  raw = dict(zip(names, bn_prev))
  ch = raw["moving_mean"].shape

  def qv(wname, attr, default):
    if wname not in raw:
      return np.full(ch, default, dtype=np.float64)
    return _f64(apply_q(getattr(bn, attr), raw[wname]))
  gamma = qv("gamma", "gamma_quantizer_internal", 1.0)
  beta = qv("beta", "beta_quantizer_internal", 0.0)
  mean = qv("moving_mean", "mean_quantizer_internal", 0.0)
  var = qv("moving_variance", "variance_quantizer_internal", 1.0)
  # untrained / degenerate batch-norm parameters (whole tensor zero) and
  # quantizers that do not map zero to zero (power of two, binary)
  zero_nz = False
  for wname, qd in (("beta", beta), ("moving_mean", mean)):
    if wname in raw and not np.any(_f64(raw[wname])):
      labels.add("bn_fused_zero_param")
      if np.any(qd):
        zero_nz = True
        labels.add("bn_fused_zero_param_q_nonzero")
  inv = gamma / np.sqrt(var + float(bn.epsilon))
  got_inv = _f64(entry["bn_inv"])
  ok_mask = np.ones(inv.shape, dtype=bool)
  qi = bn.inverse_quantizer_internal
  if qi is not None:
    labels.add("bn_inverse_quantizer")
    base = _f64(qi(tf.constant(inv.astype(np.float32))))
    for eps in (-2e-6, 2e-6):
      alt = _f64(qi(tf.constant((inv * (1 + eps)).astype(np.float32))))
      ok_mask &= (alt == base)
    if not ok_mask.all():
      labels.add("bn_inv_breakpoint_skipped")
    inv_ref = base
    tol = 1e-6 * np.abs(inv_ref) + 1e-9
  else:
    inv_ref = inv
    tol = 1e-6 * np.abs(inv_ref) + 1e-9
  if got_inv.shape != inv_ref.shape:
    return fails + [("bn_fusing", dict(sig, relation="bn_inv_shape"),
                     "%r vs %r" % (got_inv.shape, inv_ref.shape))]
  bad = ok_mask & (np.abs(got_inv - inv_ref) > tol)
  if bad.any():
    j = int(np.argmax(bad))
    fails.append(("bn_fusing", dict(sig, relation="bn_inv",
                                    inverse_quantizer=qname(qi)),
                  "channel %d: bn_inv=%r expected %r" % (j, got_inv[j], inv_ref[j])))
    return fails
  # fused bias uses the exported inv and the (now quantized) stored bias
  if conv.use_bias:
    bias = _f64(conv.get_weights()[-1])
  else:
    bias = np.zeros(ch)
  t1, t2, t3 = got_inv * bias, beta, got_inv * mean
  ref = t1 + t2 - t3
  got = _f64(entry["fused_bias"])
  tolb = 1e-6 * (np.abs(t1) + np.abs(t2) + np.abs(t3)) + 1e-7
  if got.shape != ref.shape:
    return fails + [("bn_fusing", dict(sig, relation="fused_bias_shape"),
                     "%r vs %r" % (got.shape, ref.shape))]
  badb = np.abs(got - ref) > tolb
  if badb.any():
    j = int(np.argmax(badb))
    fails.append(("bn_fusing", dict(sig, relation="fused_bias"),
                  "channel %d: fused_bias=%r expected inv*bias+beta-inv*mean=%r "
                  "(inv=%r bias=%r beta=%r mean=%r)" % (
                      j, got[j], ref[j], got_inv[j], bias[j], beta[j], mean[j])))
  else:
    with np.errstate(all="ignore"):
      rel = np.max(np.abs(got - ref) / (np.abs(t1) + np.abs(t2) + np.abs(t3) + 1e-30))
    labels.add("bn_fused")
    if zero_nz:
      labels.add("bn_fused_zero_param_q_nonzero_ok")
    labels.add("fused_bias_relerr<=%.0e" % max(1e-9, 10 ** np.ceil(np.log10(rel + 1e-300))))
  return fails


def dict_equal(d1, d2):
  """Deep equality of two exporter dictionaries; returns a path or None."""
  if sorted(d1) != sorted(d2):
    return "layer keys"
  for ln in d1:
    e1, e2 = d1[ln], d2[ln]
    if sorted(e1) != sorted(e2):
      return "%s keys" % ln
    for k in e1:
      v1, v2 = e1[k], e2[k]
      if isinstance(v1, list):
        if len(v1) != len(v2):
          return "%s/%s len" % (ln, k)
        for a, b in zip(v1, v2):
          if not _eq(a, b):
            return "%s/%s" % (ln, k)
      elif isinstance(v1, (str, bool)) or v1 is None:
        if v1 != v2:
          return "%s/%s" % (ln, k)
      else:
        if not _eq(v1, v2):
          return "%s/%s" % (ln, k)
  return None


# --------------------------------------------------------------------------
# the history interpreter


def _first_bad_layer_class(model, names):
  for layer in model.layers:
    if layer.name in names:
      return layer.__class__.__name__
  return None


def do_export(model, x, state, labels):
  """One export step with oracles (a)-(d).  Returns fails."""
  fails = []
  di = is_di_model(model)
  prev = {}
  expect = {}
  scales_exp = {}
  qlayers = [l for l in model.layers if hasattr(l, "get_quantizers")]
  for layer in qlayers:
    prev[layer.name] = layer.get_weights()
  bn_prev = {l.name: prev[l.name] for l in qlayers
             if l.__class__.__name__ == "QBatchNormalization"}
  for layer in qlayers:
    roles = weight_roles(layer)
    if roles is None:
      continue
    ex, se = list(prev[layer.name]), {}
    for i, slot, q in roles:
      ex[i] = apply_q(q, prev[layer.name][i])
      if qname(q) == "quantized_bits" and getattr(q, "alpha", None) == "auto_po2":
        s = q.scale
        se[i] = _np(s)
    expect[layer.name] = ex
    scales_exp[layer.name] = se
  y_before = model(x, training=False).numpy() if di else None
  try:
    d = lib_export(model)
  except Exception as e:  # pylint: disable=broad-except
    sig = core.exc_signature(e)
    sig["step"] = "export"
    sig["pool_without_average_quantizer"] = any(
        l.__class__.__name__ in ("QAveragePooling2D", "QGlobalAveragePooling2D")
        and l.average_quantizer_internal is None for l in qlayers)
    return [("export_raises", sig, repr(e)[:500])], None
  pairs, cons = fusable_pairs(model)
  for layer in qlayers:
    cls = layer.__class__.__name__
    labels.add("L:" + cls)
    entry = d.get(layer.name)
    if entry is None:
      fails.append(("dict_shape", {"layer": cls, "key": "layer"},
                    "no dictionary entry for %s" % layer.name))
      continue
    now = layer.get_weights()
    roles = weight_roles(layer)
    if roles is None:
      if cls in ("QConv2DBatchnorm", "QDepthwiseConv2DBatchnorm"):
        labels.add("folded_layer")
        if any(not _eq(a, b) for a, b in zip(prev[layer.name], now)):
          fails.append(("stored_weights", {"layer": cls, "relation": "folded_untouched"},
                        "folded layer weights were rewritten"))
        fw = [_np(w) for w in layer.get_folded_weights()]
        qs = layer.get_quantizers()
        froles = [(k, "folded%d" % k, q) for k, q in enumerate(qs[:len(fw)])]
        fstored = [apply_q(q, fw[k]) for k, _, q in froles]
        fse = {k: _np(q.scale) for k, _, q in froles
               if qname(q) == "quantized_bits" and getattr(q, "alpha", None) == "auto_po2"}
        fails += check_entry(layer, froles, entry, fstored, fse, labels)
      if cls in ("QAveragePooling2D", "QGlobalAveragePooling2D"):
        # documented entry of a pooling layer: the factor the layer applies
        if cls == "QAveragePooling2D":
          ps = layer.pool_size
          area = ps * ps if isinstance(ps, int) else int(np.prod(ps))
        else:
          shp = layer.input_shape
          area = int(shp[1] * shp[2])
        aq = layer.average_quantizer_internal
        labels.add("pool_entry" if aq is not None else "pool_entry_no_quantizer")
        want = 1.0 / area if aq is None else float(np.asarray(_np(aq(1.0 / area))).reshape(-1)[0])
        got = entry.get("q_mult_factor")
        ok = (got is not None and entry.get("pool_area") == area and
              entry.get("mult_factor") == 1.0 / area and
              float(np.asarray(_np(got)).reshape(-1)[0]) == want)
        if not ok:
          fails.append(("pool_entry",
                        {"layer": cls, "average_quantizer": qname(aq)},
                        "pool_area=%r mult_factor=%r q_mult_factor=%r, expected "
                        "%r, %r, %r" % (entry.get("pool_area"), entry.get("mult_factor"),
                                        got, area, 1.0 / area, want)))
      continue
    # (a) quantizer applied exactly once to the previous weights
    for i, slot, q in roles:
      if not _eq(now[i], expect[layer.name][i]):
        a, b = _f64(now[i]), _f64(expect[layer.name][i])
        # which quantizer of the layer would explain the stored value?
        expl = None
        for _, s2, q2 in roles:
          if s2 != slot and q2 is not None:
            try:
              if _eq(apply_q(q2, prev[layer.name][i]), a):
                expl = s2
            except Exception:  # pylint: disable=broad-except
              pass
        if expl is None and _eq(a, _f64(prev[layer.name][i])) and q is not None:
          expl = "unquantized"
        if expl is None and q is not None and _eq(
            a, apply_q(q, expect[layer.name][i])):
          expl = "quantized_twice"
        fails.append(("stored_weights",
                      dict(lsig(layer), slot=slot, quantizer=qname(q),
                           relation="stored==q(prev)", explained_by=expl),
                      "weight %d (%s): %d of %d elements differ, e.g. stored=%r "
                      "expected=%r" % (i, slot, int(np.sum(a != b)) if a.shape == b.shape else -1,
                                      a.size, a.reshape(-1)[:3], b.reshape(-1)[:3])))
    # (b) dictionary relations on the stored weights
    fails += check_entry(layer, roles, entry, now, scales_exp[layer.name], labels)
    # (c) fusing
    if layer.name in pairs:
      bn = model.get_layer(pairs[layer.name])
      fails += check_bn_fusing(model, layer, bn, entry, bn_prev[bn.name], labels)
    elif cls in ("QConv2D", "QDepthwiseConv2D"):
      if entry.get("enable_bn_fusing") or "bn_inv" in entry:
        fails.append(("bn_fusing", {"layer": cls, "relation": "not_fusable_marked"},
                      "layer %s is not followed by a single QBatchNormalization "
                      "but carries fusing terms" % layer.name))
      elif any(c.__class__.__name__ == "QBatchNormalization"
               for c in cons.get(layer.name, [])):
        labels.add("bn_not_fused")
    if cls == "QBatchNormalization":
      want = layer.name in pairs.values()
      if bool(entry.get("enable_bn_fusing")) != want:
        fails.append(("bn_fusing", dict(lsig(layer), relation="bn_marked"),
                      "enable_bn_fusing=%r, fused partner expected=%r" % (
                          entry.get("enable_bn_fusing"), want)))
  # (d) data-independent scales: predictions preserved, second export a no-op
  if di:
    labels.add("di_model")
    y_after = model(x, training=False).numpy()
    labels.add("pred_preserved_checked")
    if not np.array_equal(y_before, y_after, equal_nan=True):
      culprit = non_fixed_point(model)
      if culprit.get("layer") is None:
        # every stored weight is a fixed point of its own quantizer: then the
        # export itself stored something else than q(prev) (or touched a
        # weight it should not): name the first such layer
        for layer in qlayers:
          now = layer.get_weights()
          ex = expect.get(layer.name)
          if ex is not None and any(not _eq(a, b) for a, b in zip(now, ex)):
            culprit = dict(lsig(layer), cause="stored!=q(prev)")
            break
          if ex is None and any(not _eq(a, b) for a, b in zip(now, prev[layer.name])):
            culprit = dict(lsig(layer), cause="weights_rewritten")
            break
      fails.append(("prediction_preserved",
                    dict(culprit, relation="pred_before==after"),
                    "%d of %d outputs changed by the export, max |diff| %r" % (
                        int(np.sum(y_before != y_after)), y_before.size,
                        float(np.nanmax(np.abs(y_before.astype(np.float64) - y_after))))))
    state["last_pred"] = y_after
    if state.get("last_export") is not None:
      labels.add("idempotence_checked")
      labels.add("export2")
      changed = [ln for ln in prev if any(
          not _eq(a, b) for a, b in zip(prev[ln], model.get_layer(ln).get_weights()))]
      nfps = {}
      for bl in [l for l in model.layers if l.name in changed]:
        nfp = {}
        for i, slot, q in (weight_roles(bl) or []):
          if not _eq(prev[bl.name][i], bl.get_weights()[i]):
            nfp = dict(culprit_fields(q), slot=slot)
            break
        nfps[bl.name] = nfp
      if changed:
        bad_layer = [l for l in model.layers if l.name in changed][0]
        fails.append(("idempotence",
                      dict(lsig(bad_layer), relation="weights_unchanged_by_2nd_export",
                           **nfps[bad_layer.name]),
                      "second export rewrote weights of %r" % changed[:4]))
      path = dict_equal(state["last_export"], d)
      if path is not None:
        lname = path.split("/")[0].split(" ")[0]
        ls = {"layer": None}
        for layer in model.layers:
          if layer.name == lname:
            ls = lsig(layer)
            if layer.name in pairs:
              ls["bn_variant"] = lsig(model.get_layer(pairs[layer.name])).get(
                  "layer_variant")
        ls.update(nfps.get(lname, {}))
        key = path.split("/")[-1].split(" ")[-1]
        if key in ("bn_inv", "fused_bias") and lname in pairs and (
            pairs[lname] in changed):
          # consequence of the fused batch-norm's own weights being rewritten
          ls.update(nfps.get(pairs[lname], {}))
          ls["via_fused_bn"] = True
        fails.append(("idempotence",
                      dict(ls, relation="dict_unchanged_by_2nd_export",
                           key=path.split("/")[-1].split(" ")[-1],
                           weights_also_changed=lname in changed),
                      "dictionary differs at %s" % path))
  else:
    labels.add("dd_model")
    state["last_pred"] = None
    if state.get("last_export") is not None:
      labels.add("export2")
  state["last_export"] = d
  return fails, d


def do_freeze(model, x, state, quantize, labels):
  fails = []
  # expected frozen scales: the auto_po2 quantizers applied to current weights
  exp_scale, exp_w = {}, {}
  for layer in model.layers[1:]:
    cls = layer.__class__.__name__
    if cls in FREEZE_KERNEL_SLOT:
      q = getattr(layer, FREEZE_KERNEL_SLOT[cls] + "_internal")
      if getattr(q, "alpha", None) == "auto_po2" and getattr(
          q, "post_training_scale", None) is None:
        apply_q(q, layer.get_weights()[0])
        exp_scale[layer.name] = _np(q.scale)
    roles = weight_roles(layer)
    if roles is not None:
      w = layer.get_weights()
      exp_w[layer.name] = [apply_q(q, w[i]) for i, _, q in roles]
  w_before = model.get_weights()
  try:
    new_model, hw = lib_freeze(model, quantize)
  except Exception as e:  # pylint: disable=broad-except
    sig = core.exc_signature(e)
    sig["step"] = "freeze"
    sig["masked_conv"] = any(getattr(l, "_mask", None) is not None
                             for l in model.layers)
    fused_bns = set(fusable_pairs(model)[0].values())
    sig["unfused_bn_inverse_auto_po2"] = any(
        l.__class__.__name__ == "QBatchNormalization" and l.name not in fused_bns
        and getattr(l.inverse_quantizer_internal, "alpha", None) == "auto_po2"
        for l in model.layers)
    return [("freeze_raises", sig, repr(e)[:500])], model
  labels.add("freeze")
  # the source model is not modified
  if any(not _eq(a, b) for a, b in zip(w_before, model.get_weights())):
    fails.append(("freeze", {"relation": "source_untouched"},
                  "clone_model_and_freeze_auto_po2_scale changed the source model"))
  for layer in new_model.layers[1:]:
    cls = layer.__class__.__name__
    if layer.name in exp_scale:
      q = getattr(layer, FREEZE_KERNEL_SLOT[cls] + "_internal")
      pts = getattr(q, "post_training_scale", None)
      if pts is None or not _eq(pts, exp_scale[layer.name]):
        fails.append(("freeze", dict(lsig(layer), relation="frozen_scale==auto_scale"),
                      "post_training_scale=%r expected %r" % (
                          None if pts is None else _f64(pts).reshape(-1)[:4],
                          _f64(exp_scale[layer.name]).reshape(-1)[:4])))
    if layer.name in exp_w:
      src = model.get_layer(layer.name).get_weights()
      now = layer.get_weights()
      want = exp_w[layer.name] if quantize else src
      roles = weight_roles(layer)
      if roles is not None and len(now) == len(want):
        for (i, slot, q), a, b in zip(roles, now, want):
          if not _eq(a, b):
            fails.append(("freeze",
                          dict(lsig(layer), relation="new_weights",
                               quantized=quantize, slot=slot),
                          "weight %d of %s: %r expected %r" % (
                              i, layer.name, _f64(a).reshape(-1)[:3], _f64(b).reshape(-1)[:3])))
            break
  # every frozen quantizer must behave frozen inside the layer it lives in:
  # quantizing a perturbed tensor leaves q.scale at the post-training scale and
  # puts the result on that scale's grid (public behaviour of the live object)
  for layer in new_model.layers[1:]:
    cls = layer.__class__.__name__
    cands = []
    if cls in FREEZE_KERNEL_SLOT:
      cands.append((FREEZE_KERNEL_SLOT[cls],
                    getattr(layer, FREEZE_KERNEL_SLOT[cls] + "_internal"),
                    layer.get_weights()[0]))
    elif cls == "QBatchNormalization" and layer.inverse_quantizer_internal is not None:
      cands.append(("inverse_quantizer", layer.inverse_quantizer_internal,
                    np.asarray(layer.get_weights()[-1], dtype=np.float32)))
    for slot, q, w in cands:
      pts = getattr(q, "post_training_scale", None)
      if pts is None or getattr(q, "alpha", None) != "auto_po2":
        continue
      labels.add("frozen_behaviour_checked")
      wp = (np.asarray(w, dtype=np.float32) * 3.0 + 0.37).astype(np.float32)
      y = _f64(apply_q(q, wp))
      sc = _f64(q.scale)
      ub = q.bits - int(bool(q.keep_negative))
      unit = _f64(pts) * (2.0 ** float(q.integer)) / (2.0 ** ub)
      with np.errstate(all="ignore"):
        z = y / np.broadcast_arrays(unit, y)[0]
      if not _eq(sc, pts) or not np.all(z == np.round(z)):
        fails.append(("freeze", dict(lsig(layer), relation="frozen_in_layer", slot=slot),
                      "after quantizing perturbed weights q.scale=%r, "
                      "post_training_scale=%r, off-grid outputs=%d" % (
                          sc.reshape(-1)[:4], _f64(pts).reshape(-1)[:4],
                          int(np.sum(z != np.round(z))))))
  if any(is_dd(q) and qname(q) == "quantized_bits" and getattr(q, "alpha", None) == "auto_po2"
         for _, _, q in model_weight_quantizers(new_model)):
    fails.append(("freeze", {"relation": "no_adaptive_auto_po2_left"},
                  "the frozen model still has an adaptive auto_po2 quantizer"))
  state["last_pred"] = None
  state["last_export"] = hw if quantize else None
  if quantize:
    labels.add("frozen_export")
  return fails, new_model


def run_history(case, labels):
  import tensorflow as tf  # pylint: disable=g-import-not-at-top
  core.reset_globals()
  desc = case["model"]
  fails = []
  info = {"built": False, "exports": 0, "has_q": False}
  try:
    model = G.build_model(desc)
    x = G.make_input(desc)
    model(x, training=False)
  except Exception as e:  # pylint: disable=broad-except
    info["unbuildable"] = "%s: %s" % (type(e).__name__, str(e)[:300])
    return fails, info
  info["built"] = True
  info["has_q"] = any(q is not None for _, _, q in model_weight_quantizers(model))
  if any(qname(q) == "binary" and getattr(q, "use_01", False)
         for _, _, q in model_weight_quantizers(model)):
    labels.add("binary_use_01")
  if desc.get("wfill"):
    labels.add("wfill")
    labels.add("wfill:model" if "*" in desc["wfill"] else "wfill:tensors")
    for fl in desc["wfill"].values():
      for f in fl.values():
        labels.add("wfill=" + f.split(":")[0])
  state = {"last_pred": None, "last_export": None}
  for k, step in enumerate(case["steps"]):
    if step == "predict":
      labels.add("predict")
      y = model(x, training=False).numpy()
      if is_di_model(model) and state["last_pred"] is not None and (
          not np.array_equal(state["last_pred"], y, equal_nan=True)):
        fails.append(("prediction_preserved", {"relation": "pred_history"},
                      "step %d: prediction differs from the previous one" % k))
      state["last_pred"] = y if is_di_model(model) else None
    elif step == "export":
      labels.add("export")
      f, d = do_export(model, x, state, labels)
      fails += f
      info["exports"] += 1
      if d is None:
        break
    elif step in ("freeze", "freeze_q"):
      if not freeze_eligible(model):
        labels.add("freeze_not_applicable")
        continue
      f, model = do_freeze(model, x, state, step == "freeze_q", labels)
      fails += f
  del tf
  return fails, info


def oracle_case(ctx, case, extra_labels=()):
  _count["n"] += 1
  if _count["n"] % 8 == 0:
    import tensorflow as tf  # pylint: disable=g-import-not-at-top
    tf.keras.backend.clear_session()
  labels = set()
  fails, info = run_history(case, labels)
  # one failure per (sub_check, signature)
  seen, out = set(), []
  for sc, sig, detail in fails:
    k = core.fkey(sc, sig)
    if k not in seen:
      seen.add(k)
      out.append((sc, sig, detail))
  labs = ["fam:" + case["model"].get("family", "?")] + sorted(labels)
  if not info["built"]:
    labs.append("unbuildable_orig")
    ctx.info.setdefault("unbuildable_examples", [])
    if len(ctx.info["unbuildable_examples"]) < 3:
      ctx.info["unbuildable_examples"].append(info.get("unbuildable"))
  labs.append("steps:%d" % len(case["steps"]))
  labs += list(extra_labels)
  ctx.tick(case, labels=labs,
           nontrivial=info["built"] and info["has_q"] and info["exports"] > 0,
           sample_label="fam:" + case["model"].get("family", "?"))
  return out


def run(ctx):
  from hypothesis import strategies as st  # pylint: disable=g-import-not-at-top

  @st.composite
  def case_st(draw):
    fam = draw(st.sampled_from(["image", "image", "image", "vec", "seq", "chain"]))
    if fam == "chain":
      desc = draw(G.freeze_chain_strategy())
    else:
      desc = draw(G.model_strategy("c14", rich=not ctx.quick, family=fam))
    # degenerate / untrained whole-tensor states (zeros, ones, initializer
    # value, constants) for half of the models
    if draw(st.booleans()):
      wf = draw(G.wfill_strategy(desc))
      if wf:
        desc = dict(desc, wfill=wf)
    pat = draw(st.sampled_from([
        ["export", "predict", "export"],
        ["predict", "export", "export", "predict"],
        ["export", "freeze", "export", "export"],
        ["freeze_q", "predict", "export", "predict"],
        ["export", "predict", "export", "freeze", "export"],
        ["freeze", "predict", "export", "predict", "export"],
        ["export"],
        None]))
    if pat is None:
      pat = draw(st.lists(st.sampled_from(["export", "export", "predict", "freeze",
                                           "freeze_q"]), min_size=1, max_size=5))
    return {"model": desc, "steps": pat}

  def orc(case):
    if ctx.time_left() <= 0:
      ctx.labels["skipped_time"] += 1
      return []
    return oracle_case(ctx, case, extra_labels=["hyp"])

  # deterministic floor: canonical models x fixed histories
  canon = []
  for d in G.canonical_models("c14"):
    if d["family"] == "chain":
      canon.append({"model": d, "steps": ["export", "freeze", "export", "export"]})
      canon.append({"model": d, "steps": ["freeze_q", "predict", "export", "predict"]})
      canon.append({"model": d, "steps": ["freeze", "export", "predict", "export"]})
    else:
      canon.append({"model": d, "steps": ["export", "predict", "export"]})
  # the same models as built (no weight assigned: untrained parameters) and
  # with the parameters a fresh model starts at zero set to zero
  zero_start = {"*": {"bias": "zeros", "beta": "zeros", "moving_mean": "zeros"}}
  fresh = {"*": {w: "init" for ws in G.WEIGHT_SLOTS.values() for w, _ in ws}}
  for case in list(canon):
    if case["steps"][0] == "export" and case["model"]["family"] in ("image", "vec"):
      canon.append({"model": dict(case["model"], wfill=fresh), "steps": ["export", "export"]})
      if any(ld["cls"] == "QBatchNormalization" for ld in case["model"]["layers"]):
        canon.append({"model": dict(case["model"], wfill=zero_start),
                      "steps": ["export", "predict", "export"]})
  for case in ctx.shard(canon):
    for sc, sig, detail in oracle_case(ctx, case, extra_labels=["canonical"]):
      ctx.fail(sc, sig, case, detail)

  n = (400 if ctx.quick else 6000) // ctx.n + 1
  core.hyp_run(ctx, case_st(), orc, n, name="c14")


def replay(ctx, case):
  for sc, sig, detail in oracle_case(ctx, case):
    ctx.fail(sc, sig, case, detail)
