"""Quantization dictionaries for `model_quantize`, generated from a model
description of vf/gen/kmodels.py.

The dictionary is a pure JSON value {key: entry}; keys are layer names and/or
`Q<Class>` names, entries are role->quantizer-string maps (possibly partial or
empty), or for activation layers a quantizer string or an
{activation name: quantizer string} map.

Only documented forms are produced (docstring of model_quantize + the per-class
comments); forms whose meaning the documentation leaves open are not generated:
  * a separable-convolution entry carries both depthwise and pointwise roles or
    neither (never `kernel_quantizer`, which is not a role of the class);
  * when both "QActivation" and "QAdaptiveActivation" class entries are present
    they are of the same form and cover the same activation names;
  * inner layers of Bidirectional are not addressed by their own name;
  * empty entries `{}` are generated for every key form: a BatchNormalization
    layer is selected by the mere presence of its name or of
    "QBatchNormalization" (documented form `"QBatchNormalization": {}`); for
    every other kind an empty entry carries no primary role, so the layer stays
    as it was, and an empty *name* entry hides the class entry;
  * Conv2DTranspose is never selected (QConv2DTranspose cannot be built in this
    image);
  * QAdaptiveActivation entries are `quantized_relu(<bits>)` /
    `quantized_bits(<bits>)` (the layer supports only these two, integer bits).
"""

Q_OF = {
    "Dense": "QDense", "Conv1D": "QConv1D", "Conv2D": "QConv2D",
    "DepthwiseConv2D": "QDepthwiseConv2D",
    "SeparableConv1D": "QSeparableConv1D",
    "SeparableConv2D": "QSeparableConv2D",
    "SimpleRNN": "QSimpleRNN", "LSTM": "QLSTM", "GRU": "QGRU",
    "Bidirectional": "QBidirectional",
    "BatchNormalization": "QBatchNormalization",
    "AveragePooling2D": "QAveragePooling2D",
    "GlobalAveragePooling2D": "QGlobalAveragePooling2D",
}
ACT_LAYERS = ("Activation", "ReLU", "LeakyReLU")


def roles_of(cls, inner_cls=None):
  """(primary roles, secondary roles) of the quantized counterpart."""
  if cls in ("Dense", "Conv1D", "Conv2D"):
    return ["kernel_quantizer"], ["bias_quantizer", "activation_quantizer"]
  if cls == "DepthwiseConv2D":
    return ["depthwise_quantizer"], ["bias_quantizer", "activation_quantizer"]
  if cls in ("SeparableConv1D", "SeparableConv2D"):
    return ["depthwise_quantizer", "pointwise_quantizer"], ["bias_quantizer"]
  if cls in ("SimpleRNN", "LSTM", "GRU"):
    sec = ["recurrent_quantizer", "bias_quantizer", "state_quantizer",
           "activation_quantizer"]
    if cls != "SimpleRNN":
      sec.append("recurrent_activation_quantizer")
    return ["kernel_quantizer"], sec
  if cls == "Bidirectional":
    return roles_of(inner_cls)
  if cls == "BatchNormalization":
    return [], ["gamma_quantizer", "beta_quantizer", "mean_quantizer",
                "variance_quantizer"]
  if cls in ("AveragePooling2D", "GlobalAveragePooling2D"):
    return ["average_quantizer"], ["activation_quantizer"]
  return None


def relu_key(ld):
  """Key of the activation map that addresses a ReLU / LeakyReLU layer."""
  if ld["cls"] == "LeakyReLU":
    return "leakyrelu" if ld["kw"].get("alpha", 0.3) > 0 else "relu"
  return "leakyrelu" if ld["kw"].get("negative_slope", 0.0) > 0 else "relu"


def act_key(ld):
  if ld["cls"] == "Activation":
    return ld["kw"]["activation"]
  return relu_key(ld)


def qdicts(desc, prefer_adaptive=False):
  """Strategy: quantization dictionary for the model `desc`.

  `prefer_adaptive` is the value of model_quantize's
  prefer_qadaptiveactivation the dictionary will be used with: a *name* entry
  of an Activation layer is then read as a QAdaptiveActivation entry, so it is
  drawn from the strings that layer supports."""
  from hypothesis import strategies as st  # pylint: disable=g-import-not-at-top

  @st.composite
  def gen(draw):
    def i(lo, hi):
      return draw(st.integers(lo, hi))

    def pick(seq):
      return draw(st.sampled_from(list(seq)))

    def bits_str(signed=True, sym=False):
      b = i(2, 8)
      it = i(0, min(b - 1, 2))
      if sym:
        return "quantized_bits(%d,%d,%d)" % (b, it, i(0, 1))
      return "quantized_bits(%d,%d)" % (b, it) if i(0, 2) else (
          "quantized_bits(%d)" % b)

    def weight_q():
      v = i(0, 9)
      if v <= 3:
        return bits_str(sym=True)
      if v == 4:
        return "quantized_bits(%d,%d,1,alpha=%s)" % (
            i(2, 8), i(0, 1), pick(["1", "'auto'", "'auto_po2'"]))
      if v == 5:
        return pick(["binary", "binary(alpha=1)", "binary()"])
      if v == 6:
        return pick(["ternary", "ternary(alpha=1)", "ternary()"])
      if v == 7:
        return "quantized_po2(%d)" % i(3, 6)
      if v == 8:
        return pick(["stochastic_ternary", "stochastic_binary"])
      return "quantized_po2(%d,%d)" % (i(3, 6), pick([1, 2, 4]))

    def bias_q():
      v = i(0, 5)
      if v <= 2:
        return bits_str()
      if v == 3:
        return "quantized_po2(%d)" % i(3, 6)
      return pick(["binary", "ternary", "quantized_bits(8,3,1)"])

    def act_q():
      v = i(0, 9)
      b = i(2, 8)
      if v <= 2:
        return "quantized_relu(%d)" % b
      if v == 3:
        return "quantized_relu(%d,%d)" % (b, i(0, min(b, 3)))
      if v == 4:
        return "quantized_relu(%d,%d,negative_slope=%s)" % (
            b, i(0, 1), pick(["0.25", "0.125"]))
      if v == 5:
        return "quantized_tanh(%d)" % b
      if v == 6:
        return "quantized_sigmoid(%d)" % b
      if v == 7:
        return "quantized_bits(%d,%d,1)" % (b, i(0, min(b - 1, 2)))
      if v == 8:
        return pick(["binary", "ternary", "binary(alpha=1)"])
      return "quantized_relu_po2(%d)" % i(3, 6)

    def role_q(role):
      if role in ("kernel_quantizer", "depthwise_quantizer",
                  "pointwise_quantizer", "recurrent_quantizer"):
        return weight_q()
      if role == "bias_quantizer":
        return bias_q()
      if role == "state_quantizer":
        return bits_str()
      if role == "activation_quantizer":
        return act_q()
      if role == "recurrent_activation_quantizer":
        return pick(["quantized_sigmoid(%d)" % i(2, 8),
                     "quantized_bits(%d,0,1)" % i(2, 8),
                     "quantized_relu(%d)" % i(2, 8)])
      if role == "average_quantizer":
        return "quantized_bits(%d,%d,1)" % (i(3, 8), i(0, 1))
      if role in ("gamma_quantizer", "variance_quantizer"):
        return pick(["quantized_relu_po2(%d)" % i(3, 6),
                     "quantized_relu(%d,%d)" % (i(3, 8), i(0, 2))])
      if role in ("beta_quantizer", "mean_quantizer"):
        return pick(["quantized_po2(%d)" % i(3, 6),
                     "quantized_bits(%d,%d)" % (i(3, 8), i(0, 2))])
      raise ValueError(role)

    def entry(prim, sec, mode):
      e = {}
      if mode == "full":
        for r in prim:
          e[r] = role_q(r)
        for r in sec:
          p = 2 if r == "activation_quantizer" else 4
          if i(0, 5) < p:
            e[r] = role_q(r)
      else:   # partial: the primary roles all-or-nothing, each secondary 50%
        if prim and i(0, 1):
          for r in prim:
            e[r] = role_q(r)
        for r in sec:
          if i(0, 1):
            e[r] = role_q(r)
      return e

    def adaptive_q():
      return "%s(%d)" % (pick(["quantized_relu", "quantized_bits"]), i(2, 8))

    qd = {}
    layers = desc["layers"]
    # ---- class entries of weight/pooling/bn layers
    classes = []
    for ld in layers:
      if ld["cls"] in Q_OF and ld["cls"] not in classes:
        classes.append(ld["cls"])
    inner_of = {}
    for ld in layers:
      if ld["cls"] == "Bidirectional":
        inner_of.setdefault("Bidirectional", ld["kw"]["layer"]["cls"])
    for cls in classes:
      mode = pick(["absent", "full", "full", "full", "partial", "empty"])
      if cls == "BatchNormalization" and mode != "absent" and i(0, 2) == 0:
        mode = "empty"     # the documented {"QBatchNormalization": {}} form
      if mode == "absent":
        continue
      if mode == "empty":
        qd[Q_OF[cls]] = {}
        continue
      prim, sec = roles_of(cls, inner_of.get(cls))
      if cls == "Bidirectional" and i(0, 1):
        # the most general role set, whatever the wrapped classes are
        prim, sec = roles_of("LSTM")
      qd[Q_OF[cls]] = entry(prim, sec, mode)
    # a class entry of a class that does not occur (must be inert)
    if i(0, 5) == 0:
      for qn in ("QDense", "QConv2D", "QLSTM", "QDepthwiseConv2D"):
        if qn not in qd and not any(Q_OF.get(ld["cls"]) == qn for ld in layers):
          qd[qn] = {"kernel_quantizer": weight_q(), "bias_quantizer": bias_q()}
          break
    # ---- activation class entries
    act_layers = [ld for ld in layers if ld["cls"] in ACT_LAYERS]
    keys = []
    for ld in act_layers:
      k = act_key(ld)
      if k not in keys:
        keys.append(k)
    if act_layers:
      form = pick(["absent", "absent", "string", "map", "map", "map"])
      which = pick(["QActivation"] * 4 + ["QAdaptiveActivation", "both"])
      if form != "absent":
        sub = [k for k in keys if i(0, 3) != 0] or keys[:1]
        if i(0, 3) == 0 and "relu" not in sub:
          sub.append("relu")     # key without a layer: inert
        for qn in (["QActivation", "QAdaptiveActivation"] if which == "both"
                   else [which]):
          mk = adaptive_q if qn == "QAdaptiveActivation" else act_q
          qd[qn] = mk() if form == "string" else {k: mk() for k in sub}
    # ---- name entries
    for ld in layers:
      if i(0, 9) >= 3:
        continue
      if ld["cls"] in Q_OF:
        mode = pick(["full", "full", "partial", "empty"])
        if ld["cls"] == "BatchNormalization" and i(0, 2) == 0:
          mode = "empty"   # {"<bn name>": {}}: the marker form autoqkeras emits
        if mode == "empty":
          # an empty name entry: selects a BatchNormalization layer (all
          # quantizers None), hides the class entry for every other kind
          qd[ld["name"]] = {}
          continue
        inner = None
        if ld["cls"] == "Bidirectional":
          inner = ld["kw"]["layer"]["cls"]
          bw = ld["kw"].get("backward_layer")
          if bw and bw["cls"] != "SimpleRNN":
            inner = bw["cls"]       # the wider role set of the two directions
        prim, sec = roles_of(ld["cls"], inner)
        qd[ld["name"]] = entry(prim, sec, mode)
      elif ld["cls"] == "Activation":
        mk = adaptive_q if prefer_adaptive else act_q
        form = pick(["string", "map", "map", "map_other", "map_empty"])
        if form == "map_empty":
          qd[ld["name"]] = {}
        elif form == "string":
          qd[ld["name"]] = mk()
        elif form == "map":
          qd[ld["name"]] = {act_key(ld): mk()}
        else:
          other = "tanh" if act_key(ld) != "tanh" else "relu"
          qd[ld["name"]] = {other: mk()}
      elif ld["cls"] in ("ReLU", "LeakyReLU"):
        form = pick(["string", "map", "map", "map_other", "map_empty"])
        if form == "map_empty":
          qd[ld["name"]] = {}
        elif form == "string":
          qd[ld["name"]] = act_q()
        elif form == "map":
          qd[ld["name"]] = {act_key(ld): act_q()}
        else:
          other = "leakyrelu" if act_key(ld) == "relu" else "relu"
          qd[ld["name"]] = {other: act_q()}
    return qd

  return gen()
