"""Coverage-guided driver for the C10 parsing oracle (thorough tier only).

Runs in a child process (libFuzzer ends the process when it is done):

    python -m vf.gen.c10_fuzz --out FILE --seconds N --seed S

The same Hypothesis test that the quick tier runs (grammar strategies of
vf/gen/literals.py + c10.text_oracle) is handed to libFuzzer through
`test.hypothesis.fuzz_one_input`; only the functions of qkeras/safe_eval.py are
instrumented (atheris.instrument_func), so
libFuzzer's coverage feedback steers the Hypothesis choice sequence towards new
branches of the parser.  Every evaluation is counted and every failure is
recorded in a core.Ctx whose result() is dumped to FILE (periodically, and when
a failure is found), and merged by the parent worker.
Exit code 3: atheris is not importable (the parent falls back to Hypothesis).
"""
import argparse
import json
import os
import sys
import tempfile
import time


def main():
  ap = argparse.ArgumentParser()
  ap.add_argument("--out", required=True)
  ap.add_argument("--seconds", type=int, default=60)
  ap.add_argument("--seed", type=int, default=1)
  args = ap.parse_args()
  try:
    import atheris  # pylint: disable=g-import-not-at-top
  except Exception as e:  # pylint: disable=broad-except
    sys.stderr.write("atheris not importable: %r\n" % (e,))
    sys.exit(3)

  os.environ.setdefault("TF_USE_LEGACY_KERAS", "1")
  os.environ.setdefault("TF_CPP_MIN_LOG_LEVEL", "3")
  repo = os.environ.get("VERIF_REPO", "/repo")
  if repo not in sys.path[:2]:
    sys.path.insert(0, repo)
  # atheris.instrument_imports(include=[...]) filters by top-level package
  # only, i.e. it would instrument all of qkeras; instrument exactly the
  # functions of qkeras/safe_eval.py instead.
  import types  # pylint: disable=g-import-not-at-top
  import qkeras.quantizers as Q  # pylint: disable=g-import-not-at-top
  SE = sys.modules["qkeras.safe_eval"]   # (qkeras.safe_eval is the function)
  for name, fn in list(vars(SE).items()):
    if isinstance(fn, types.FunctionType) and fn.__module__ == SE.__name__:
      setattr(SE, name, atheris.instrument_func(fn))
  Q.safe_eval = SE.safe_eval

  from hypothesis import HealthCheck, given, settings  # pylint: disable=g-import-not-at-top
  from hypothesis import strategies as st  # pylint: disable=g-import-not-at-top
  from vf import core  # pylint: disable=g-import-not-at-top
  from vf.gen import literals as L  # pylint: disable=g-import-not-at-top
  from vf.props import c10  # pylint: disable=g-import-not-at-top

  core.pin_environment()
  ctx = core.Ctx("C10", "thorough", args.seed, 0, 1, args.seconds)
  state = {"last": time.time(), "n": 0}

  def dump():
    r = ctx.result()
    r["info"]["atheris_evals"] = ctx.evals
    tmp = args.out + ".tmp"
    with open(tmp, "w") as f:
      json.dump(r, f, default=str)
    os.replace(tmp, args.out)

  strategy = st.one_of(L.stub_case_strategy(c10.HEADS),
                       L.stub_case_strategy(c10.HEADS),
                       L.order_case_strategy(c10.HEADS),
                       L.exotic_case_strategy(c10.HEADS))

  @settings(database=None, deadline=None,
            suppress_health_check=list(HealthCheck))
  @given(strategy)
  def test(case):
    fails = c10.text_oracle(ctx, case)
    ctx.labels["atheris"] += 1
    for sc, sig, detail in fails:
      ctx.fail(sc, sig, case, detail)
    state["n"] += 1
    if fails or time.time() - state["last"] > 5.0:
      state["last"] = time.time()
      dump()

  corpus = tempfile.mkdtemp(prefix="c10_corpus_")
  dump()
  atheris.Setup([sys.argv[0], "-max_total_time=%d" % args.seconds,
                 "-seed=%d" % (args.seed % (2 ** 31 - 1) + 1),
                 "-max_len=2048", "-print_final_stats=0", "-verbosity=0",
                 corpus], test.hypothesis.fuzz_one_input)
  try:
    atheris.Fuzz()
  finally:
    dump()


if __name__ == "__main__":
  main()
