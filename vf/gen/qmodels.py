"""Quantized-model description DSL shared by C13 and C14.

A *model description* is a plain JSON value:

  {"input": [dims...],               # input shape without the batch axis
   "layers": [ {"name": str, "cls": str, "in": [tensor names],
                "kw": {plain constructor kwargs},
                "q":  {slot: qspec},       # quantizer-valued kwargs
                "inner": layerdesc}        # QBidirectional only
             , ...],
   "out": tensor name, "wseed": int, "wscale": float, "xseed": int}

  qspec = None | {"s": "quantized_bits(4,0,1)"}            (string form)
        | {"q": class name, "kw": {...}, "lossy": {...}}   (object form)

"lossy" holds constructor options that the quantizer's own get_config() does
not emit (the C09 defect); they are kept apart so that a model can be
"cleaned" (all lossy options dropped) when a round-trip failure has to be
attributed.  Tensor names are layer names; "in" is the model input.

Shapes are tracked by the strategies so every drawn description builds (no
filtering).  Weights and the probe batch are derived from seeds stored in the
description, so a description is a value.
"""
import copy

import numpy as np

F32 = np.float32

# --------------------------------------------------------------------------
# building


def mkq(spec):
  """qspec -> None | str | quantizer object."""
  from qkeras import quantizers as Q  # pylint: disable=g-import-not-at-top
  if spec is None:
    return None
  if "s" in spec:
    return spec["s"]
  kw = dict(spec.get("kw", {}))
  kw.update(spec.get("lossy", {}))
  return getattr(Q, spec["q"])(**kw)


def qspec_class(spec):
  """Quantizer class name of a qspec (string forms: the call name)."""
  if spec is None:
    return None
  if "s" in spec:
    return spec["s"].split("(")[0]
  return spec["q"]


# weight slots of each layer class, in get_weights() order, with the name of
# the quantizer slot that belongs to each weight (documented layer semantics:
# "<x>_quantizer: quantizer function/class for <x>").
WEIGHT_SLOTS = {
    "QDense": [("kernel", "kernel_quantizer"), ("bias", "bias_quantizer")],
    "QConv1D": [("kernel", "kernel_quantizer"), ("bias", "bias_quantizer")],
    "QConv2D": [("kernel", "kernel_quantizer"), ("bias", "bias_quantizer")],
    "QDepthwiseConv2D": [("depthwise_kernel", "depthwise_quantizer"),
                         ("bias", "bias_quantizer")],
    "QSeparableConv1D": [("depthwise_kernel", "depthwise_quantizer"),
                         ("pointwise_kernel", "pointwise_quantizer"),
                         ("bias", "bias_quantizer")],
    "QSeparableConv2D": [("depthwise_kernel", "depthwise_quantizer"),
                         ("pointwise_kernel", "pointwise_quantizer"),
                         ("bias", "bias_quantizer")],
    "QSimpleRNN": [("kernel", "kernel_quantizer"),
                   ("recurrent_kernel", "recurrent_quantizer"),
                   ("bias", "bias_quantizer")],
    "QLSTM": [("kernel", "kernel_quantizer"),
              ("recurrent_kernel", "recurrent_quantizer"),
              ("bias", "bias_quantizer")],
    "QGRU": [("kernel", "kernel_quantizer"),
             ("recurrent_kernel", "recurrent_quantizer"),
             ("bias", "bias_quantizer")],
    "QScaleShift": [("weight", "weight_quantizer"), ("bias", "bias_quantizer")],
    "QBatchNormalization": [("gamma", "gamma_quantizer"),
                            ("beta", "beta_quantizer"),
                            ("moving_mean", "mean_quantizer"),
                            ("moving_variance", "variance_quantizer")],
}

# slots whose quantizer the layer switches to alpha="auto_po2" when it was
# built with alpha=None ("optimize parameter set to auto scaling mode").
AUTO_SLOTS = {
    "QDense": ["kernel_quantizer"], "QConv1D": ["kernel_quantizer"],
    "QConv2D": ["kernel_quantizer"],
    "QDepthwiseConv2D": ["depthwise_quantizer"],
    "QSeparableConv1D": ["depthwise_quantizer", "pointwise_quantizer"],
    "QSeparableConv2D": ["depthwise_quantizer", "pointwise_quantizer"],
    "QSimpleRNN": ["kernel_quantizer", "recurrent_quantizer"],
    "QLSTM": ["kernel_quantizer", "recurrent_quantizer"],
    "QGRU": ["kernel_quantizer", "recurrent_quantizer"],
    "QScaleShift": ["weight_quantizer", "bias_quantizer"],
    "QBatchNormalization": ["gamma_quantizer", "variance_quantizer"],
    "QConv2DBatchnorm": ["kernel_quantizer"],
    "QDepthwiseConv2DBatchnorm": ["depthwise_quantizer"],
}


def _layer_class(name):
  import tensorflow as tf  # pylint: disable=g-import-not-at-top
  import qkeras  # pylint: disable=g-import-not-at-top
  from qkeras.qmac import QScaleShift  # pylint: disable=g-import-not-at-top
  if name == "QScaleShift":
    return QScaleShift
  if hasattr(qkeras, name) and name.startswith("Q"):
    return getattr(qkeras, name)
  return getattr(tf.keras.layers, name)


def make_layer(ld):
  """layer description -> (unconnected) layer object."""
  kw = dict(ld.get("kw", {}))
  for slot, spec in ld.get("q", {}).items():
    kw[slot] = mkq(spec)
  mdt = kw.pop("mask_dtype", "float32")
  if kw.get("mask") is not None:
    kw["mask"] = np.array(kw["mask"], dtype={"float32": np.float32,
                                             "float64": np.float64,
                                             "int32": np.int32,
                                             "bool": np.bool_}[mdt])
  cls = _layer_class(ld["cls"])
  if "name" in ld:
    kw["name"] = ld["name"]
  if "cells" in ld:
    # generic Keras RNN layer around cell objects: one cell, or a list of
    # cells (Keras wraps a list into StackedRNNCells)
    cells = [make_layer(cd) for cd in ld["cells"]]
    as_list = kw.pop("as_list", False) or len(cells) > 1
    return cls(cells if as_list else cells[0], **kw)
  if "inner" in ld:      # QBidirectional / Bidirectional / TimeDistributed
    inner = make_layer(ld["inner"])
    return cls(inner, **kw)
  return cls(**kw)


def sub_descs(ld):
  """Layer / cell descriptions nested directly inside a layer description."""
  out = []
  if "inner" in ld:
    out.append(ld["inner"])
  out.extend(ld.get("cells", []))
  return out


def nested_descs(ld):
  """ld and everything nested in it, outermost first."""
  out = [ld]
  for d in sub_descs(ld):
    out.extend(nested_descs(d))
  return out


def build_model(desc, set_weights=True):
  import tensorflow as tf  # pylint: disable=g-import-not-at-top
  x_in = tf.keras.Input(shape=tuple(desc["input"]), name="in")
  t = {"in": x_in}
  for ld in desc["layers"]:
    layer = make_layer(ld)
    ins = [t[n] for n in ld["in"]]
    t[ld["name"]] = layer(ins if len(ins) > 1 else ins[0])
  model = tf.keras.Model(inputs=x_in, outputs=t[desc["out"]])
  if set_weights:
    assign_weights(model, desc)
  return model


def _draw_weight(rs, name, shape, wscale):
  n = name.split("/")[-1]
  if "moving_variance" in n:
    return rs.uniform(0.05, 4.0, size=shape).astype(F32)
  if "gamma" in n:
    g = rs.uniform(0.25, 2.0, size=shape)
    return (g * rs.choice([1.0, 1.0, 1.0, -1.0], size=shape)).astype(F32)
  if "ema_" in n or "iteration" in n or "quantizer_integer" in n:
    return None
  mode = rs.randint(0, 4)
  w = rs.normal(0.0, 1.0, size=shape) * wscale
  if mode == 1:      # values exactly on a coarse binary grid, some zeros
    w = np.round(w * 4.0) / 4.0
  elif mode == 2:    # a few exact zeros
    w = w * (rs.uniform(size=shape) > 0.2)
  return w.astype(F32)


def assign_weights(model, desc):
  """Every layer's public weights are drawn from RandomState(wseed)."""
  rs = np.random.RandomState(desc["wseed"] % (2 ** 31))
  for layer in model.layers:
    cur = layer.get_weights()
    if not cur:
      continue
    names = [v.name for v in layer.weights]
    if len(names) != len(cur):     # layers hiding variables: leave untouched
      continue
    new = []
    for nm, c in zip(names, cur):
      w = _draw_weight(rs, nm, c.shape, desc.get("wscale", 1.0))
      new.append(c if w is None else w)
    # constructed tensors stored in the description override the drawn ones
    for idx, val in desc.get("weights", {}).get(layer.name, {}).items():
      new[int(idx)] = np.array(val, dtype=F32).reshape(new[int(idx)].shape)
    # degenerate whole-tensor fills (optional key "wfill", see fill_tensor):
    # applied after the draw, so the random stream of the other tensors of a
    # description does not depend on it
    fills = desc.get("wfill", {})
    fl = dict(fills.get("*", {}))
    fl.update(fills.get(layer.name, {}))
    for k, (nm, c) in enumerate(zip(names, cur)):
      short = nm.split("/")[-1].split(":")[0]
      if short in fl:
        new[k] = fill_tensor(fl[short], c, new[k])
    layer.set_weights(new)


# whole-tensor states a weight can be in without any training step: "init" =
# the value the layer's initializer gave it (an untrained parameter: beta 0,
# moving mean 0, gamma 1, variance 1, bias 0), all zeros, all ones, one
# constant, a single non-zero element.
WFILLS = ("init", "zeros", "ones", "const:0.5", "const:-0.25", "const:3.0",
          "one_hot")


def fill_tensor(fill, initial, drawn):
  """Tensor for a fill name; `initial` = initializer value, `drawn` = the
  random tensor the description would otherwise carry."""
  if fill == "init":
    return np.array(initial, dtype=F32)
  if fill == "zeros":
    return np.zeros(initial.shape, dtype=F32)
  if fill == "ones":
    return np.ones(initial.shape, dtype=F32)
  if fill.startswith("const:"):
    return np.full(initial.shape, float(fill.split(":")[1]), dtype=F32)
  if fill == "one_hot":
    w = np.zeros(initial.shape, dtype=F32).reshape(-1)
    if w.size:
      w[0] = np.asarray(drawn, dtype=F32).reshape(-1)[0]
    return w.reshape(initial.shape)
  raise ValueError("unknown fill %r" % (fill,))


def wfill_strategy(desc):
  """Strategy for the optional "wfill" value of a description: {layer name |
  "*": {weight variable name: fill}}.  Four shapes of degenerate state: the
  whole model as built (every tensor "init": a freshly constructed, untrained
  model) or with its zero-start parameters zero, one layer as built, the
  statistics / affine part of the batch-norm layers as built, or individual
  tensors of individual layers with any fill of WFILLS."""
  st = _st()
  wl = []
  for ld in desc["layers"]:
    slots = WEIGHT_SLOTS.get(ld["cls"])
    if slots:
      wl.append((ld["name"], [w for w, _ in slots]))
  allnames = sorted({w for _, ws in wl for w in ws})

  @st.composite
  def _s(draw):
    if not wl:
      return {}
    shape = draw(st.sampled_from(["tensors", "tensors", "layer", "model",
                                  "bn_stats"]))
    bns = [ln for ln, ws in wl if "moving_mean" in ws]
    if shape == "bn_stats" and bns:
      # batch-norms that have not accumulated statistics / untrained affine
      # part: every batch-norm layer, or one of them
      which = bns if draw(st.booleans()) else [draw(st.sampled_from(bns))]
      part = draw(st.sampled_from([["moving_mean", "moving_variance"],
                                   ["beta", "gamma"], ["moving_mean"], ["beta"],
                                   ["beta", "moving_mean"]]))
      return {ln: {w: "init" for w in part} for ln in which}
    if shape == "model":
      f = draw(st.sampled_from(["init", "init", "zeros"]))
      names = allnames if f == "init" else [
          n for n in allnames if n in ("bias", "beta", "moving_mean")]
      return {"*": {n: f for n in names}}
    if shape == "layer":
      ln, ws = draw(st.sampled_from(wl))
      return {ln: {w: "init" for w in ws}}
    out = {}
    for ln, ws in wl:
      for w in ws:
        # parameters that start at zero / one in a real model are the ones
        # most often left degenerate
        often = w in ("bias", "beta", "moving_mean", "gamma", "moving_variance")
        if draw(st.integers(0, 2 if often else 7)) == 0:
          f = draw(st.sampled_from(WFILLS))
          if w == "moving_variance" and f in ("const:-0.25", "one_hot"):
            f = "zeros"      # a variance is never negative (one_hot draws any sign)
          out.setdefault(ln, {})[w] = f
    return out

  return _s()


def make_input(desc, batch=3):
  rs = np.random.RandomState((desc["xseed"] + 77) % (2 ** 31))
  x = rs.normal(0.0, 1.5, size=(batch,) + tuple(desc["input"]))
  return x.astype(F32)


def clean(desc):
  """Copy of the description without any lossy quantizer option."""
  d = copy.deepcopy(desc)

  def strip(ld):
    for spec in ld.get("q", {}).values():
      if isinstance(spec, dict):
        spec.pop("lossy", None)
    for sub in sub_descs(ld):
      strip(sub)
  for ld in d["layers"]:
    strip(ld)
  return d


def lossy_items(desc):
  """[(layer cls, slot, quantizer cls, sorted option names)] of the model."""
  out = []

  def walk(ld):
    for slot, spec in sorted(ld.get("q", {}).items()):
      if isinstance(spec, dict) and spec.get("lossy"):
        out.append((ld["cls"], slot, spec["q"], sorted(spec["lossy"])))
    for sub in sub_descs(ld):
      walk(sub)
  for ld in desc["layers"]:
    walk(ld)
  return out


def all_qspecs(desc):
  out = []

  def walk(ld):
    for slot, spec in sorted(ld.get("q", {}).items()):
      out.append((ld, slot, spec))
    for sub in sub_descs(ld):
      walk(sub)
  for ld in desc["layers"]:
    walk(ld)
  return out


def consumers(desc):
  c = {}
  for ld in desc["layers"]:
    for n in ld["in"]:
      c.setdefault(n, []).append(ld["name"])
  return c


# --------------------------------------------------------------------------
# Hypothesis strategies (imported lazily: hypothesis lives in /verif/.deps)


def _st():
  from hypothesis import strategies as st  # pylint: disable=g-import-not-at-top
  return st


class Gen(object):
  """Draw helper carrying the per-model generation profile.

  profile "c13": every quantizer / option of the C09 lattice, string forms,
                 at most one quantizer with lossy options per model.
  profile "c14": weight quantizers the export distinguishes (fixed point with
                 constant / auto / auto_po2 scale, po2, relu_po2, binary,
                 ternary); no lossy options, no noise (qnoise_factor = 1).
  """

  def __init__(self, draw, profile, rich):
    self.draw = draw
    self.st = _st()
    self.profile = profile
    self.rich = rich
    self.lossy_left = 0
    self.n = 0

  # -- primitives
  def i(self, lo, hi):
    return self.draw(self.st.integers(lo, hi))

  def b(self):
    return self.draw(self.st.booleans())

  def pick(self, xs):
    return self.draw(self.st.sampled_from(list(xs)))

  def chance(self, k):
    """True with probability ~1/k (shrinks to False)."""
    return self.draw(self.st.integers(0, k - 1)) == k - 1

  def name(self, cls):
    self.n += 1
    return "l%d_%s" % (self.n, cls.lower())

  def take_lossy(self):
    if self.lossy_left > 0 and self.b():
      self.lossy_left -= 1
      return True
    return False

  # -- quantizers
  def q_bits(self, role):
    c14 = self.profile == "c14"
    bits = self.i(2, 8)
    integer = self.i(0, min(3, bits - 1))
    kw = {"bits": bits, "integer": integer}
    if role == "weight":
      if c14:
        alpha = self.pick([1.0, "auto_po2", None, "auto", 2.0, 0.5])
      else:
        alpha = self.pick([None, 1.0, "auto_po2", "auto", 2.0])
    else:
      alpha = self.pick([None, None, 1.0, 2.0])
    kw["alpha"] = alpha
    kw["symmetric"] = self.pick([0, 1])
    if not isinstance(alpha, str) and self.chance(5) and not c14:
      kw["keep_negative"] = False
    if not c14:
      if self.chance(6):
        kw["use_stochastic_rounding"] = True
      if self.chance(8):
        kw["qnoise_factor"] = 0.5
    spec = {"q": "quantized_bits", "kw": kw}
    # options get_config() drops AND that change inference values (use_ste,
    # var_name / use_variables do not at qnoise_factor = 1: left to C09)
    if not c14 and role == "weight" and self.take_lossy():
      if alpha == "auto_po2" and self.b():
        spec["lossy"] = {"min_po2_exponent": -1, "max_po2_exponent": 1}
      else:
        spec["lossy"] = {"scale_axis": 0}
        if not isinstance(alpha, str):
          kw["alpha"] = "auto"
          kw.pop("keep_negative", None)
    return spec

  def q_linear(self, role):
    bits = self.i(2, 8)
    kw = {"bits": bits, "integer": self.i(0, min(3, bits - 1)),
          "symmetric": self.pick([1, 0]),
          "alpha": self.pick([None, 1.0, "auto", "auto_po2"]
                             if role == "weight" else [None, 1.0])}
    if self.chance(5):
      kw["keep_negative"] = False
    spec = {"q": "quantized_linear", "kw": kw}
    if role == "weight" and self.take_lossy():
      spec["lossy"] = {"scale_axis": 0}
      kw["alpha"] = "auto"
    return spec

  def q_po2(self, role):
    c14 = self.profile == "c14"
    kw = {"bits": self.i(2, 6)}
    if self.b():
      kw["max_value"] = self.pick([1, 2, 4, 0.5])
    if self.chance(4):
      kw["quadratic_approximation"] = True
    if self.chance(4):
      kw["log2_rounding"] = self.pick(["floor", "rnd"])
    if not c14 and self.chance(6):
      kw["use_stochastic_rounding"] = True
    return {"q": "quantized_po2", "kw": kw}

  def q_relu_po2(self, role):
    c14 = self.profile == "c14"
    kw = {"bits": self.i(2, 6)}
    if self.b():
      kw["max_value"] = self.pick([1, 2, 4, 0.5])
    if role == "act" and self.chance(4):
      kw["negative_slope"] = self.pick([0.25, 0.125])
    if self.chance(4):
      kw["quadratic_approximation"] = True
    if not c14 and self.chance(6):
      kw["use_stochastic_rounding"] = True
    return {"q": "quantized_relu_po2", "kw": kw}

  def q_binary(self, role):
    kw = {}
    kw["alpha"] = self.pick([None, 1.0, "auto", "auto_po2", 0.5]
                            if role == "weight" else [None, 1.0, 0.5])
    if self.chance(4):
      kw["use_01"] = True
    spec = {"q": "binary", "kw": kw}
    if self.profile != "c14" and role == "weight" and self.take_lossy():
      spec["lossy"] = {"scale_axis": 0}
      kw["alpha"] = "auto"
    return spec

  def q_ternary(self, role):
    kw = {"alpha": self.pick([None, 1.0, "auto", "auto_po2", 2.0]
                             if role == "weight" else [None, 1.0])}
    # threshold is asserted to be None under auto scaling, and kernel slots
    # turn alpha=None into "auto_po2": only with a numeric alpha
    if isinstance(kw["alpha"], float) and self.b():
      kw["threshold"] = self.pick([0.25, 0.5, 0.75])
    if self.chance(5):
      kw["number_of_unrolls"] = 3
    return {"q": "ternary", "kw": kw}

  def q_stochastic_binary(self, role):
    kw = {"alpha": self.pick([None, 1.0, "auto", "auto_po2"]
                             if role == "weight" else [None, 1.0])}
    if self.chance(3):
      kw["temperature"] = 4.0
    if self.chance(3):
      kw["use_real_sigmoid"] = False
    return {"q": "stochastic_binary", "kw": kw}

  def q_stochastic_ternary(self, role):
    kw = {"alpha": self.pick([None, 1.0, "auto", "auto_po2"]
                             if role == "weight" else [None, 1.0])}
    if isinstance(kw["alpha"], float) and self.b():
      kw["threshold"] = self.pick([0.25, 0.5])
    if self.chance(3):
      kw["temperature"] = 4.0
    if self.chance(3):
      kw["use_real_sigmoid"] = False
    return {"q": "stochastic_ternary", "kw": kw}

  def q_bernoulli(self, role):
    kw = {"alpha": self.pick([None, 1.0, "auto"])}
    spec = {"q": "bernoulli", "kw": kw}
    if self.take_lossy():
      spec["lossy"] = {"temperature": 4.0, "use_real_sigmoid": False}
    return spec

  def q_relu(self, role):
    bits = self.i(2, 8)
    kw = {"bits": bits, "integer": self.i(0, min(3, bits))}
    if self.chance(3):
      kw["negative_slope"] = self.pick([0.25, 0.125])
    if self.chance(5):
      kw["use_sigmoid"] = 1
    if self.chance(6):
      kw["use_stochastic_rounding"] = True
    if self.chance(5):
      kw["relu_upper_bound"] = self.pick([1.0, 2.0, 6.0])
    if self.chance(8):
      kw["qnoise_factor"] = 0.5
    return {"q": "quantized_relu", "kw": kw}

  def q_ulaw(self, role):
    bits = self.i(2, 8)
    kw = {"bits": bits, "integer": self.i(0, 2), "symmetric": self.pick([0, 1])}
    if self.b():
      kw["u"] = self.pick([255.0, 15.0])
    return {"q": "quantized_ulaw", "kw": kw}

  def q_tanh(self, role):
    kw = {"bits": self.i(2, 8)}
    if self.chance(3):
      kw["symmetric"] = True
    if self.chance(3):
      kw["use_real_tanh"] = True
    if self.chance(6):
      kw["use_stochastic_rounding"] = True
    return {"q": "quantized_tanh", "kw": kw}

  def q_sigmoid(self, role):
    kw = {"bits": self.i(2, 8)}
    if self.chance(3):
      kw["symmetric"] = True
    if self.chance(3):
      kw["use_real_sigmoid"] = True
    if self.chance(6):
      kw["use_stochastic_rounding"] = True
    return {"q": "quantized_sigmoid", "kw": kw}

  def q_hswish(self, role):
    bits = self.i(3, 8)
    kw = {"bits": bits, "integer": self.i(0, 2)}
    if self.b():
      kw["relu_shift"] = 3
      kw["relu_upper_bound"] = 6
    return {"q": "quantized_hswish", "kw": kw}

  WEIGHT_STRINGS = ["quantized_bits(4,0,1)", "quantized_bits(6,2,1,alpha=1.0)",
                    "quantized_po2(4)", "ternary", "binary(alpha=1.0)",
                    "quantized_bits(3,0,alpha='auto')",
                    "quantized_po2(4,max_value=2)", "stochastic_ternary",
                    "quantized_bits(bits=5,integer=1,keep_negative=False)"]
  ACT_STRINGS = ["quantized_relu(4,1)", "quantized_tanh(5)", "relu", "linear",
                 "quantized_bits(6,2,1)", "quantized_sigmoid(4)", "binary",
                 "ternary(alpha=1.0)", "quantized_relu_po2(4)", "hard_sigmoid",
                 "quantized_ulaw(6,1)", "quantized_relu(6,2,negative_slope=0.25)",
                 "tanh", "binary_tanh", "quantized_relu(4,1,use_sigmoid=1)"]

  def wq(self, allow_none=True, kernel=True):
    """Quantizer for a weight tensor."""
    if self.profile == "c14":
      k = self.i(0, 11)
      if k == 0 and allow_none:
        return None
      if k <= 5:
        return self.q_bits("weight")
      if k <= 7:
        return self.q_po2("weight")
      if k == 8:
        return self.q_relu_po2("weight")
      if k == 9:
        return self.q_binary("weight")
      if k == 10:
        return self.q_ternary("weight")
      return {"s": self.pick(["quantized_bits(4,0,1)", "quantized_po2(4)",
                              "quantized_bits(6,2,1,alpha=1.0)",
                              "quantized_relu_po2(4,2)", "ternary(alpha=1.0)",
                              "quantized_bits(5,1,1,alpha='auto_po2')"])}
    k = self.i(0, 15)
    if k == 0 and allow_none:
      return None
    if k <= 4:
      return self.q_bits("weight")
    if k == 5:
      return self.q_po2("weight")
    if k == 6:
      return self.q_relu_po2("weight")
    if k == 7:
      return self.q_binary("weight")
    if k == 8:
      return self.q_ternary("weight")
    if k == 9:
      return self.q_stochastic_ternary("weight")
    if k == 10:
      return self.q_stochastic_binary("weight")
    if k == 11:
      return self.q_linear("weight")
    if k == 12:
      return self.q_bernoulli("weight")
    if k == 13:
      return self.q_ulaw("weight")
    return {"s": self.pick(self.WEIGHT_STRINGS)}

  def aq(self, allow_none=True, strings=True, hswish=True):
    """Quantizer / activation for an activation slot."""
    if self.profile == "c14":
      k = self.i(0, 5)
      if k == 0 and allow_none:
        return None
      if k <= 2:
        b = self.i(3, 8)
        return {"q": "quantized_relu", "kw": {"bits": b, "integer": self.i(0, 2)}}
      if k == 3:
        b = self.i(3, 8)
        return {"q": "quantized_bits",
                "kw": {"bits": b, "integer": self.i(0, 2), "symmetric": 1,
                       "alpha": 1.0}}
      if k == 4:
        return {"q": "quantized_tanh", "kw": {"bits": self.i(3, 8)}}
      if not strings:
        return {"s": "quantized_relu(4,1)"}
      return {"s": self.pick(["quantized_relu(4,1)", "relu",
                              "quantized_bits(6,2,1)"])}
    k = self.i(0, 17)
    if k == 0 and allow_none:
      return None
    if k <= 3:
      return self.q_relu("act")
    if k <= 5:
      return self.q_bits("act")
    if k == 6:
      return self.q_tanh("act")
    if k == 7:
      return self.q_sigmoid("act")
    if k == 8:
      return self.q_ulaw("act")
    if k == 9:
      return self.q_relu_po2("act")
    if k == 10:
      return self.q_po2("act")
    if k == 11:
      return self.q_binary("act")
    if k == 12:
      return self.q_ternary("act")
    if k == 13:
      return self.q_linear("act")
    if k == 14 and hswish and self.chance(4):
      return self.q_hswish("act")
    if k == 15:
      return self.pick([self.q_bernoulli, self.q_stochastic_binary,
                        self.q_stochastic_ternary])("act")
    if strings:
      return {"s": self.pick(self.ACT_STRINGS)}
    return self.q_relu("act")

  # -- layers; every method returns (layerdesc, output shape)
  def _conv_geom(self, n_spatial, spatial, causal=False):
    ks, st_, dl = [], [], []
    pads = ["valid", "same"] + (["causal"] if causal else [])
    padding = self.pick(pads)
    strided = self.chance(3)
    dilated = (not strided) and self.chance(4)
    out = []
    for d in range(n_spatial):
      s = spatial[d]
      k = self.i(1, min(3, s))
      stride = self.i(2, 3) if strided else 1
      dil = 1
      if dilated and padding != "valid":
        dil = 2
      elif dilated and (k - 1) * 2 + 1 <= s:
        dil = 2
      ks.append(k)
      st_.append(stride)
      dl.append(dil)
      eff = (k - 1) * dil + 1
      if padding == "valid":
        out.append((s - eff) // stride + 1)
      else:
        out.append(-(-s // stride))
    return ks, st_, dl, padding, out

  def draw_mask(self, kw, ks):
    """"Optional mask for kernel weights": any (h, w) array the kernel is
    multiplied by - 0/1 patterns, fractional and large weights, int / bool."""
    kind = self.pick(["binary", "frac", "frac", "big", "int", "bool", "float64"])
    if kind in ("binary", "bool"):
      vals = [0, 1]
    elif kind in ("frac", "float64"):
      vals = [0.0, 0.25, 0.5, 1.0, 0.75, 1.5]
    elif kind == "big":
      vals = [0.0, 1.0, 130.0, 300.0, 2.5]
    else:
      vals = [0, 1, 2, 3, 200]
    kw["mask"] = [[self.pick(vals) for _ in range(ks[1])] for _ in range(ks[0])]
    if kind in ("int", "bool", "float64"):
      kw["mask_dtype"] = {"int": "int32", "bool": "bool", "float64": "float64"}[kind]

  def l_qconv2d(self, shape, src, cls="QConv2D"):
    h, w, c = shape
    ks, st_, dl, padding, out = self._conv_geom(2, [h, w])
    filters = self.i(1, 4)
    kw = {"filters": filters, "kernel_size": ks, "strides": st_,
          "padding": padding, "dilation_rate": dl, "use_bias": self.b()}
    q = {"kernel_quantizer": self.wq(), "bias_quantizer": self.wq(kernel=False),
         "activation": self.aq()}
    if cls == "QConv2D" and self.chance(4):
      self.draw_mask(kw, ks)
    if cls == "QConv2DBatchnorm":
      kw["folding_mode"] = self.pick(["ema_stats_folding", "batch_stats_folding"])
      kw["use_bias"] = self.b()
      if self.chance(3):
        kw["ema_freeze_delay"] = self.i(1, 50)
      if self.chance(3):
        kw["epsilon"] = 0.01
      if self.chance(4):
        kw["scale"] = False
      if self.chance(4):
        kw["center"] = False
    ld = {"name": self.name(cls), "cls": cls, "in": [src], "kw": kw, "q": q}
    return ld, [out[0], out[1], filters]

  def l_qdwconv2d(self, shape, src, cls="QDepthwiseConv2D"):
    h, w, c = shape
    ks, st_, dl, padding, out = self._conv_geom(2, [h, w])
    dm = self.i(1, 3)
    # DepthwiseConv2D wants equal strides in both dimensions
    st_ = [st_[0], st_[0]]
    if padding == "valid":
      out = [(h - ((ks[0] - 1) * dl[0] + 1)) // st_[0] + 1,
             (w - ((ks[1] - 1) * dl[1] + 1)) // st_[0] + 1]
    else:
      out = [-(-h // st_[0]), -(-w // st_[0])]
    kw = {"kernel_size": ks, "strides": st_, "padding": padding,
          "depth_multiplier": dm, "use_bias": self.b(), "dilation_rate": dl}
    q = {"depthwise_quantizer": self.wq(),
         "bias_quantizer": self.wq(kernel=False), "activation": self.aq()}
    if cls == "QDepthwiseConv2DBatchnorm":
      kw["folding_mode"] = self.pick(["ema_stats_folding", "batch_stats_folding"])
      if self.chance(3):
        kw["ema_freeze_delay"] = self.i(1, 50)
      if self.chance(4):
        kw["scale"] = False
      if self.chance(4):
        kw["center"] = False
    ld = {"name": self.name(cls), "cls": cls, "in": [src], "kw": kw, "q": q}
    return ld, [out[0], out[1], c * dm]

  def l_qsepconv2d(self, shape, src):
    h, w, c = shape
    ks, st_, dl, padding, out = self._conv_geom(2, [h, w])
    st_ = [st_[0], st_[0]]
    if padding == "valid":
      out = [(h - ((ks[0] - 1) * dl[0] + 1)) // st_[0] + 1,
             (w - ((ks[1] - 1) * dl[1] + 1)) // st_[0] + 1]
    else:
      out = [-(-h // st_[0]), -(-w // st_[0])]
    filters = self.i(1, 4)
    kw = {"filters": filters, "kernel_size": ks, "strides": st_,
          "padding": padding, "dilation_rate": dl,
          "depth_multiplier": self.i(1, 3), "use_bias": self.b()}
    q = {"depthwise_quantizer": self.wq(), "pointwise_quantizer": self.wq(),
         "bias_quantizer": self.wq(kernel=False), "activation": self.aq()}
    ld = {"name": self.name("QSeparableConv2D"), "cls": "QSeparableConv2D",
          "in": [src], "kw": kw, "q": q}
    return ld, [out[0], out[1], filters]

  def l_qavgpool(self, shape, src):
    h, w, c = shape
    p = [self.i(1, min(3, h)), self.i(1, min(3, w))]
    padding = self.pick(["valid", "same"])
    strides = None if self.b() else [self.i(1, 2), self.i(1, 2)]
    s = strides or p
    if padding == "valid":
      out = [(h - p[0]) // s[0] + 1, (w - p[1]) // s[1] + 1]
    else:
      out = [-(-h // s[0]), -(-w // s[1])]
    kw = {"pool_size": p, "strides": strides, "padding": padding}
    if p[0] == p[1] and self.b():
      kw["pool_size"] = p[0]            # the int form
    q = {"average_quantizer": self.pick(
        [None, "b", "b"]) and
         {"q": "quantized_bits",
          "kw": {"bits": self.i(3, 8), "integer": 0, "symmetric": self.pick([0, 1]),
                 "alpha": self.pick([None, 1.0])}},
         "activation": self.aq(strings=self.profile != "c14")}
    ld = {"name": self.name("QAveragePooling2D"), "cls": "QAveragePooling2D",
          "in": [src], "kw": kw, "q": q}
    return ld, [out[0], out[1], c]

  def l_qgap(self, shape, src):
    q = {"average_quantizer": self.pick(
        [None, "b", "b"]) and
         {"q": "quantized_bits",
          "kw": {"bits": self.i(3, 10), "integer": 0, "symmetric": self.pick([0, 1]),
                 "alpha": self.pick([None, 1.0])}},
         "activation": self.aq(strings=self.profile != "c14")}
    ld = {"name": self.name("QGlobalAveragePooling2D"),
          "cls": "QGlobalAveragePooling2D", "in": [src], "kw": {}, "q": q}
    return ld, [shape[-1]]

  def l_qbn(self, shape, src, fusable_profile=False):
    kw = {}
    if self.chance(4):
      kw["epsilon"] = self.pick([0.01, 1e-5])
    rate = 10 if self.profile == "c14" else 4
    if self.chance(rate):
      kw["center"] = False
    if self.chance(rate):
      kw["scale"] = False
    q = {}
    mode = self.i(0, 3)
    if mode == 0:
      pass                                  # library defaults (po2 family)
    elif mode == 1:                         # inverse quantizer form
      q["gamma_quantizer"] = None
      q["variance_quantizer"] = None
      q["inverse_quantizer"] = self.pick([
          {"q": "quantized_bits", "kw": {"bits": 8, "integer": 0, "symmetric": 1,
                                         "alpha": "auto_po2"}},
          {"q": "quantized_bits", "kw": {"bits": self.i(4, 8), "integer": self.i(0, 2),
                                         "symmetric": 1, "alpha": 1.0}},
          {"q": "quantized_po2", "kw": {"bits": self.i(3, 6)}}])
      q["beta_quantizer"] = self.wq(kernel=False)
      q["mean_quantizer"] = self.wq(kernel=False)
    elif mode == 2:                         # no quantizers at all
      for s in ["gamma_quantizer", "beta_quantizer", "mean_quantizer",
                "variance_quantizer"]:
        q[s] = None
    else:
      q["gamma_quantizer"] = self.wq(kernel=False)
      q["beta_quantizer"] = self.wq(kernel=False)
      q["mean_quantizer"] = self.wq(kernel=False)
      q["variance_quantizer"] = self.pick([
          None,
          {"q": "quantized_relu_po2", "kw": {"bits": self.i(3, 6),
                                             "quadratic_approximation": True}},
          {"q": "quantized_relu", "kw": {"bits": self.i(4, 8), "integer": self.i(1, 3)}},
          {"s": "quantized_relu_po2(6,4)"}])
    ld = {"name": self.name("QBatchNormalization"), "cls": "QBatchNormalization",
          "in": [src], "kw": kw, "q": q}
    return ld, list(shape)

  def l_qact(self, shape, src):
    ld = {"name": self.name("QActivation"), "cls": "QActivation", "in": [src],
          "kw": {}, "q": {"activation": self.aq(allow_none=False)}}
    if ld["q"]["activation"].get("s") in ("linear",):
      ld["q"]["activation"] = {"s": "quantized_relu(4,1)"}
    return ld, list(shape)

  def l_qadaptive(self, shape, src):
    act = self.pick(["quantized_bits", "quantized_relu"])
    kw = {"activation": act, "total_bits": self.i(2, 8)}
    if self.b():
      kw["symmetric"] = self.b()
    if self.chance(3):
      kw["per_channel"] = True
    if self.chance(3):
      kw["po2_rounding"] = True
    if act == "quantized_relu" and self.chance(3):
      kw["relu_neg_slope"] = self.pick([0.25, 0.125])
    if act == "quantized_relu" and self.chance(6):
      kw["relu_upper_bound"] = self.pick([0.5, 1.0, 6.0])
    if self.chance(3):
      kw["quantization_delay"] = self.i(1, 100)
    if self.chance(3):
      kw["ema_freeze_delay"] = self.i(1, 100)
    if self.chance(3):
      kw["ema_decay"] = self.pick([0.99, 0.9, 0.5])
    if self.chance(3):
      kw["current_step"] = self.i(0, 20)
    ld = {"name": self.name("QAdaptiveActivation"), "cls": "QAdaptiveActivation",
          "in": [src], "kw": kw, "q": {}}
    return ld, list(shape)

  def l_qscaleshift(self, shape, src):
    kw = {"use_bias": self.b()}
    q = {"weight_quantizer": self.wq(), "bias_quantizer": self.wq(),
         "activation": self.aq(strings=False)}
    ld = {"name": self.name("QScaleShift"), "cls": "QScaleShift", "in": [src],
          "kw": kw, "q": q}
    return ld, list(shape)

  def l_qdense(self, shape, src):
    units = self.i(1, 5)
    kw = {"units": units, "use_bias": self.b()}
    q = {"kernel_quantizer": self.wq(), "bias_quantizer": self.wq(kernel=False),
         "activation": self.aq()}
    ld = {"name": self.name("QDense"), "cls": "QDense", "in": [src], "kw": kw,
          "q": q}
    return ld, list(shape[:-1]) + [units]

  def l_qconv1d(self, shape, src):
    t, c = shape
    ks, st_, dl, padding, out = self._conv_geom(1, [t], causal=True)
    filters = self.i(1, 4)
    kw = {"filters": filters, "kernel_size": ks[0], "strides": st_[0],
          "padding": padding, "dilation_rate": dl[0], "use_bias": self.b()}
    q = {"kernel_quantizer": self.wq(), "bias_quantizer": self.wq(kernel=False),
         "activation": self.aq()}
    ld = {"name": self.name("QConv1D"), "cls": "QConv1D", "in": [src], "kw": kw,
          "q": q}
    return ld, [out[0], filters]

  def l_qsepconv1d(self, shape, src):
    t, c = shape
    ks, st_, dl, padding, out = self._conv_geom(1, [t], causal=True)
    filters = self.i(1, 4)
    kw = {"filters": filters, "kernel_size": ks[0], "strides": st_[0],
          "padding": padding, "dilation_rate": dl[0],
          "depth_multiplier": self.i(1, 3), "use_bias": self.b()}
    q = {"depthwise_quantizer": self.wq(), "pointwise_quantizer": self.wq(),
         "bias_quantizer": self.wq(kernel=False), "activation": self.aq()}
    ld = {"name": self.name("QSeparableConv1D"), "cls": "QSeparableConv1D",
          "in": [src], "kw": kw, "q": q}
    return ld, [out[0], filters]

  def l_rnn(self, shape, src, return_sequences, cls=None, named=True):
    t, c = shape
    cls = cls or self.pick(["QSimpleRNN", "QLSTM", "QGRU"])
    units = self.i(1, 3)
    kw = {"units": units, "use_bias": self.b(),
          "return_sequences": return_sequences}
    if self.chance(4):
      kw["go_backwards"] = True
    if self.chance(4):
      kw["unroll"] = True
    if cls == "QGRU" and self.chance(2):
      kw["reset_after"] = True
    if cls == "QLSTM" and self.chance(3):
      kw["unit_forget_bias"] = False
    if cls != "QSimpleRNN" and self.chance(3):
      kw["implementation"] = 2
    q = {"kernel_quantizer": self.wq(),
         "recurrent_quantizer": self.wq(),
         "bias_quantizer": self.wq(kernel=False),
         "state_quantizer": self.pick([None, "x"]) and self.q_bits("act")}
    a = self.aq(allow_none=False, hswish=False)
    q["activation"] = a
    if cls != "QSimpleRNN":
      q["recurrent_activation"] = self.pick([
          {"s": "hard_sigmoid"}, {"s": "quantized_sigmoid(5)"},
          {"q": "quantized_sigmoid", "kw": {"bits": self.i(3, 8)}},
          {"s": "quantized_relu(4,1)"}])
    ld = {"name": self.name(cls) if named else "inner_" + cls.lower(),
          "cls": cls, "in": [src], "kw": kw, "q": q}
    return ld, ([t, units] if return_sequences else [units])

  def l_qbidir(self, shape, src, return_sequences):
    inner, oshape = self.l_rnn(shape, src, return_sequences, named=False)
    inner["kw"].pop("go_backwards", None)
    mm = self.pick(["concat", "sum", "mul", "ave"])
    if mm == "concat":
      oshape = oshape[:-1] + [oshape[-1] * 2]
    name = self.name("QBidirectional")
    inner["name"] = name + "_inner"
    ld = {"name": name, "cls": "QBidirectional", "in": [src],
          "kw": {"merge_mode": mm}, "q": {}, "inner": inner}
    return ld, oshape

  # -- library classes nested in stock Keras wrapper layers (profile c13): the
  # cell classes of the custom-object table are used through the generic
  # tf.keras.layers.RNN layer (one cell or a stack of cells), quantized
  # recurrent layers through the stock Bidirectional wrapper, and per-step
  # layers through TimeDistributed.  All of them are serialized through the
  # nested object's own get_config().
  _CELL_KW = ("units", "use_bias", "reset_after", "unit_forget_bias",
              "implementation")

  def cell(self, c_in, cls=None, stock_ok=False):
    """One cell description (library cell; in stacks rarely a stock cell)."""
    if stock_ok and self.chance(5):
      k = self.pick(["LSTMCell", "GRUCell", "SimpleRNNCell"])
      return {"cls": k, "kw": {"units": self.i(1, 3)}, "q": {}}
    ld, _ = self.l_rnn([1, c_in], "in", True, cls=cls, named=False)
    kw = dict((k, v) for k, v in ld["kw"].items() if k in self._CELL_KW)
    return {"cls": ld["cls"] + "Cell", "kw": kw, "q": ld["q"]}

  def l_cellrnn(self, shape, src, return_sequences, named=True):
    t, c = shape
    n = 1 if not self.chance(3) else self.i(2, 3)
    cells = []
    for _ in range(n):
      cd = self.cell(c, stock_ok=n > 1)
      cells.append(cd)
      c = cd["kw"]["units"]
    kw = {"return_sequences": return_sequences}
    if n == 1 and self.chance(4):
      kw["as_list"] = True           # RNN([cell]): a stack of one
    if self.chance(4):
      kw["go_backwards"] = True
    if self.chance(4):
      kw["unroll"] = True
    ld = {"name": self.name("RNN") if named else "inner_rnn", "cls": "RNN",
          "in": [src], "kw": kw, "q": {}, "cells": cells}
    return ld, ([t, c] if return_sequences else [c])

  def l_stock_bidir(self, shape, src, return_sequences):
    """Stock Keras Bidirectional around a quantized recurrent layer or around
    RNN(quantized cell)."""
    if self.b():
      inner, oshape = self.l_rnn(shape, src, return_sequences, named=False)
    else:
      inner, oshape = self.l_cellrnn(shape, src, return_sequences, named=False)
    inner["kw"].pop("go_backwards", None)
    mm = self.pick(["concat", "sum", "mul", "ave"])
    if mm == "concat":
      oshape = oshape[:-1] + [oshape[-1] * 2]
    name = self.name("Bidirectional")
    inner["name"] = name + "_inner"
    ld = {"name": name, "cls": "Bidirectional", "in": [src],
          "kw": {"merge_mode": mm}, "q": {}, "inner": inner}
    return ld, oshape

  def l_timedist(self, shape, src):
    """TimeDistributed(quantized layer) over the first non-batch axis."""
    step = list(shape[1:])
    if len(step) == 2:
      k = self.pick(["conv1d", "sep1d", "dense"])
    else:
      k = self.pick(["dense", "dense", "act", "bn", "scaleshift"])
    inner, osh = {"conv1d": self.l_qconv1d, "sep1d": self.l_qsepconv1d,
                  "dense": self.l_qdense, "act": self.l_qact, "bn": self.l_qbn,
                  "scaleshift": self.l_qscaleshift}[k](step, src)
    name = self.name("TimeDistributed")
    inner["name"] = name + "_inner"
    ld = {"name": name, "cls": "TimeDistributed", "in": [src], "kw": {},
          "q": {}, "inner": inner}
    return ld, [shape[0]] + list(osh)

  KERAS_ACTS = ["hard_sigmoid", "sigmoid", "tanh", "relu", "softmax", "linear",
                "hard_sigmoid"]

  def l_stock(self, shape, src):
    """Stock Keras layers inside the quantized model, with built-in
    activations whose names collide with library functions / table names."""
    rank = len(shape)
    opts = ["ReLU", "Dropout", "Activation", "Activation", "BatchNormalization",
            "Dense", "Dense"]
    if rank == 3:
      opts += ["Conv2D", "Conv2D"]
    if rank == 2:
      opts += ["LSTM", "GRU"]
    k = self.pick(opts)
    kw, osh = {}, list(shape)
    if k == "Dropout":
      kw = {"rate": 0.25}
    elif k == "Activation":
      kw = {"activation": self.pick(self.KERAS_ACTS)}
    elif k == "Dense":
      kw = {"units": self.i(1, 4), "activation": self.pick(self.KERAS_ACTS),
            "use_bias": self.b()}
      osh = list(shape[:-1]) + [kw["units"]]
    elif k == "Conv2D":
      kw = {"filters": self.i(1, 3), "kernel_size": [1, 1], "padding": "same",
            "activation": self.pick(self.KERAS_ACTS)}
      osh = [shape[0], shape[1], kw["filters"]]
    elif k in ("LSTM", "GRU"):
      kw = {"units": self.i(1, 3), "return_sequences": True,
            "activation": self.pick(["tanh", "relu", "sigmoid"]),
            "recurrent_activation": self.pick(["hard_sigmoid", "sigmoid"])}
      osh = [shape[0], kw["units"]]
    return {"name": self.name(k), "cls": k, "in": [src], "kw": kw, "q": {}}, osh


_CONV_EXTRAS = {"kernel_range": 1.5, "bias_range": 2.5, "kernel_regularizer": "l2",
                "bias_regularizer": "l1", "activity_regularizer": "l1",
                "kernel_constraint": "non_neg", "bias_constraint": "max_norm",
                "kernel_initializer": "glorot_uniform", "bias_initializer": "ones"}
_DW_EXTRAS = {"depthwise_range": 1.5, "bias_range": 2.5,
              "depthwise_regularizer": "l2", "depthwise_constraint": "non_neg",
              "depthwise_initializer": "glorot_uniform", "bias_initializer": "ones"}
_SEP_EXTRAS = {"depthwise_regularizer": "l2", "pointwise_regularizer": "l1",
               "depthwise_constraint": "non_neg", "pointwise_constraint": "max_norm",
               "depthwise_initializer": "he_normal", "bias_initializer": "ones"}
_RNN_EXTRAS = {"dropout": 0.25, "recurrent_dropout": 0.5, "kernel_regularizer": "l2",
               "recurrent_regularizer": "l1", "recurrent_constraint": "non_neg",
               "recurrent_initializer": "glorot_uniform", "bias_initializer": "ones"}
# plain constructor options whose values have to survive a round trip even
# though most of them do not act on inference (type / precision / exceptions)
LAYER_EXTRAS = {
    "QDense": _CONV_EXTRAS, "QConv1D": _CONV_EXTRAS, "QConv2D": _CONV_EXTRAS,
    "QDepthwiseConv2D": _DW_EXTRAS,
    "QSeparableConv1D": _SEP_EXTRAS, "QSeparableConv2D": _SEP_EXTRAS,
    "QSimpleRNN": _RNN_EXTRAS, "QLSTM": _RNN_EXTRAS, "QGRU": _RNN_EXTRAS,
    "QBatchNormalization": {"momentum": 0.9, "beta_range": 1.5, "gamma_range": 2.0,
                            "gamma_regularizer": "l2", "beta_constraint": "non_neg",
                            "beta_initializer": "ones"},
    "QConv2DBatchnorm": {"momentum": 0.9, "kernel_regularizer": "l2",
                         "bias_initializer": "ones", "gamma_regularizer": "l1"},
    "QDepthwiseConv2DBatchnorm": {"momentum": 0.9, "depthwise_regularizer": "l2",
                                  "beta_initializer": "ones"},
    "QScaleShift": {"weight_regularizer": "l2", "bias_regularizer": "l1",
                    "weight_initializer": "ones"},
}


def _merge(g, layers, shapes, cur, prev_names):
  """Optionally merges the current tensor with an earlier one of equal shape."""
  cands = [n for n in prev_names if n != cur and shapes[n] == shapes[cur]]
  if not cands or not g.chance(3):
    return cur
  other = cands[-1] if g.b() else g.pick(cands)
  k = g.pick(["Add", "Concatenate", "Multiply"])
  name = g.name(k)
  layers.append({"name": name, "cls": k, "in": [other, cur], "kw": {}, "q": {}})
  sh = list(shapes[cur])
  if k == "Concatenate":
    sh[-1] = sh[-1] * 2
  shapes[name] = sh
  return name


def model_strategy(profile="c13", rich=False, family=None):
  """Strategy for model descriptions."""
  st = _st()

  @st.composite
  def _s(draw):
    g = Gen(draw, profile, rich)
    if profile == "c13" and g.chance(5):
      g.lossy_left = 1
    fam = family or g.pick(["image", "image", "seq", "vec"])
    layers, shapes = [], {}
    maxbody = 4 if rich else 2
    if fam == "image":
      shapes["in"] = [g.i(3, 7), g.i(3, 7), g.i(1, 3)]
      cur = "in"
      nbody = g.i(1, maxbody)
      for _ in range(nbody):
        sh = shapes[cur]
        if profile == "c14":
          opts = ["conv", "conv", "dw", "sep", "bn", "act", "pool", "fold",
                  "dwfold", "scaleshift"]
        else:
          opts = ["conv", "conv", "dw", "sep", "bn", "act", "pool", "fold",
                  "dwfold", "adaptive", "scaleshift", "stock", "stock", "td"]
        k = g.pick(opts)
        if k == "conv":
          ld, osh = g.l_qconv2d(sh, cur)
        elif k == "dw":
          ld, osh = g.l_qdwconv2d(sh, cur)
        elif k == "sep":
          ld, osh = g.l_qsepconv2d(sh, cur)
        elif k == "fold":
          ld, osh = g.l_qconv2d(sh, cur, cls="QConv2DBatchnorm")
        elif k == "dwfold":
          ld, osh = g.l_qdwconv2d(sh, cur, cls="QDepthwiseConv2DBatchnorm")
        elif k == "bn":
          ld, osh = g.l_qbn(sh, cur)
        elif k == "act":
          ld, osh = g.l_qact(sh, cur)
        elif k == "pool":
          ld, osh = g.l_qavgpool(sh, cur)
        elif k == "adaptive":
          ld, osh = g.l_qadaptive(sh, cur)
        elif k == "scaleshift":
          ld, osh = g.l_qscaleshift(sh, cur)
        elif k == "td":
          ld, osh = g.l_timedist(sh, cur)
        else:
          ld, osh = g.l_stock(sh, cur)
        layers.append(ld)
        shapes[ld["name"]] = osh
        prev = [l["name"] for l in layers[:-1]] + ["in"]
        cur = ld["name"]
        # conv -> QBN placement (fusable unless the conv output is merged)
        if k in ("conv", "dw") and g.chance(2):
          bn, bsh = g.l_qbn(osh, cur)
          layers.append(bn)
          shapes[bn["name"]] = bsh
          cur = bn["name"]
          prev = [l["name"] for l in layers[:-1]] + ["in"]
        cur = _merge(g, layers, shapes, cur, prev)
      sh = shapes[cur]
      if g.b():
        ld, osh = g.l_qgap(sh, cur)
      else:
        ld, osh = ({"name": g.name("Flatten"), "cls": "Flatten", "in": [cur],
                    "kw": {}, "q": {}}, [sh[0] * sh[1] * sh[2]])
      layers.append(ld)
      shapes[ld["name"]] = osh
      cur = ld["name"]
      if g.b():
        ld, osh = g.l_qdense(osh, cur)
        layers.append(ld)
        shapes[ld["name"]] = osh
        cur = ld["name"]
    elif fam == "seq":
      shapes["in"] = [g.i(3, 5), g.i(1, 3)]
      cur = "in"
      nbody = g.i(0, maxbody - 1)
      for _ in range(nbody):
        sh = shapes[cur]
        k = g.pick(["conv1d", "sep1d", "rnn", "bidir", "bn", "act", "dense",
                    "scaleshift"] + (["stock", "cellrnn", "cellrnn", "sbidir", "td"]
                                     if profile == "c13" else []))
        if k == "conv1d":
          ld, osh = g.l_qconv1d(sh, cur)
        elif k == "sep1d":
          ld, osh = g.l_qsepconv1d(sh, cur)
        elif k == "rnn":
          ld, osh = g.l_rnn(sh, cur, True)
        elif k == "bidir":
          ld, osh = g.l_qbidir(sh, cur, True)
        elif k == "bn":
          ld, osh = g.l_qbn(sh, cur)
        elif k == "act":
          ld, osh = g.l_qact(sh, cur)
        elif k == "dense":
          ld, osh = g.l_qdense(sh, cur)
        elif k == "stock":
          ld, osh = g.l_stock(sh, cur)
        elif k == "cellrnn":
          ld, osh = g.l_cellrnn(sh, cur, True)
        elif k == "sbidir":
          ld, osh = g.l_stock_bidir(sh, cur, True)
        elif k == "td":
          ld, osh = g.l_timedist(sh, cur)
        else:
          ld, osh = g.l_qscaleshift(sh, cur)
        layers.append(ld)
        shapes[ld["name"]] = osh
        prev = [l["name"] for l in layers[:-1]] + ["in"]
        cur = _merge(g, layers, shapes, ld["name"], prev)
      sh = shapes[cur]
      k = g.pick(["rnn", "rnn", "bidir", "flatten"] +
                 (["cellrnn", "cellrnn", "sbidir"] if profile == "c13" else []))
      if k == "rnn":
        ld, osh = g.l_rnn(sh, cur, False)
      elif k == "bidir":
        ld, osh = g.l_qbidir(sh, cur, False)
      elif k == "cellrnn":
        ld, osh = g.l_cellrnn(sh, cur, False)
      elif k == "sbidir":
        ld, osh = g.l_stock_bidir(sh, cur, False)
      else:
        ld, osh = ({"name": g.name("Flatten"), "cls": "Flatten", "in": [cur],
                    "kw": {}, "q": {}}, [sh[0] * sh[1]])
      layers.append(ld)
      shapes[ld["name"]] = osh
      cur = ld["name"]
      if g.b():
        ld, osh = g.l_qdense(osh, cur)
        layers.append(ld)
        shapes[ld["name"]] = osh
        cur = ld["name"]
    else:
      shapes["in"] = [g.i(1, 6)]
      cur = "in"
      nbody = g.i(1, maxbody)
      for _ in range(nbody):
        sh = shapes[cur]
        opts = ["dense", "dense", "bn", "act", "scaleshift"]
        if profile != "c14":
          opts += ["adaptive", "stock", "stock"]
        k = g.pick(opts)
        if k == "dense":
          ld, osh = g.l_qdense(sh, cur)
        elif k == "bn":
          ld, osh = g.l_qbn(sh, cur)
        elif k == "act":
          ld, osh = g.l_qact(sh, cur)
        elif k == "adaptive":
          ld, osh = g.l_qadaptive(sh, cur)
        elif k == "scaleshift":
          ld, osh = g.l_qscaleshift(sh, cur)
        else:
          ld, osh = g.l_stock(sh, cur)
        layers.append(ld)
        shapes[ld["name"]] = osh
        prev = [l["name"] for l in layers[:-1]] + ["in"]
        cur = _merge(g, layers, shapes, ld["name"], prev)
    if profile == "c13":
      # frozen layers: state without trainable variables
      for ld in layers:
        if ld["cls"].startswith("Q") and ld["cls"] not in (
            "QActivation", "QAdaptiveActivation", "QAveragePooling2D",
            "QGlobalAveragePooling2D") and g.chance(6):
          ld["kw"]["trainable"] = False
      for ld in layers:
        ex = LAYER_EXTRAS.get(ld["cls"])
        if ex and g.chance(4):
          for key in sorted(ex):
            if g.chance(3):
              ld["kw"][key] = ex[key]
    return {"input": shapes["in"], "layers": layers, "out": cur,
            "family": fam,
            "wseed": g.i(0, 10 ** 6), "wscale": g.pick([1.0, 0.25, 3.0]),
            "xseed": g.i(0, 10 ** 6)}

  return _s()


def freeze_chain_strategy():
  """Sequential models inside the documented support envelope of
  clone_model_and_freeze_auto_po2_scale: QConv2D / QDepthwiseConv2D / QDense
  with at most one auto_po2 quantizer (the kernel's), QBatchNormalization whose
  only auto_po2 quantizer is the inverse quantizer, QActivation, Flatten."""
  st = _st()

  @st.composite
  def _s(draw):
    g = Gen(draw, "c14", False)

    def kq():
      bits = g.i(3, 8)
      k = g.i(0, 5)
      if k <= 2:
        return {"q": "quantized_bits",
                "kw": {"bits": bits, "integer": g.i(0, min(3, bits - 1)),
                       "symmetric": 1, "alpha": "auto_po2"}}
      if k == 3:
        return {"q": "quantized_bits",
                "kw": {"bits": bits, "integer": g.i(0, min(3, bits - 1)),
                       "symmetric": g.pick([0, 1]), "alpha": 1.0}}
      if k == 4:
        return g.q_po2("weight")
      return {"q": "quantized_bits",
              "kw": {"bits": bits, "integer": g.i(0, 2), "symmetric": 1,
                     "alpha": None}}       # kernel slot: becomes auto_po2

    def bq():
      if g.chance(3):
        return None
      bits = g.i(3, 8)
      return {"q": "quantized_bits",
              "kw": {"bits": bits, "integer": g.i(0, min(3, bits - 1)),
                     "symmetric": g.pick([0, 1]), "alpha": g.pick([None, 1.0])}}

    layers, shapes = [], {}
    shapes["in"] = [g.i(3, 6), g.i(3, 6), g.i(1, 2)]
    cur = "in"
    for _ in range(g.i(1, 3)):
      sh = shapes[cur]
      k = g.pick(["conv", "conv", "dw", "act"])
      if k == "conv":
        ld, osh = g.l_qconv2d(sh, cur)
        ld["q"] = {"kernel_quantizer": kq(), "bias_quantizer": bq(),
                   "activation": None}
        ld["kw"].pop("mask_dtype", None)
        if not g.chance(3):
          ld["kw"].pop("mask", None)
        else:
          g.draw_mask(ld["kw"], ld["kw"]["kernel_size"])
      elif k == "dw":
        ld, osh = g.l_qdwconv2d(sh, cur)
        ld["q"] = {"depthwise_quantizer": kq(), "bias_quantizer": bq(),
                   "activation": None}
      else:
        ld, osh = g.l_qact(sh, cur)
      layers.append(ld)
      shapes[ld["name"]] = osh
      cur = ld["name"]
      if k in ("conv", "dw") and g.b():
        bn = {"name": g.name("QBatchNormalization"), "cls": "QBatchNormalization",
              "in": [cur], "kw": {}, "q": {}}
        mode = g.i(0, 2)
        if mode == 0:
          bn["q"] = {"gamma_quantizer": None, "variance_quantizer": None,
                     "beta_quantizer": bq(), "mean_quantizer": bq(),
                     "inverse_quantizer": {
                         "q": "quantized_bits",
                         "kw": {"bits": g.i(4, 8), "integer": g.i(0, 2),
                                "symmetric": 1, "alpha": "auto_po2"}}}
        elif mode == 1:
          bn["q"] = {"gamma_quantizer": None, "variance_quantizer": None,
                     "beta_quantizer": bq(), "mean_quantizer": bq(),
                     "inverse_quantizer": {
                         "q": "quantized_bits",
                         "kw": {"bits": g.i(4, 8), "integer": g.i(0, 2),
                                "symmetric": 1, "alpha": 1.0}}}
        layers.append(bn)
        shapes[bn["name"]] = osh
        cur = bn["name"]
    sh = shapes[cur]
    fl = {"name": g.name("Flatten"), "cls": "Flatten", "in": [cur], "kw": {},
          "q": {}}
    layers.append(fl)
    units = g.i(1, 4)
    dn = {"name": g.name("QDense"), "cls": "QDense", "in": [fl["name"]],
          "kw": {"units": units, "use_bias": g.b()},
          "q": {"kernel_quantizer": kq(), "bias_quantizer": bq(),
                "activation": None}}
    layers.append(dn)
    return {"input": shapes["in"], "layers": layers, "out": dn["name"],
            "family": "chain", "wseed": g.i(0, 10 ** 6),
            "wscale": g.pick([1.0, 0.25, 3.0]), "xseed": g.i(0, 10 ** 6)}

  return _s()


# --------------------------------------------------------------------------
# deterministic canonical descriptions (coverage floor + regression set):
# every layer class once, with non-default values for the constructor
# arguments its get_config() has to carry.


def _qb(bits, integer, alpha=None, symmetric=1, **kw):
  d = {"bits": bits, "integer": integer, "symmetric": symmetric, "alpha": alpha}
  d.update(kw)
  return {"q": "quantized_bits", "kw": d}


def _desc(inp, layers, fam, seed):
  names = []
  prev = "in"
  out = []
  for k, (cls, kw, q) in enumerate(layers):
    extra = {}
    if isinstance(q, dict) and "__inner__" in q:
      q = dict(q)
      extra["inner"] = q.pop("__inner__")
    if isinstance(kw, dict) and "__in__" in kw:
      kw = dict(kw)
      ins = kw.pop("__in__")
    else:
      ins = [prev]
    name = "c%d_%s" % (k + 1, cls.lower())
    ld = {"name": name, "cls": cls, "in": ins, "kw": kw, "q": q}
    ld.update(extra)
    if "inner" in ld:
      ld["inner"] = dict(ld["inner"], name=name + "_inner")
    out.append(ld)
    names.append(name)
    prev = name
  return {"input": inp, "layers": out, "out": prev, "family": fam,
          "wseed": 1000 + seed, "wscale": 1.0, "xseed": 2000 + seed}


# kernels (multiples of 1/32) for which quantized_bits(3, i, 1, 'auto_po2') is not
# idempotent: the po2 scale refitted to q(w) differs from the one fitted to w
CONSTRUCTED_KERNELS = {"conv_3_1": [[[[3.3125, 0.1875, -2.9375]], [[-0.3125, -0.03125, 4.3125]]], [[[0.875, -0.71875, -2.6875]], [[-2.375, -4.15625, -4.625]]]], "dw_3_0": [[[[-0.28125], [1.90625], [-2.21875]], [[-0.875], [0.21875], [-0.4375]]], [[[0.1875], [0.09375], [-0.90625]], [[-0.84375], [-1.5], [-1.03125]]]], "dense_3_0": [[-0.28125, -0.21875], [-0.125, 0.0625], [-0.1875, -0.46875]]}


def canonical_models(profile):
  relu = {"q": "quantized_relu", "kw": {"bits": 4, "integer": 1}}
  po2 = {"q": "quantized_po2", "kw": {"bits": 4, "max_value": 2}}
  rpo2 = {"q": "quantized_relu_po2", "kw": {"bits": 4, "max_value": 2}}
  tern = {"q": "ternary", "kw": {"alpha": 1.0, "threshold": 0.5}}
  binr = {"q": "binary", "kw": {"alpha": 1.0}}
  auto = _qb(4, 0, "auto_po2")
  fx = _qb(5, 1, 1.0)
  fl = ("Flatten", {}, {})
  ms = []
  # image family
  ms.append(_desc([5, 5, 2], [
      ("QConv2D", {"filters": 3, "kernel_size": [2, 3], "strides": [1, 1],
                   "padding": "same", "dilation_rate": [2, 1], "use_bias": True,
                   "mask": [[0.25, 0, 1.5], [0.5, 1, 200.0]],
                   "kernel_range": 1.5, "bias_range": 2.5,
                   "kernel_regularizer": "l2", "bias_constraint": "max_norm"},
       {"kernel_quantizer": auto, "bias_quantizer": fx, "activation": relu}),
      ("QBatchNormalization", {"epsilon": 0.01}, {}),
      ("QAveragePooling2D", {"pool_size": [2, 1], "strides": [1, 2], "padding": "same"},
       {"average_quantizer": _qb(6, 0, None, 0), "activation": None}),
      ("QGlobalAveragePooling2D", {}, {"average_quantizer": _qb(8, 0, 1.0),
                                      "activation": _qb(6, 2, 1.0)}),
      ("QDense", {"units": 3, "use_bias": False},
       {"kernel_quantizer": po2, "bias_quantizer": None,
        "activation": {"s": "quantized_tanh(5)"}})], "image", 1))
  ms.append(_desc([6, 5, 2], [
      ("QDepthwiseConv2D", {"kernel_size": [2, 2], "strides": [2, 2], "padding": "same",
                            "depth_multiplier": 3, "use_bias": True,
                            "dilation_rate": [1, 1], "depthwise_range": 1.5},
       {"depthwise_quantizer": auto, "bias_quantizer": po2, "activation": None}),
      ("QBatchNormalization", {},
       {"gamma_quantizer": None, "variance_quantizer": None,
        "beta_quantizer": fx, "mean_quantizer": fx,
        "inverse_quantizer": _qb(8, 0, "auto_po2")}),
      ("QActivation", {}, {"activation": relu}),
      ("QSeparableConv2D", {"filters": 3, "kernel_size": [2, 1], "strides": [1, 1],
                            "padding": "valid", "dilation_rate": [1, 1],
                            "depth_multiplier": 2, "use_bias": True},
       {"depthwise_quantizer": fx, "pointwise_quantizer": tern,
        "bias_quantizer": _qb(4, 1, None), "activation": {"s": "quantized_relu(4,1)"}}),
      fl], "image", 2))
  ms.append(_desc([5, 4, 1], [
      ("QConv2DBatchnorm", {"filters": 2, "kernel_size": [2, 2], "strides": [1, 1],
                            "padding": "valid", "dilation_rate": [1, 1], "use_bias": True,
                            "folding_mode": "batch_stats_folding", "ema_freeze_delay": 7,
                            "epsilon": 0.01},
       {"kernel_quantizer": fx, "bias_quantizer": fx, "activation": relu}),
      ("QDepthwiseConv2DBatchnorm", {"kernel_size": [2, 2], "strides": [1, 1],
                                     "padding": "same", "depth_multiplier": 2,
                                     "use_bias": False, "dilation_rate": [1, 1],
                                     "folding_mode": "ema_stats_folding",
                                     "center": False},
       {"depthwise_quantizer": _qb(6, 2, 1.0), "bias_quantizer": fx,
        "activation": None}),
      fl], "image", 3))
  # residual / non-fusable placement
  ms.append(_desc([4, 4, 2], [
      ("QConv2D", {"filters": 2, "kernel_size": [1, 1], "strides": [1, 1],
                   "padding": "same", "dilation_rate": [1, 1], "use_bias": True,
                   "mask": [[3]], "mask_dtype": "int32"},
       {"kernel_quantizer": fx, "bias_quantizer": fx, "activation": None}),
      ("QBatchNormalization", {"momentum": 0.9}, {}),
      ("Add", {"__in__": ["c1_qconv2d", "c2_qbatchnormalization"]}, {}),
      ("QScaleShift", {"use_bias": True},
       {"weight_quantizer": fx, "bias_quantizer": fx, "activation": relu}),
      ("QAveragePooling2D", {"pool_size": [2, 2], "strides": None, "padding": "valid"},
       {"average_quantizer": None, "activation": None}),
      ("QGlobalAveragePooling2D", {}, {"average_quantizer": None, "activation": None})],
                  "image", 4))
  # sequence family
  rq = {"kernel_quantizer": fx, "recurrent_quantizer": _qb(4, 0, 1.0),
        "bias_quantizer": po2, "state_quantizer": _qb(5, 1, 1.0),
        "activation": {"s": "quantized_tanh(4)"}}
  rq2 = dict(rq, recurrent_activation={"s": "quantized_sigmoid(4)"})
  ms.append(_desc([4, 2], [
      ("QConv1D", {"filters": 3, "kernel_size": 2, "strides": 1, "padding": "causal",
                   "dilation_rate": 2, "use_bias": True},
       {"kernel_quantizer": auto, "bias_quantizer": fx, "activation": relu}),
      ("QSeparableConv1D", {"filters": 2, "kernel_size": 2, "strides": 1,
                            "padding": "same", "dilation_rate": 1,
                            "depth_multiplier": 2, "use_bias": True},
       {"depthwise_quantizer": fx, "pointwise_quantizer": po2, "bias_quantizer": fx,
        "activation": None}),
      ("QSimpleRNN", {"units": 2, "use_bias": True, "return_sequences": True,
                      "go_backwards": True}, rq)], "seq", 5))
  ms.append(_desc([3, 2], [
      ("QLSTM", {"units": 2, "use_bias": True, "return_sequences": True,
                 "unit_forget_bias": False, "implementation": 2}, rq2),
      ("QGRU", {"units": 2, "use_bias": False, "return_sequences": False,
                "reset_after": True}, dict(rq2, bias_quantizer=None))], "seq", 6))
  fine = {"kernel_quantizer": _qb(8, 1, 1.0), "recurrent_quantizer": _qb(8, 1, 1.0),
          "bias_quantizer": _qb(8, 1, 1.0), "state_quantizer": None,
          "activation": {"s": "quantized_tanh(8)"},
          "recurrent_activation": {"s": "quantized_sigmoid(8)"}}
  for seed, variants in ((14, [(True, True, False), (False, True, True)]),
                         (15, [(True, False, True), (False, False, False)])):
    lay = [("QGRU", {"__in__": ["in"], "units": 3, "use_bias": ub,
                     "return_sequences": False, "reset_after": ra},
            dict(fine, recurrent_quantizer=None) if norq else fine)
           for ra, ub, norq in variants]
    if seed == 15:
      lay.append(("QLSTM", {"__in__": ["in"], "units": 3, "use_bias": False,
                            "return_sequences": False}, dict(fine, bias_quantizer=po2)))
    d = _desc([4, 2], lay, "seq", seed)
    d["layers"].append({"name": "cat", "cls": "Concatenate",
                        "in": [l["name"] for l in d["layers"]], "kw": {}, "q": {}})
    d["out"] = "cat"
    ms.append(d)
  if profile == "c13":
    # stock Keras layers with built-in activations inside quantized models
    ms.append(_desc([4], [
        ("QDense", {"units": 3, "use_bias": True},
         {"kernel_quantizer": fx, "bias_quantizer": fx, "activation": None}),
        ("Activation", {"activation": "hard_sigmoid"}, {}),
        ("Dense", {"units": 3, "activation": "hard_sigmoid"}, {}),
        ("BatchNormalization", {}, {}),
        ("Dense", {"units": 3, "activation": "tanh"}, {}),
        ("QActivation", {}, {"activation": relu}),
        ("Dense", {"units": 2, "activation": "softmax"}, {})], "vec", 18))
    ms.append(_desc([3, 2], [
        ("LSTM", {"units": 2, "return_sequences": True,
                  "recurrent_activation": "hard_sigmoid", "activation": "tanh"}, {}),
        ("QDense", {"units": 2, "use_bias": True},
         {"kernel_quantizer": fx, "bias_quantizer": None, "activation": None}),
        ("GRU", {"units": 2, "return_sequences": False,
                 "recurrent_activation": "sigmoid", "activation": "relu"}, {})],
                    "seq", 19))
    ms.append(_desc([4, 4, 2], [
        ("Conv2D", {"filters": 2, "kernel_size": [1, 1], "padding": "same",
                    "activation": "sigmoid"}, {}),
        ("QConv2D", {"filters": 2, "kernel_size": [2, 2], "strides": [1, 1],
                     "padding": "valid", "dilation_rate": [1, 1], "use_bias": True,
                     "mask": [[1, 0], [1, 1]], "mask_dtype": "bool"},
         {"kernel_quantizer": fx, "bias_quantizer": fx, "activation": None}),
        ("Conv2D", {"filters": 2, "kernel_size": [1, 1], "padding": "same",
                    "activation": "hard_sigmoid"}, {}),
        fl], "image", 20))
    ms.append(_desc([4], [
        ("QDense", {"units": 3, "use_bias": True, "trainable": False},
         {"kernel_quantizer": fx, "bias_quantizer": fx, "activation": None}),
        ("QBatchNormalization", {"center": False, "scale": False},
         {"gamma_quantizer": None, "beta_quantizer": None, "mean_quantizer": fx,
          "variance_quantizer": None}),
        ("QDense", {"units": 2, "use_bias": True},
         {"kernel_quantizer": po2, "bias_quantizer": None, "activation": None}),
        ("QBatchNormalization", {"scale": False, "trainable": False}, {})], "vec", 16))
    # frozen folded layers: the constructor's trainable flag is consumed by the
    # folded layer and handed to its inner batch normalisation only, so the
    # round trip has to carry the batch-norm's flag (weight order depends on it)
    ms.append(_desc([5, 4, 1], [
        ("QConv2DBatchnorm", {"filters": 2, "kernel_size": [2, 2], "strides": [1, 1],
                              "padding": "valid", "dilation_rate": [1, 1], "use_bias": True,
                              "folding_mode": "ema_stats_folding", "trainable": False},
         {"kernel_quantizer": fx, "bias_quantizer": fx, "activation": None}),
        ("QDepthwiseConv2DBatchnorm", {"kernel_size": [2, 2], "strides": [1, 1],
                                       "padding": "same", "depth_multiplier": 1,
                                       "use_bias": True, "dilation_rate": [1, 1],
                                       "folding_mode": "batch_stats_folding",
                                       "trainable": False},
         {"depthwise_quantizer": _qb(6, 2, 1.0), "bias_quantizer": fx,
          "activation": None}),
        fl], "image", 25))
    ms.append(_desc([3, 2], [
        ("QBidirectional", {"merge_mode": "sum"},
         {"__inner__": {"cls": "QSimpleRNN", "in": ["in"],
                        "kw": {"units": 2, "use_bias": True, "return_sequences": False},
                        "q": rq}})], "seq", 7))
    # library classes nested in stock Keras wrappers: every cell class of the
    # custom-object table in the generic RNN layer (alone, as a stack of one,
    # in a mixed stack), the stock Bidirectional around a quantized layer and
    # around RNN(cell), TimeDistributed around per-step layers.  The four
    # quantizers of a cell are pairwise different in their step size.
    def cq(k):
      return {"kernel_quantizer": _qb(4 + k, 0, 1.0),
              "recurrent_quantizer": _qb(5, 1 + k, 1.0),
              "bias_quantizer": po2 if k else _qb(3, 0, 1.0),
              "state_quantizer": _qb(6 - k, 0, 1.0),
              "activation": {"s": "quantized_tanh(%d)" % (4 + k)}}
    def cqr(k):
      return dict(cq(k), recurrent_activation={"s": "quantized_sigmoid(%d)" % (4 + k)})
    lstm_c = {"cls": "QLSTMCell", "kw": {"units": 3, "use_bias": True,
                                         "unit_forget_bias": False}, "q": cqr(0)}
    gru_c = {"cls": "QGRUCell", "kw": {"units": 2, "use_bias": True,
                                       "reset_after": True}, "q": cqr(1)}
    srnn_c = {"cls": "QSimpleRNNCell", "kw": {"units": 2, "use_bias": True},
              "q": cq(2)}
    nostate = dict(cqr(1), state_quantizer=None)
    norec = dict(cqr(0), recurrent_quantizer=None)
    # parallel branches (each observed on its own), concatenated
    def cat(d):
      d["layers"].append({"name": "cat", "cls": "Concatenate",
                          "in": [l["name"] for l in d["layers"]], "kw": {}, "q": {}})
      d["out"] = "cat"
      return d
    d = _desc([4, 2], [
        ("RNN", {"__in__": ["in"], "return_sequences": True}, {}),
        ("RNN", {"__in__": ["in"], "return_sequences": True, "go_backwards": True}, {}),
        ("RNN", {"__in__": ["in"], "return_sequences": True, "as_list": True}, {}),
        ("RNN", {"__in__": ["in"], "return_sequences": True, "unroll": True}, {})],
              "seq", 23)
    d["layers"][0]["cells"] = [lstm_c]
    d["layers"][1]["cells"] = [gru_c]
    d["layers"][2]["cells"] = [srnn_c]
    d["layers"][3]["cells"] = [
        {"cls": "QGRUCell", "kw": {"units": 3, "use_bias": False}, "q": nostate},
        {"cls": "LSTMCell", "kw": {"units": 2}, "q": {}},
        {"cls": "QLSTMCell", "kw": {"units": 2, "use_bias": True,
                                    "implementation": 2}, "q": norec}]
    ms.append(cat(d))
    ms.append(cat(_desc([3, 2], [
        ("Bidirectional", {"__in__": ["in"], "merge_mode": "ave"},
         {"__inner__": {"cls": "QLSTM", "in": ["in"],
                        "kw": {"units": 2, "use_bias": True, "return_sequences": True},
                        "q": cqr(0)}}),
        ("TimeDistributed", {"__in__": ["in"]},
         {"__inner__": {"cls": "QDense", "in": ["in"],
                        "kw": {"units": 3, "use_bias": True},
                        "q": {"kernel_quantizer": auto, "bias_quantizer": po2,
                              "activation": relu}}}),
        ("Bidirectional", {"__in__": ["in"], "merge_mode": "concat"},
         {"__inner__": {"cls": "RNN", "in": ["in"], "kw": {"return_sequences": True},
                        "q": {}, "cells": [gru_c]}})], "seq", 24)))
    ms.append(_desc([4], [
        ("QDense", {"units": 3, "use_bias": True},
         {"kernel_quantizer": binr, "bias_quantizer": tern,
          "activation": {"q": "quantized_ulaw", "kw": {"bits": 6, "integer": 1,
                                                       "symmetric": 1, "u": 15.0}}}),
        ("QAdaptiveActivation", {"activation": "quantized_relu", "total_bits": 5,
                                 "symmetric": False, "per_channel": True,
                                 "po2_rounding": True, "relu_neg_slope": 0.25,
                                 "quantization_delay": 5, "ema_freeze_delay": 9,
                                 "ema_decay": 0.99, "current_step": 3}, {}),
        ("QActivation", {}, {"activation": {"q": "stochastic_ternary",
                                            "kw": {"alpha": 1.0, "threshold": 0.25,
                                                   "temperature": 4.0,
                                                   "use_real_sigmoid": False}}}),
        ("QDense", {"units": 2, "use_bias": True},
         {"kernel_quantizer": {"q": "stochastic_binary",
                               "kw": {"alpha": "auto", "temperature": 4.0}},
          "bias_quantizer": {"q": "quantized_linear",
                             "kw": {"bits": 5, "integer": 1, "symmetric": 0,
                                    "alpha": 1.0, "keep_negative": False}},
          "activation": {"q": "quantized_sigmoid",
                         "kw": {"bits": 5, "symmetric": True,
                                "use_real_sigmoid": True}}})], "vec", 8))
    # every quantizer class once with non-default values for all options its
    # get_config() carries: parallel QActivation / QDense branches
    acts = [
        {"q": "quantized_relu", "kw": {"bits": 5, "integer": 1, "negative_slope": 0.25,
                                       "relu_upper_bound": 1.5,
                                       "use_stochastic_rounding": True}},
        {"q": "quantized_relu", "kw": {"bits": 4, "integer": 1, "use_sigmoid": 1,
                                       "qnoise_factor": 0.5}},
        {"q": "quantized_bits", "kw": {"bits": 5, "integer": 1, "symmetric": 1,
                                       "keep_negative": False, "alpha": 2.0,
                                       "use_stochastic_rounding": True}},
        {"q": "quantized_bits", "kw": {"bits": 4, "integer": 2, "symmetric": 0,
                                       "alpha": None, "qnoise_factor": 0.5}},
        {"q": "quantized_po2", "kw": {"bits": 4, "max_value": 2,
                                      "quadratic_approximation": True,
                                      "log2_rounding": "floor",
                                      "use_stochastic_rounding": True}},
        {"q": "quantized_relu_po2", "kw": {"bits": 4, "max_value": 2,
                                           "negative_slope": 0.25,
                                           "quadratic_approximation": True,
                                           "log2_rounding": "floor"}},
        {"q": "ternary", "kw": {"alpha": 2.0, "threshold": 0.75,
                                "number_of_unrolls": 3}},
        {"q": "binary", "kw": {"use_01": True, "alpha": 0.5}},
        {"q": "quantized_ulaw", "kw": {"bits": 5, "integer": 1, "symmetric": 1,
                                       "u": 15.0}},
        {"q": "quantized_tanh", "kw": {"bits": 5, "symmetric": True,
                                       "use_real_tanh": True,
                                       "use_stochastic_rounding": True}},
        {"q": "quantized_sigmoid", "kw": {"bits": 5, "symmetric": True,
                                          "use_real_sigmoid": True,
                                          "use_stochastic_rounding": True}},
        {"q": "stochastic_ternary", "kw": {"alpha": 2.0, "threshold": 0.25,
                                           "temperature": 4.0,
                                           "use_real_sigmoid": False,
                                           "number_of_unrolls": 3}},
        {"q": "stochastic_binary", "kw": {"alpha": 0.5, "temperature": 4.0,
                                          "use_real_sigmoid": False}},
        {"q": "quantized_linear", "kw": {"bits": 5, "integer": 1, "symmetric": 0,
                                         "alpha": 2.0, "keep_negative": False,
                                         "use_stochastic_rounding": True}},
    ]
    lay = [("QActivation", {"__in__": ["in"]}, {"activation": a}) for a in acts]
    d = _desc([4], lay, "vec", 11)
    d["layers"].append({"name": "cat", "cls": "Concatenate",
                        "in": [l["name"] for l in d["layers"]], "kw": {}, "q": {}})
    d["out"] = "cat"
    ms.append(d)
    wqs = [
        {"q": "quantized_bits", "kw": {"bits": 5, "integer": 1, "symmetric": 0,
                                       "keep_negative": False, "alpha": 2.0}},
        {"q": "quantized_bits", "kw": {"bits": 4, "integer": 1, "symmetric": 1,
                                       "alpha": "auto", "qnoise_factor": 0.5}},
        {"q": "quantized_po2", "kw": {"bits": 3, "max_value": 4,
                                      "quadratic_approximation": True,
                                      "log2_rounding": "floor"}},
        {"q": "quantized_relu_po2", "kw": {"bits": 3, "max_value": 4,
                                           "quadratic_approximation": True}},
        {"q": "ternary", "kw": {"alpha": "auto", "number_of_unrolls": 3}},
        {"q": "binary", "kw": {"use_01": True, "alpha": "auto_po2"}},
        {"q": "stochastic_ternary", "kw": {"alpha": "auto_po2", "temperature": 4.0,
                                           "use_real_sigmoid": False}},
        {"q": "quantized_linear", "kw": {"bits": 4, "integer": 1, "symmetric": 0,
                                         "alpha": "auto_po2", "keep_negative": True,
                                         "use_stochastic_rounding": True,
                                         "qnoise_factor": 0.5}},
    ]
    lay = [("QDense", {"__in__": ["in"], "units": 2, "use_bias": True},
            {"kernel_quantizer": w, "bias_quantizer": wqs[(k + 1) % len(wqs)],
             "activation": None}) for k, w in enumerate(wqs)]
    d = _desc([3], lay, "vec", 12)
    d["layers"].append({"name": "cat", "cls": "Concatenate",
                        "in": [l["name"] for l in d["layers"]], "kw": {}, "q": {}})
    d["out"] = "cat"
    ms.append(d)
    ms.append(_desc([3], [
        ("QDense", {"units": 2, "use_bias": True},
         {"kernel_quantizer": {"q": "bernoulli", "kw": {"alpha": 1.0}},
          "bias_quantizer": rpo2,
          "activation": {"q": "quantized_tanh",
                         "kw": {"bits": 4, "symmetric": True, "use_real_tanh": True}}})],
                    "vec", 9))
  else:
    ms.append(_desc([4, 4, 1], [
        ("QConv2D", {"filters": 3, "kernel_size": [2, 2], "strides": [2, 2],
                     "padding": "valid", "dilation_rate": [1, 1], "use_bias": False},
         {"kernel_quantizer": _qb(4, 2, "auto_po2"), "bias_quantizer": _qb(4, 2, None),
          "activation": None}),
        ("QDepthwiseConv2D", {"kernel_size": [2, 2], "strides": [1, 1],
                              "padding": "valid", "depth_multiplier": 1,
                              "use_bias": True, "dilation_rate": [1, 1]},
         {"depthwise_quantizer": _qb(6, 3, "auto_po2"), "bias_quantizer": _qb(4, 2, 1.0),
          "activation": None}),
        ("QBatchNormalization", {},
         {"gamma_quantizer": None, "variance_quantizer": None,
          "beta_quantizer": _qb(4, 0, None), "mean_quantizer": _qb(4, 2, None),
          "inverse_quantizer": _qb(8, 0, "auto_po2")}),
        ("QActivation", {}, {"activation": _qb(4, 0, None, 0)}),
        fl,
        ("QDense", {"units": 2, "use_bias": True},
         {"kernel_quantizer": _qb(4, 2, "auto_po2"), "bias_quantizer": _qb(4, 2, None),
          "activation": None})], "chain", 10))
    # freeze chain whose 3-bit auto_po2 kernels were constructed (offline
    # search) so that the scale fitted to q(w) differs from the one fitted to
    # w: a model that is not really frozen changes on export / re-export
    d = _desc([4, 4, 1], [
        ("QConv2D", {"filters": 3, "kernel_size": [2, 2], "strides": [2, 2],
                     "padding": "valid", "dilation_rate": [1, 1], "use_bias": False},
         {"kernel_quantizer": _qb(3, 1, "auto_po2"), "bias_quantizer": None,
          "activation": None}),
        ("QDepthwiseConv2D", {"kernel_size": [2, 2], "strides": [1, 1],
                              "padding": "valid", "depth_multiplier": 1,
                              "use_bias": False, "dilation_rate": [1, 1]},
         {"depthwise_quantizer": _qb(3, 0, "auto_po2"), "bias_quantizer": None,
          "activation": None}),
        fl,
        ("QDense", {"units": 2, "use_bias": True},
         {"kernel_quantizer": _qb(3, 0, "auto_po2"), "bias_quantizer": _qb(4, 2, None),
          "activation": None})], "chain", 21)
    d["weights"] = {"c1_qconv2d": {"0": CONSTRUCTED_KERNELS["conv_3_1"]},
                    "c2_qdepthwiseconv2d": {"0": CONSTRUCTED_KERNELS["dw_3_0"]},
                    "c4_qdense": {"0": CONSTRUCTED_KERNELS["dense_3_0"]}}
    ms.append(d)
    lay = [("QDense", {"__in__": ["in"], "units": 3, "use_bias": True},
            {"kernel_quantizer": w, "bias_quantizer": b, "activation": None})
           for w, b in [(_qb(4, 0, 2.0), _qb(4, 1, 0.5)),
                        (_qb(4, 1, "auto"), {"q": "ternary", "kw": {"alpha": "auto"}}),
                        ({"q": "ternary", "kw": {"alpha": "auto"}}, fx),
                        ({"q": "binary", "kw": {"alpha": "auto"}}, po2)]]
    d = _desc([4], lay, "vec", 13)
    d["layers"].append({"name": "cat", "cls": "Concatenate",
                        "in": [l["name"] for l in d["layers"]], "kw": {}, "q": {}})
    d["out"] = "cat"
    ms.append(d)
    # data-independent po2 quantizers in quadratic mode on kernels / biases that
    # contain exact zeros (constructed weights)
    d = _desc([3], [
        ("QDense", {"units": 2, "use_bias": True},
         {"kernel_quantizer": {"q": "quantized_po2",
                               "kw": {"bits": 2, "quadratic_approximation": True}},
          "bias_quantizer": {"q": "quantized_relu_po2",
                             "kw": {"bits": 3, "quadratic_approximation": True}},
          "activation": None})], "vec", 22)
    d["weights"] = {"c1_qdense": {"0": [[0.0, 0.75], [-1.5, 0.0], [0.3, -0.6]],
                                  "1": [0.0, 0.8]}}
    ms.append(d)
    # data-independent {0,1} binary codes (alpha = 1: only use_01 matters)
    ms.append(_desc([4], [
        ("QDense", {"units": 3, "use_bias": True},
         {"kernel_quantizer": {"q": "binary", "kw": {"alpha": 1.0, "use_01": True}},
          "bias_quantizer": fx, "activation": None})], "vec", 17))
    # two fusable pairs whose batch-norm quantizers do not map 0 to 0 (library
    # default power-of-two quantizers; binary beta): used with untrained /
    # zero-start parameters by C14
    ms.append(_desc([5, 5, 2], [
        ("QDepthwiseConv2D", {"kernel_size": [2, 2], "strides": [1, 1],
                              "padding": "valid", "depth_multiplier": 1,
                              "use_bias": True, "dilation_rate": [1, 1]},
         {"depthwise_quantizer": _qb(4, 0, 1.0), "bias_quantizer": _qb(6, 1, 1.0),
          "activation": None}),
        ("QBatchNormalization", {}, {}),
        ("QConv2D", {"filters": 2, "kernel_size": [2, 2], "strides": [1, 1],
                     "padding": "valid", "dilation_rate": [1, 1], "use_bias": False},
         {"kernel_quantizer": po2, "bias_quantizer": None, "activation": None}),
        ("QBatchNormalization", {},
         {"gamma_quantizer": fx, "beta_quantizer": binr,
          "mean_quantizer": {"q": "quantized_po2", "kw": {"bits": 4}},
          "variance_quantizer": None}),
        fl], "image", 23))
    ms.append(_desc([4], [
        ("QDense", {"units": 3, "use_bias": True},
         {"kernel_quantizer": binr, "bias_quantizer": tern, "activation": relu}),
        ("QBatchNormalization", {}, {}),
        ("QDense", {"units": 2, "use_bias": True},
         {"kernel_quantizer": _qb(4, 1, None), "bias_quantizer": rpo2,
          "activation": None})], "vec", 8))
  return ms
