"""Type descriptions for the qtools checks C16 / C17: deterministic lattices
and Hypothesis strategies.  Descriptions are documented in vf/ref/qtypes.py.
Every description is valid by construction (non-empty value set, po2 types
with at least one exponent bit)."""
import itertools

PO2_CAPS = [None, -2, -1, 0, 1, 2, 4]      # max_val_po2 = -1 or 2**c
# max_value settings that are not powers of two: frac(log2) >= .5 (rounds up:
# 1.5 -> 2, 3 -> 4, 6 -> 8, 12 -> 16) and < .5 (5 -> 4); all far from the .5
# boundary so float32 log2 rounding in the quantizer cannot flip
PO2_MVS = [1.5, 3, 5, 6, 12]
_MV_EXP = {1.5: 1, 3: 2, 5: 2, 6: 3, 12: 4}     # round(log2 v)


def _po2_ok(bits, signed, c):
  n = bits - signed
  if n < 1:
    return False
  return c is None or c >= -(1 << (n - 1))     # cap leaves >= 1 exponent


def fixed_types(bits_list, ints=None):
  out = []
  for b in bits_list:
    il = range(0, b + 1) if ints is None else sorted(set(i for i in ints(b) if 0 <= i <= b))
    for i in il:
      for s in (1, 0):
        out.append({"k": "fixed", "bits": b, "int": i, "signed": s})
  return out


def _mv_ok(bits, signed, v):
  """the cap lies inside the exponent range of the width (else it is inert)"""
  n = bits - signed
  return n >= 1 and _MV_EXP[v] <= (1 << (n - 1)) - 1


def po2_types(bits_list, caps=None, mvs=()):
  out = []
  for b in bits_list:
    for s in (1, 0):
      for c in (PO2_CAPS if caps is None else caps):
        if _po2_ok(b, s, c):
          out.append({"k": "po2", "bits": b, "signed": s, "max": c})
      for v in mvs:
        if _mv_ok(b, s, v):
          out.append({"k": "po2", "bits": b, "signed": s, "max": None, "mv": v})
  return out


def small_kinds():
  return [{"k": "ternary"}, {"k": "binary"}, {"k": "binary01"}]


def named_factory_types(bits_list=(2, 4)):
  """Types that only exist through a qkeras quantizer class of their own."""
  out = [{"k": "ternary", "q": "stochastic_ternary", "via": "factory"},
         {"k": "binary", "q": "stochastic_binary", "via": "factory"},
         {"k": "binary01", "q": "bernoulli", "via": "factory"},
         # quantized_relu(1, 1): routed as binary(0,1) by the factory
         {"k": "fixed", "bits": 1, "int": 1, "signed": 0, "q": "quantized_relu",
          "via": "factory"}]
  for b in bits_list:
    out.append({"k": "fixed", "bits": b, "int": 0, "signed": 1,
                "q": "quantized_tanh", "via": "factory"})
    out.append({"k": "fixed", "bits": b, "int": 1, "signed": 1,
                "q": "quantized_ulaw", "via": "factory"})
    out.append({"k": "fixed", "bits": b, "int": 1, "signed": 1,
                "q": "quantized_relu_leaky", "via": "factory"})
    out.append({"k": "fixed", "bits": b, "int": 1, "signed": 0,
                "q": "quantized_bits", "via": "factory"})
  return out


def float_types():
  return [{"k": "float", "bits": 32}, {"k": "float", "bits": 16}]


def with_via(d, n):
  """Deterministically assigns the construction route (n = running index)."""
  if "via" in d:
    return d
  d = dict(d)
  d["via"] = "factory" if n % 2 else "impl"
  return d


def small_lattice():
  """Every type with bits <= 5 (the finite part that is brute-forced)."""
  return (fixed_types(range(1, 6)) + po2_types(range(1, 6), mvs=PO2_MVS) + small_kinds() +
          named_factory_types((2, 4)))


def wide_lattice(tier):
  """Types with 6..16 bits (po2: 6..8) for the extreme-value part."""
  if tier == "quick":
    fb = [6, 8, 11, 16]
    ints = lambda b: [0, 1, b // 2, b - 1, b]
    pb = [6, 8]
    caps = [None, -2, 0, 4]
  else:
    fb = list(range(6, 17))
    ints = None
    pb = [6, 7, 8]
    caps = None
  return (fixed_types(fb, ints) + po2_types(pb, caps, mvs=[3, 5, 12] if tier == "quick" else PO2_MVS) +
          named_factory_types((8, 16) if tier == "quick" else (6, 8, 12, 16)))


def small_sample(tier):
  """Representative small types to pair with the wide ones."""
  if tier == "quick":
    fx = fixed_types([1, 3, 5], lambda b: [0, b // 2, b])
    po = po2_types([2, 4, 5], [None, -1, 1], mvs=[1.5, 3, 6])
  else:
    fx = fixed_types([1, 2, 3, 4, 5])
    po = po2_types([1, 2, 3, 4, 5], mvs=PO2_MVS)
  return fx + po + small_kinds() + named_factory_types((3,))


def pair_index(pairs):
  """(i, (w, x)) with the route assigned from the running index, so that all
  four route combinations occur for every kind pair."""
  for n, (w, x) in enumerate(pairs):
    yield with_via(w, n), with_via(x, n // 2)


# --------------------------------------------------------------------------
# shared-factory sequences: families of types that agree in kind / bits / sign
# (and name) but differ in max_val_po2 or int_bits, or that share all numeric
# fields and differ only in name / construction route


def variant_families(tier="quick"):
  """list of lists of type descriptions; neighbours inside a family are the
  types a stale per-factory state would confuse."""
  fams = []
  for b in ([3, 4, 6] if tier == "quick" else [2, 3, 4, 5, 6, 8]):
    for s in (1, 0):
      fam = [{"k": "po2", "bits": b, "signed": s, "max": c} for c in (-1, 0, 1, 2) if _po2_ok(b, s, c)]
      fam += [{"k": "po2", "bits": b, "signed": s, "max": None, "mv": v} for v in (3, 6) if _mv_ok(b, s, v)]
      fam.append({"k": "po2", "bits": b, "signed": s, "max": None})
      fams.append(fam)
  for b in ([2, 4, 8] if tier == "quick" else [1, 2, 3, 4, 6, 8, 12]):
    for s in (1, 0):
      fams.append([{"k": "fixed", "bits": b, "int": i, "signed": s} for i in range(0, b + 1)])
  # same numeric fields, different class / name / route
  fams.append([{"k": "binary", "via": "impl"}, {"k": "binary", "q": "stochastic_binary", "via": "factory"},
               {"k": "binary", "via": "factory"}])
  fams.append([{"k": "binary01", "via": "impl"}, {"k": "binary01", "q": "bernoulli", "via": "factory"},
               {"k": "fixed", "bits": 1, "int": 1, "signed": 0, "q": "quantized_relu", "via": "factory"},
               {"k": "fixed", "bits": 1, "int": 1, "signed": 0, "via": "impl"}])
  fams.append([{"k": "ternary", "via": "impl"}, {"k": "ternary", "q": "stochastic_ternary", "via": "factory"},
               {"k": "fixed", "bits": 2, "int": 2, "signed": 1, "via": "impl"}])
  fams.append([{"k": "fixed", "bits": 4, "int": 1, "signed": 1, "via": "impl"},
               {"k": "fixed", "bits": 4, "int": 1, "signed": 1, "q": "quantized_ulaw", "via": "factory"},
               {"k": "fixed", "bits": 4, "int": 1, "signed": 1, "q": "quantized_relu_leaky", "via": "factory"},
               {"k": "fixed", "bits": 4, "int": 1, "signed": 0, "q": "quantized_bits", "via": "factory"},
               {"k": "fixed", "bits": 4, "int": 1, "signed": 0, "via": "factory"}])
  return fams


def seq_partners():
  return [{"k": "fixed", "bits": 4, "int": 1, "signed": 1}, {"k": "fixed", "bits": 4, "int": 2, "signed": 0},
          {"k": "po2", "bits": 3, "signed": 1, "max": None}, {"k": "po2", "bits": 3, "signed": 0, "max": 1},
          {"k": "ternary"}, {"k": "binary"}, {"k": "binary01"}]


def orders(fam):
  """ascending, descending and an interleaved order of a family."""
  n = len(fam)
  inter = [fam[i // 2] if i % 2 == 0 else fam[n - 1 - i // 2] for i in range(n)]
  return [list(fam), list(reversed(fam)), inter]


def pair_sequences(tier="quick"):
  """deterministic list of sequences of (w, x) description pairs, each to be
  served by ONE factory instance."""
  out = []
  n = 0
  for fam in variant_families(tier):
    for p in seq_partners():
      for role in ("w", "x"):
        for od in orders(fam):
          n += 1
          seq = []
          for j, d in enumerate(od):
            d2, p2_ = with_via(d, n + j), with_via(p, (n + j) // 2)
            seq.append([d2, p2_] if role == "w" else [p2_, d2])
          out.append(seq)
  # both operands vary
  fams = variant_families(tier)
  for a in range(0, len(fams) - 1, 2):
    fa, fb = fams[a], fams[a + 1]
    seq = []
    for j in range(max(len(fa), len(fb))):
      seq.append([with_via(fa[j % len(fa)], j), with_via(fb[(j * 2 + 1) % len(fb)], j // 2)])
    out.append(seq)
    out.append(list(reversed(seq)))
  return out


def variant_strategy(st):
  """Hypothesis: a short list of variants of one drawn family member."""
  fams = variant_families("thorough")

  @st.composite
  def fam_members(draw):
    fam = draw(st.sampled_from(fams))
    k = draw(st.integers(1, min(4, len(fam))))
    idx = draw(st.lists(st.integers(0, len(fam) - 1), min_size=k, max_size=k))
    via = draw(st.sampled_from(["impl", "factory"]))
    return [fam[i] if "via" in fam[i] else dict(fam[i], via=via) for i in idx]
  return fam_members()


# --------------------------------------------------------------------------
# Hypothesis strategies


def type_strategy(st, max_bits=16, allow_float=True, nonpo2_caps=False):
  via = st.sampled_from(["impl", "factory"])

  @st.composite
  def fixed(draw):
    b = draw(st.integers(1, max_bits))
    i = draw(st.integers(0, b))
    s = draw(st.integers(0, 1))
    return {"k": "fixed", "bits": b, "int": i, "signed": s, "via": draw(via)}

  @st.composite
  def po2(draw):
    s = draw(st.integers(0, 1))
    b = draw(st.integers(1 + s, min(8, max_bits)))
    n = b - s
    lo = -(1 << (n - 1))
    mvs = [v for v in PO2_MVS if _mv_ok(b, s, v)] if nonpo2_caps else []
    if mvs and draw(st.integers(0, 2)) == 0:
      return {"k": "po2", "bits": b, "signed": s, "max": None,
              "mv": draw(st.sampled_from(mvs)), "via": draw(via)}
    c = draw(st.one_of(st.none(), st.integers(max(lo, -6), 8)))
    return {"k": "po2", "bits": b, "signed": s, "max": c, "via": draw(via)}

  named = st.sampled_from(named_factory_types((2, 3, 4, 6, 8, 12)))
  small = st.builds(lambda d, v: dict(d, via=v), st.sampled_from(small_kinds()), via)
  opts = [fixed(), fixed(), po2(), po2(), small, named]
  if allow_float:
    opts.append(st.builds(lambda d, v: dict(d, via=v),
                          st.sampled_from(float_types()), via))
  return st.one_of(*opts)


# --------------------------------------------------------------------------
# operand objects with a history (C16 part H; format in vf/ref/qtypes.py)

HIST_PRES = [[], ["exp"], ["acc"], ["mul"], ["qk"], ["inf"], ["fields"], ["exp", "clone"],
             ["clone", "exp"], ["copy", "acc"], ["mul", "qk", "exp"]]
HIST_POSTS = [[], ["exp"], ["clone"], ["qk", "mul"]]


def _hist_family(kind, tier):
  if kind == "po2":
    bl = [2, 3, 4] if tier == "quick" else [2, 3, 4, 5, 6]
    out = []
    for b in bl:
      for s in (1, 0):
        for c in (None, 0, 2):
          if _po2_ok(b, s, c) and (c is None or c <= (1 << (b - s - 1)) - 1 or c == 0):
            out.append({"k": "po2", "bits": b, "signed": s, "max": c})
    out.append({"k": "po2", "bits": 4, "signed": 1, "max": None, "mv": 3})
    out.append({"k": "po2", "bits": 4, "signed": 0, "max": None, "mv": 6})
    return out
  if kind == "fixed":
    bl = [2, 5] if tier == "quick" else [1, 2, 3, 5, 8]
    return fixed_types(bl, lambda b: [0, 1, b])
  return [{"k": "binary"}, {"k": "binary01"}]


def _hist_starts(kind, tier):
  """start types: the family + (fixed) an unsigned QuantizedBits object, which
  only the factory route quantized_bits(keep_negative=0) creates"""
  fam = _hist_family(kind, tier)
  if kind == "fixed":
    fam = fam + [{"k": "fixed", "bits": 3, "int": 1, "signed": 0, "q": "quantized_bits", "via": "factory"}]
  return fam


def hist_partners():
  return [{"k": "fixed", "bits": 4, "int": 1, "signed": 1}, {"k": "fixed", "bits": 3, "int": 1, "signed": 0},
          {"k": "po2", "bits": 3, "signed": 1, "max": None}, {"k": "ternary"}, {"k": "binary01"}]


def hist_updates(tier="quick"):
  es = [-8, -2, 0, 1, 5] if tier == "quick" else [-8, -4, -2, -1, 0, 1, 2, 3, 5, 8]
  out = []
  for e in es:
    for neg in (0, 1):
      for reset in (1, 0):
        out.append({"neg": neg, "e": e, "reset": reset})
  return out


def history_cases(tier="quick"):
  """deterministic list of {"w","x","hw","hx","mode":"hist"}: every (start,
  target) pair of a small family per kind x re-size route, the observation
  prefixes / suffixes, partners and operand roles rotating with the running
  index so that each occurs with every route and kind."""
  from vf.ref import qtypes as R  # pylint: disable=g-import-not-at-top
  out = []
  n = 0
  parts = hist_partners()
  for kind in ("po2", "fixed", "bin"):
    fam = _hist_family(kind, tier)
    for start in _hist_starts(kind, tier):
      for target in fam:
        if start == target and kind != "bin":
          continue
        for resize in ("assign", "convert"):
          if not R.history_ok(start, target, resize):
            continue
          for rep in range(2 if kind == "po2" else 1):
            n += 1
            h = {"start": with_via(start, n // 3), "resize": resize,
                 "pre": HIST_PRES[n % len(HIST_PRES)], "post": HIST_POSTS[(n // 2) % len(HIST_POSTS)]}
            p = with_via(parts[n % len(parts)], n // 5)
            role = n % 3
            if role == 0:
              out.append({"w": target, "x": p, "hw": h, "hx": None, "mode": "hist"})
            elif role == 1:
              out.append({"w": p, "x": target, "hw": None, "hx": h, "mode": "hist"})
            else:
              other = fam[(n // 7) % len(fam)]
              h2 = {"start": with_via(start, n // 2), "resize": "assign",
                    "pre": HIST_PRES[(n // 3) % len(HIST_PRES)], "post": []}
              out.append({"w": target, "x": other, "hw": h, "hx": h2, "mode": "hist"})
  # update_quantizer route (po2 only): the target is read from the fields
  fam = _hist_family("po2", tier)
  for start in fam:
    for u in hist_updates(tier):
      n += 1
      h = {"start": with_via(start, n // 3), "resize": "update", "upd": u,
           "pre": HIST_PRES[n % len(HIST_PRES)], "post": HIST_POSTS[(n // 2) % len(HIST_POSTS)]}
      p = with_via(parts[n % len(parts)], n // 5)
      if n % 2:
        out.append({"w": start, "x": p, "hw": h, "hx": None, "mode": "hist"})
      else:
        out.append({"w": p, "x": start, "hw": None, "hx": h, "mode": "hist"})
  return out


def history_strategy(st, max_bits=8):
  """Hypothesis: a type pair in which one or both operands carry a history."""
  from vf.ref import qtypes as R  # pylint: disable=g-import-not-at-top
  ts = type_strategy(st, max_bits, allow_float=True, nonpo2_caps=True)
  ops = st.lists(st.sampled_from(list(R.OPS)), max_size=3)

  @st.composite
  def same_family(draw, kind):
    if kind == "po2":
      s = draw(st.integers(0, 1))
      b = draw(st.integers(1 + s, 6))
      c = draw(st.sampled_from([None, None, -1, 0, 1, 2, 4]))
      if not _po2_ok(b, s, c):
        c = None
      return {"k": "po2", "bits": b, "signed": s, "max": c, "via": draw(st.sampled_from(["impl", "factory"]))}
    if kind == "fixed":
      b = draw(st.integers(1, max_bits))
      return {"k": "fixed", "bits": b, "int": draw(st.integers(0, b)), "signed": draw(st.integers(0, 1)),
              "via": draw(st.sampled_from(["impl", "factory"]))}
    return {"k": draw(st.sampled_from(["binary", "binary01"])), "via": draw(st.sampled_from(["impl", "factory"]))}

  @st.composite
  def operand(draw, force):
    kind = draw(st.sampled_from(["po2", "po2", "fixed", "bin"])) if force else None
    if kind is None:
      return draw(ts), None
    target = dict(draw(same_family(kind)))
    target.pop("via")
    start = draw(same_family(kind))
    if kind == "fixed" and not start["signed"] and draw(st.integers(0, 2)) == 0:
      start = dict(start, q="quantized_bits", via="factory")
    resize = draw(st.sampled_from(["assign", "convert", "update"] if kind == "po2" else ["assign", "convert"]))
    if not R.history_ok(start, target, resize):
      resize = "assign"
    h = {"start": start, "resize": resize, "pre": draw(ops), "post": draw(ops)}
    if resize == "update":
      h["upd"] = {"neg": draw(st.integers(0, 1)), "e": draw(st.integers(-8, 8)), "reset": draw(st.integers(0, 1))}
      target = {k: v for k, v in start.items() if k != "via"}
    return target, h

  @st.composite
  def case(draw):
    who = draw(st.sampled_from(["w", "x", "both"]))
    w, hw = draw(operand(who in ("w", "both")))
    x, hx = draw(operand(who in ("x", "both")))
    return {"w": w, "x": x, "hw": hw, "hx": hx, "mode": "hist"}
  return case()
