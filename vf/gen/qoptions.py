"""Option lattice of the 14 registered quantizer classes (shared by C09/C10).

A *config* is {"cls": name, "kw": {param: json_value}}.  Values are plain JSON
(numbers, booleans, None, strings, lists) or one of two tagged dicts that are
decoded by `decode`:
    {"__nd__": nested_list}   -> np.array(nested_list, dtype=float32)
    {"__tf__": nested_list}   -> tf.constant(nested_list, dtype=float32)

The admissible values of every constructor parameter are written down here
from the docstrings / asserts of qkeras/quantizers.py (so that no generated
configuration is one the library documents as invalid):

  * negative_slope is 0 or a power of two (constructor assert);
  * elements_per_scale / min_po2_exponent / max_po2_exponent only together with
    alpha="auto_po2" (quantized_bits.__call__ asserts it; for `binary` the
    exponent bounds are documented "while using auto_po2"); elements_per_scale
    needs scale_axis (assert in _validate_axis_and_eps), a list of
    elements_per_scale needs a list scale_axis (ValueError otherwise) and the
    probed axes are divisible by it (probe shapes are chosen accordingly);
  * post_training_scale only with a string alpha (ValueError otherwise) and
    only as numpy array (the only form used by utils.py and the tests);
  * ternary(threshold=...) only with non-string alpha, ternary(
    use_stochastic_rounding=True) only with string alpha (asserts in __call__);
  * stochastic_ternary(threshold != 1.0) (constructor assert);
  * quantized_linear.scale_axis is an int or None (docstring);
  * relu_shift / relu_upper_bound of quantized_hswish positive (asserts);
  * array / tensor alpha only for quantized_linear (documented "Tensor");
  * qnoise_factor in {1.0, 0.5, 0.0} for every class that has the knob;
    post_training_scale as rank-0, rank-1 and keepdims-shaped (4,1), (1,4),
    (1,1,4,1) arrays (what `q.scale.numpy()` of an auto quantizer looks like).

The parameter *names* come from inspect.signature: a constructor that gains or
loses a parameter makes `check_signatures` raise HarnessError (exit 2,
"generator out of date") instead of silently ignoring the new option.
"""
import inspect
import itertools
import json

import numpy as np

from vf import core

ND4 = {"__nd__": [0.5, 1.0, 2.0, 4.0]}
ND0 = {"__nd__": 0.25}
# keepdims-shaped post-training scales (what `q.scale.numpy()` of an auto_po2
# quantizer looks like): per row / input channel (4,1), per output channel
# (1,4), per channel of axis 2 of a rank-4 kernel (1,1,4,1)
ND41 = {"__nd__": [[0.5], [1.0], [2.0], [4.0]]}
ND14 = {"__nd__": [[0.5, 1.0, 2.0, 4.0]]}
ND1141 = {"__nd__": [[[[0.5], [1.0], [2.0], [4.0]]]]}
TF0 = {"__tf__": 2.0}

ALPHAS = [None, "auto", "auto_po2", 2.0]
# array/tensor alphas only for quantized_linear ("alpha (str, Tensor, None)");
# quantized_bits.__call__ itself raises for an ndarray alpha
# (`self.alpha != "auto_po2"` on an array), the other classes document a
# "fixed value".


def _is_str(v):
  return isinstance(v, str)


def _eps_dom(full):
  if full.get("alpha") != "auto_po2" or full.get("scale_axis") is None:
    return [None]
  if isinstance(full.get("scale_axis"), list):
    return [None, 2, [2, 1] if len(full["scale_axis"]) == 2 else [2]]
  return [None, 2]


def _po2_dom(vals):
  def f(full):
    return vals if full.get("alpha") == "auto_po2" else [None]
  return f


def _max_po2_dom(full):
  # 0 clips the scales of the 1-bit/4-bit formats on the probes, -5 those of
  # the 8-bit formats; never below min_po2_exponent
  if full.get("alpha") != "auto_po2":
    return [None]
  if full.get("min_po2_exponent") is not None:
    return [None, 0]
  return [None, 0, -5]


def _const(vals):
  def f(full):
    return vals
  return f


# class -> ordered list of (param, domain_fn(full_kw) -> admissible values).
# Order = generation order: a domain may depend only on earlier parameters.
SPEC = {
    "quantized_linear": [
        ("alpha", _const([None, "auto", "auto_po2", 2.0, TF0, ND4])),
        ("bits", _const([8, 4, 1])),
        ("integer", _const([0, 1])),
        ("symmetric", _const([1, 0])),
        ("keep_negative", _const([True, False])),
        ("use_stochastic_rounding", _const([False, True])),
        ("scale_axis", _const([None, 0])),
        ("qnoise_factor", _const([1.0, 0.5, 0.0])),
        ("var_name", _const([None, "qv"])),
        ("use_variables", _const([False, True])),
    ],
    "quantized_bits": [
        ("alpha", _const(ALPHAS)),
        ("scale_axis", _const([None, 0, [0, 1], [0]])),
        ("bits", _const([8, 4, 2])),
        ("integer", _const([0, 1])),
        ("symmetric", _const([0, 1])),
        ("keep_negative", _const([True, False])),
        ("use_stochastic_rounding", _const([False, True])),
        ("qnoise_factor", _const([1.0, 0.5, 0.0])),
        ("var_name", _const([None, "qv"])),
        ("use_ste", _const([True, False])),
        ("use_variables", _const([False, True])),
        ("elements_per_scale", _eps_dom),
        ("min_po2_exponent", _po2_dom([None, -2])),
        ("max_po2_exponent", _max_po2_dom),
        ("post_training_scale",
         lambda full: ([None, ND0, ND4, ND41, ND14, ND1141]
                       if _is_str(full.get("alpha")) else [None])),
    ],
    "bernoulli": [
        ("alpha", _const(ALPHAS)),
        ("temperature", _const([6.0, 2.0])),
        ("use_real_sigmoid", _const([True, False])),
    ],
    "ternary": [
        ("alpha", _const(ALPHAS)),
        ("threshold",
         lambda full: [None] if _is_str(full.get("alpha")) else [None, 0.5]),
        ("use_stochastic_rounding",
         lambda full: [False, True] if _is_str(full.get("alpha")) else [False]),
        ("number_of_unrolls", _const([5, 1])),
    ],
    "stochastic_ternary": [
        ("alpha", _const([None, "auto", "auto_po2", 2.0])),
        ("threshold",
         lambda full: [None] if _is_str(full.get("alpha")) else [None, 0.5]),
        ("temperature", _const([8.0, 2.0])),
        ("use_real_sigmoid", _const([True, False])),
        ("number_of_unrolls", _const([5, 1])),
    ],
    "binary": [
        ("alpha", _const(ALPHAS)),
        ("scale_axis", _const([None, 0, [0, 1], [0]])),
        ("use_01", _const([False, True])),
        ("use_stochastic_rounding", _const([False, True])),
        ("elements_per_scale", _eps_dom),
        ("min_po2_exponent", _po2_dom([None, -2])),
        ("max_po2_exponent", _max_po2_dom),
    ],
    "stochastic_binary": [
        ("alpha", _const(ALPHAS)),
        ("temperature", _const([6.0, 2.0])),
        ("use_real_sigmoid", _const([True, False])),
    ],
    "quantized_relu": [
        ("bits", _const([8, 4])),
        ("integer", _const([0, 1])),
        ("use_sigmoid", _const([0, 1])),
        ("negative_slope", _const([0.0, 0.25])),
        ("use_stochastic_rounding", _const([False, True])),
        ("relu_upper_bound", _const([None, 0.5])),
        ("is_quantized_clip", _const([True, False])),
        ("qnoise_factor", _const([1.0, 0.5, 0.0])),
        ("var_name", _const([None, "qv"])),
        ("use_ste", _const([True, False])),
        ("use_variables", _const([False, True])),
    ],
    "quantized_ulaw": [
        ("bits", _const([8, 4])),
        ("integer", _const([0, 1])),
        ("symmetric", _const([0, 1])),
        ("u", _const([255.0, 15.0])),
    ],
    "quantized_tanh": [
        ("bits", _const([8, 4])),
        ("use_stochastic_rounding", _const([False, True])),
        ("symmetric", _const([False, True])),
        ("use_real_tanh", _const([False, True])),
    ],
    "quantized_sigmoid": [
        ("bits", _const([8, 4])),
        ("symmetric", _const([False, True])),
        ("use_real_sigmoid", _const([False, True])),
        ("use_stochastic_rounding", _const([False, True])),
    ],
    "quantized_po2": [
        ("bits", _const([8, 4])),
        ("max_value", _const([None, 2.0, 0.5, 3.0])),
        ("use_stochastic_rounding", _const([False, True])),
        ("quadratic_approximation", _const([False, True])),
        ("log2_rounding", _const(["rnd", "floor"])),
        ("qnoise_factor", _const([1.0, 0.5, 0.0])),
        ("var_name", _const([None, "qv"])),
        ("use_ste", _const([True, False])),
        ("use_variables", _const([False, True])),
    ],
    "quantized_relu_po2": [
        ("bits", _const([8, 4])),
        ("max_value", _const([None, 2.0, 0.5, 3.0])),
        ("negative_slope", _const([0, 0.25])),
        ("use_stochastic_rounding", _const([False, True])),
        ("quadratic_approximation", _const([False, True])),
        ("log2_rounding", _const(["rnd", "floor"])),
        ("qnoise_factor", _const([1.0, 0.5, 0.0])),
        ("var_name", _const([None, "qv"])),
        ("use_ste", _const([True, False])),
        ("use_variables", _const([False, True])),
    ],
    "quantized_hswish": [
        ("alpha", _const([None, "auto", "auto_po2", 2.0])),
        ("scale_axis", _const([None, 0])),
        ("bits", _const([8, 4])),
        ("integer", _const([0, 1, 2])),
        ("symmetric", _const([0, 1])),
        ("use_stochastic_rounding", _const([False, True])),
        ("qnoise_factor", _const([1.0, 0.5, 0.0])),
        ("var_name", _const([None, "qv"])),
        ("use_variables", _const([False, True])),
        ("relu_shift", _const([3, 2])),
        ("relu_upper_bound", _const([6, 4])),
    ],
}

CLASSES = sorted(SPEC)

_sig_cache = {}


def signature_params(cls):
  """Constructor parameters (name -> default) of the class under test."""
  if cls not in _sig_cache:
    from qkeras import quantizers as Q  # pylint: disable=g-import-not-at-top
    ps = inspect.signature(getattr(Q, cls).__init__).parameters
    out = {}
    for n, p in list(ps.items())[1:]:
      if p.kind in (p.VAR_POSITIONAL, p.VAR_KEYWORD):
        raise core.HarnessError(
            "generator out of date: %s.__init__ takes *%s" % (cls, n))
      out[n] = p.default
    _sig_cache[cls] = out
  return _sig_cache[cls]


def check_signatures():
  """Generator-out-of-date guard (harness error, never a violation)."""
  from qkeras import quantizer_registry as R  # pylint: disable=g-import-not-at-top
  reg = sorted(R._QUANTIZERS_REGISTRY._container)  # pylint: disable=protected-access
  extra = sorted(set(reg) - set(SPEC))
  if extra:
    raise core.HarnessError(
        "generator out of date: registered quantizers without option table: %s"
        % extra)
  for cls in CLASSES:
    from qkeras import quantizers as Q  # pylint: disable=g-import-not-at-top
    if not hasattr(Q, cls):
      continue   # a missing class is reported by the registry sub-check
    sp = signature_params(cls)
    have = list(sp)
    want = [p for p, _ in SPEC[cls]]
    if sorted(have) != sorted(want):
      raise core.HarnessError(
          "generator out of date: %s.__init__ parameters %s, option table %s "
          "(new: %s, gone: %s)" % (cls, have, want,
                                   sorted(set(have) - set(want)),
                                   sorted(set(want) - set(have))))
    for p in want:
      if not _same(sp[p], table_default(cls, p)):
        raise core.HarnessError(
            "generator out of date: default of %s(%s) is %r, option table "
            "assumes %r" % (cls, p, sp[p], table_default(cls, p)))


def table_default(cls, p):
  for n, dom in SPEC[cls]:
    if n == p:
      return dom({})[0]
  raise KeyError(p)


def full_kw(cls, kw):
  """kw completed with the *table* defaults (first domain value)."""
  full = {}
  for n, dom in SPEC[cls]:
    full[n] = kw[n] if n in kw else dom(full)[0]
  return full


def admissible(cls, kw):
  full = full_kw(cls, kw)
  for n, dom in SPEC[cls]:
    if n in kw and not any(_same(kw[n], v) for v in dom(full)):
      return False
  return True


def _same(a, b):
  return type(a) is type(b) and a == b


def nondefault(cls, kw):
  """Options of kw that differ from the table default."""
  return {k: v for k, v in kw.items() if not _same(v, table_default(cls, k))}


def jkey(obj):
  return json.dumps(obj, sort_keys=True)


def vstr(v):
  """Printable option value; tagged values by kind only (no raw arrays)."""
  if isinstance(v, dict):
    return "<ndarray>" if "__nd__" in v else "<tensor>"
  return json.dumps(v)


def kwstr(kw):
  return ",".join("%s=%s" % (k, vstr(kw[k])) for k in sorted(kw))


# ---------------------------------------------------------------------------
# decoding / building


def decode(v):
  if isinstance(v, dict):
    if "__nd__" in v:
      return np.array(v["__nd__"], dtype=np.float32)
    if "__tf__" in v:
      import tensorflow as tf  # pylint: disable=g-import-not-at-top
      return tf.constant(v["__tf__"], dtype=tf.float32)
    raise ValueError(v)
  if isinstance(v, list):
    return [decode(e) for e in v]
  return v


def textable(v):
  """Value expressible in the literal grammar of quantizer strings."""
  return not isinstance(v, dict)


# post-construction mutations (a quantizer handed to a layer, or whose
# documented modifiable attributes are assigned, must still round-trip: the
# rebuilt object has to behave like the LIVE one)
#   {"kind": "trainable"}            q._set_trainable_parameter(), what every
#                                    layer constructor does to its kernel
#                                    quantizer (alpha None -> 'auto_po2', ...)
#   {"kind": "qdense"}               QDense(4, kernel_quantizer=q); the live
#                                    object is layer.kernel_quantizer_internal
#   {"kind": "assign", "attr", "value"}   q.attr = value for the attributes
#                                    quantized_linear documents as modifiable
#   "after_call": True               mutate after the first call of q
ASSIGNABLE = {
    "quantized_linear": [("symmetric", 0), ("symmetric", 1),
                         ("alpha", "auto"), ("alpha", "auto_po2")],
}


def mutations(cls):
  out = [{"kind": "trainable"}, {"kind": "qdense"}]
  out += [{"kind": "assign", "attr": a, "value": v}
          for a, v in ASSIGNABLE.get(cls, [])]
  return out


def mutation_name(m):
  if not m:
    return None
  n = m["kind"] if m["kind"] != "assign" else "assign_" + m["attr"]
  return n


def apply_mutation(q, m):
  import tensorflow as tf  # pylint: disable=g-import-not-at-top
  if m.get("after_call"):
    try:
      q(tf.constant(probe("r2")))
    except Exception:  # pylint: disable=broad-except
      pass
  if m["kind"] == "trainable":
    q._set_trainable_parameter()  # pylint: disable=protected-access
  elif m["kind"] == "qdense":
    from qkeras import QDense  # pylint: disable=g-import-not-at-top
    layer = QDense(4, kernel_quantizer=q)
    q = layer.kernel_quantizer_internal
  elif m["kind"] == "assign":
    setattr(q, m["attr"], decode(m["value"]))
  else:
    raise ValueError(m)
  return q


def build(cls, kw, post=None):
  """Constructs the quantizer; `post` = {"qn_update": True|"var",
  "mutate": {...}} describes what happens to it after construction.
  With qn_update the qnoise_factor of kw is not passed to the constructor but
  set afterwards through the documented update_qnoise_factor() (after a first
  call when use_variables made it a tf.Variable; "var" passes a tf.Variable as
  QNoiseScheduler does).  `mutate` see above."""
  from qkeras import quantizers as Q  # pylint: disable=g-import-not-at-top
  post = post or {}
  qn_update = post.get("qn_update")
  if qn_update:
    import tensorflow as tf  # pylint: disable=g-import-not-at-top
    q = getattr(Q, cls)(**{k: decode(v) for k, v in kw.items()
                           if k != "qnoise_factor"})
    if kw.get("use_variables"):
      q(tf.constant([0.5, -0.25], dtype=tf.float32))
    if "qnoise_factor" in kw:
      v = kw["qnoise_factor"]
      if qn_update == "var":      # the scheduler hands over a tf.Variable
        v = tf.Variable(v, dtype=tf.float32, trainable=False)
      q.update_qnoise_factor(v)
  else:
    q = getattr(Q, cls)(**{k: decode(v) for k, v in kw.items()})
  if post.get("mutate"):
    q = apply_mutation(q, post["mutate"])
  return q


def post_of(case):
  """The post-construction part of a case, or None."""
  p = {k: case[k] for k in ("qn_update", "mutate", "flip") if case.get(k)}
  return p or None


# ---------------------------------------------------------------------------
# probes.  Every probe has last dimension 4 (per-channel array alphas have 4
# entries) and even sizes on axes 0 and 1 (elements_per_scale = 2).  The values
# are a fixed formula (no RNG): magnitudes differ along every axis so that
# scale_axis / elements_per_scale / exponent bounds change the auto scales;
# they include negatives, zeros, values between codes of every format in the
# lattice, values beyond the clip ranges (|x| up to 12) and values in
# (0.33, 0.5) for the ternary thresholds.


def _probe(shape):
  n = int(np.prod(shape))
  idx = np.arange(n, dtype=np.int64)
  # deterministic "mantissa" in (0.3, 1): Weyl sequence
  frac = ((idx * 2654435761) % 1000003) / 1000003.0
  mant = 0.3 + 0.7 * frac
  sign = np.where((idx * 7 + idx // 3) % 3 == 0, -1.0, 1.0)
  x = (mant * sign).reshape(shape)
  mag = np.ones(shape)
  for ax, s in enumerate(shape):
    g = np.array([2.0 ** (((k * (ax + 2)) % 5) - 2 - ax % 2) for k in range(s)])
    sh = [1] * len(shape)
    sh[ax] = s
    mag = mag * g.reshape(sh)
  x = x * mag
  flat = x.reshape(-1)
  flat[n // 3] = 0.0
  flat[n // 2] = 0.41
  flat[(2 * n) // 3] = -0.41
  flat[n - 1] = -12.0
  flat[0] = 9.5
  return flat.reshape(shape).astype(np.float32)


PROBE_SHAPES = {"r1": (4,), "r2": (4, 4), "r4": (2, 2, 4, 4)}
_probe_cache = {}


def probe(pid):
  if pid not in _probe_cache:
    _probe_cache[pid] = _probe(PROBE_SHAPES[pid])
  return _probe_cache[pid]


HYP_SHAPES = [[4], [2, 4], [4, 4], [2, 2, 4], [2, 4, 2, 4]]


def probe_from_case(p):
  """p is a probe id or {"shape": [...], "xs": [...]}."""
  if isinstance(p, str):
    return probe(p)
  return np.asarray(p["xs"], dtype=np.float32).reshape(p["shape"])


# ---------------------------------------------------------------------------
# observations


def observe(q, probes, seed, phases=(0, 1)):
  """Calls q on every probe under learning phase 0 and 1 and records output
  and `scale` (or the exception type).  The TF seed is re-armed once per
  observation sequence (tf.random.set_seed clears the kernel caches and
  triples the cost of the next call): two quantizers with the same
  configuration execute the same sequence of random ops and therefore see the
  same random numbers."""
  import tensorflow as tf  # pylint: disable=g-import-not-at-top
  K = tf.keras.backend
  out = []
  try:
    tf.random.set_seed(seed)
    for p in probes:
      x = probe_from_case(p)
      for ph in phases:
        K.set_learning_phase(ph)
        try:
          y = np.asarray(q(tf.constant(x)))
          sc = getattr(q, "scale", None)
          if sc is not None:
            sc = np.asarray(sc)
          out.append(("ok", y, sc))
        except Exception as e:  # pylint: disable=broad-except
          out.append(("raise", type(e).__name__, None))
  finally:
    K.set_learning_phase(0)
  return out


def _arr_eq(a, b):
  if a is None or b is None:
    return a is None and b is None
  a, b = np.asarray(a), np.asarray(b)
  if a.shape != b.shape:
    return False
  if a.dtype.kind in "fc" or b.dtype.kind in "fc":
    return bool(np.array_equal(a, b, equal_nan=True))
  return bool(np.array_equal(a, b))


def obs_diff(o1, o2, probes=None, phases=(0, 1), with_scale=True):
  """None if equal, else (effect, detail) for the first difference."""
  for i, (a, b) in enumerate(zip(o1, o2)):
    where = "obs#%d" % i
    if probes is not None:
      p = probes[i // len(phases)]
      where = "probe=%s phase=%d" % (p if isinstance(p, str) else "case",
                                     phases[i % len(phases)])
    if a[0] != b[0]:
      if b[0] == "raise":
        return ("call_raises", "%s: original returns, rebuilt raises %s" %
                (where, b[1]))
      return ("call_returns", "%s: original raises %s, rebuilt returns" %
              (where, a[1]))
    if a[0] == "raise":
      if a[1] != b[1]:
        return ("call_raises", "%s: original raises %s, rebuilt %s" %
                (where, a[1], b[1]))
      continue
    if not _arr_eq(a[1], b[1]):
      ya, yb = np.asarray(a[1]), np.asarray(b[1])
      if ya.shape != yb.shape:
        return ("output", "%s: output shapes %s vs %s" %
                (where, ya.shape, yb.shape))
      d = np.abs(ya.astype(np.float64) - yb.astype(np.float64))
      d = np.where(np.isnan(d), np.inf, d)
      j = int(np.argmax(d))
      return ("output", "%s: %d/%d elements differ, e.g. flat[%d]: original "
              "%r rebuilt %r" % (where, int((d > 0).sum()), d.size, j,
                                 ya.reshape(-1)[j], yb.reshape(-1)[j]))
    if with_scale and not _arr_eq(a[2], b[2]):
      return ("scale", "%s: equal outputs but scale original %r rebuilt %r" %
              (where, _short(a[2]), _short(b[2])))
  return None


def _short(a):
  if a is None:
    return None
  return np.asarray(a).reshape(-1)[:6].tolist()


def any_ok(obs):
  return any(o[0] == "ok" for o in obs)


# ---------------------------------------------------------------------------
# reduction: minimal failing option set and the options that were lost


def ddmin(cls, kw, still_fails):
  """1-minimal sub-dictionary of kw (options removed = constructor default)
  that is admissible and for which still_fails(sub_kw) holds."""
  cur = dict(kw)
  changed = True
  while changed:
    changed = False
    for k in sorted(cur):
      if k not in cur:
        continue
      cand = {a: b for a, b in cur.items() if a != k}
      if admissible(cls, cand) and still_fails(cand):
        cur = cand
        changed = True
  return cur


def find_lost(kw, obs_rebuilt, observe_direct, hint, with_scale=True,
              max_tries=30):
  """Smallest set L of options such that a quantizer built directly without
  L behaves like the rebuilt one on every probe (None: nothing found).
  `hint` (options the rebuilt object visibly does not carry) only orders the
  search; the verdict is behavioural."""

  def explains(sub):
    cand = {a: b for a, b in kw.items() if a not in sub}
    try:
      o = observe_direct(cand)
    except Exception:  # pylint: disable=broad-except
      return False
    return obs_diff(o, obs_rebuilt, with_scale=with_scale) is None

  if hint and explains(hint):
    lost = list(hint)
    for o in list(lost):
      t = [x for x in lost if x != o]
      if t and explains(t):
        lost = t
    return sorted(lost)
  tries = 0
  for size in (1, 2):
    for sub in itertools.combinations(sorted(kw), size):
      tries += 1
      if tries > max_tries:
        return None
      if explains(sub):
        return sorted(sub)
  return None


def analyse(cls, kw, route, evaluate, observe_direct, is_known,
            with_scale=True, depth=0, unexplained=None):
  """Root causes of the failure of `route` on configuration kw.

  evaluate(kw) -> object with attributes/methods
      ctor            False if the constructor of the original raised
      fid(route)      None | ("mismatch", None, None) | (kind, exc, frame)
      static_fid(route)  the same for failures that need no observation
      robs(route)     observations of the rebuilt quantizer
      detail[route]   text
      hint(route)     options the rebuilt object visibly does not carry
  Returns a list of (signature_fields, detail, minimal_kw); the caller adds
  class / route to the signature.  Raising failures are reduced to the
  1-minimal option set (ddmin over options; removed option = default);
  mismatches are attributed to the options the rebuilt quantizer lost."""
  kw = nondefault(cls, kw)
  ev = evaluate(kw)
  if not ev.ctor:
    return []
  fid = ev.fid(route)
  if fid is None:
    return []

  def rec(k):
    return analyse(cls, k, route, evaluate, observe_direct, is_known,
                   with_scale, depth + 1, unexplained)

  def mk(m, sig, e):
    return (sig, "%s(%s): %s" % (cls, kwstr(m), e.detail[route]), m)

  base = {"kind": fid[0]}
  if fid[0] != "mismatch":
    def still(k):
      e = evaluate(k)
      return e.ctor and e.static_fid(route) == fid
    m = ddmin(cls, kw, still)
    sig = dict(base, exc=fid[1], frame=fid[2], options=kwstr(m))
    out = [mk(m, sig, evaluate(m))]
    rest = {k: v for k, v in kw.items() if k not in m}
    if m and depth < 5 and admissible(cls, rest):
      out += rec(rest)
    return out

  lost = find_lost(kw, ev.robs(route), observe_direct, ev.hint(route),
                   with_scale)
  if lost is not None and len(lost) == 1:
    sig = dict(base, lost_options=lost)
    m = kw
    if not is_known(sig):
      def still1(k):
        e = evaluate(k)
        return e.ctor and lost[0] in k and e.fid(route) == fid
      m = ddmin(cls, kw, still1)
    return [mk(m, sig, evaluate(m))]
  if lost is not None:
    # several options lost at once: attribute each one separately; an option
    # that is only admissible together with another lost one (elements_per_
    # scale needs scale_axis) is reported jointly with that companion
    def without(drop):
      return {a: b for a, b in kw.items() if a not in drop}
    joint = mk(kw, dict(base, lost_options=lost), ev)
    out = []
    if depth < 5:
      for o in lost:
        others = [x for x in lost if x != o]
        k1 = without(others)
        if admissible(cls, k1):
          out += rec(k1)
          continue
        for p_ in others:
          k2 = without([x for x in others if x != p_])
          if admissible(cls, k2):
            if len(k2) == len(kw):
              out.append(joint)
            else:
              out += rec(k2)
            break
        else:
          out.append(joint)
    if not out:
      # not separable on these probes: every member of `lost` is lost
      out = [mk(kw, dict(base, lost_options=[o]), ev) for o in lost]
    return out
  # unexplained: reduce to the 1-minimal failing option set
  def still2(k):
    e = evaluate(k)
    return e.ctor and e.fid(route) == fid
  m = ddmin(cls, kw, still2)
  evm = evaluate(m)
  lost = find_lost(m, evm.robs(route), observe_direct, evm.hint(route),
                   with_scale)
  if lost is not None:
    sig = dict(base, lost_options=lost)
  else:
    sig = dict(base, lost_options="unexplained")
    sig.update(unexplained(evm) if unexplained else {"options": kwstr(m)})
  out = [mk(m, sig, evm)]
  rest = {k: v for k, v in kw.items() if k not in m}
  if m and depth < 5 and admissible(cls, rest):
    out += rec(rest)
  return out


# ---------------------------------------------------------------------------
# deterministic enumerations


# extra enabling contexts for the one-option-at-a-time enumeration: options
# that are only admissible / observable next to another one (elements_per_scale
# needs auto_po2 + scale_axis, is_quantized_clip / use_ste need
# qnoise_factor < 1, relu_upper_bound needs is_quantized_clip=False; the
# use_ste contexts are configurations where the two formulas differ in the
# last ulp on the probes)
_EPS_CTX = [{"alpha": "auto_po2", "scale_axis": 0},
            {"alpha": "auto_po2", "scale_axis": [0, 1]}]
EXTRA_CONTEXTS = {
    "quantized_bits": [{"alpha": 2.0, "qnoise_factor": 0.5}] + _EPS_CTX,
    "binary": _EPS_CTX,
    "quantized_relu": [{"qnoise_factor": 0.5}, {"is_quantized_clip": False},
                       {"qnoise_factor": 0.5, "use_stochastic_rounding": True,
                        "bits": 4, "integer": 1}],
    "quantized_po2": [{"bits": 4, "qnoise_factor": 0.5}],
    "quantized_relu_po2": [{"negative_slope": 0.25, "bits": 4,
                            "qnoise_factor": 0.5}],
    "stochastic_ternary": [{"alpha": "auto", "temperature": 2.0}],
}


def _contexts(cls):
  doms = dict(SPEC[cls])
  out = [{}]
  if "alpha" in doms:
    out = [({} if a is None else {"alpha": a}) for a in doms["alpha"]({})]
  return out + EXTRA_CONTEXTS.get(cls, [])


def singles(cls):
  """Every non-default value of every option on top of every context.
  -> list of (kw, option_name or None)."""
  out, seen = [], set()
  for ctx in _contexts(cls):
    for kw, o in [(ctx, None)] + [(dict(ctx, **{p: v}), p)
                                  for p, dom in SPEC[cls] if p not in ctx
                                  for v in _all_values(cls, p)]:
      if not admissible(cls, kw):
        continue
      kw = nondefault(cls, kw)
      if o is not None and o not in kw:
        continue
      k = jkey(kw)
      if k not in seen:
        seen.add(k)
        out.append((kw, o))
  return out


def _all_values(cls, p):
  """Union of the domain of p over the contexts that enable it."""
  vals = []
  probes = [{}, {"alpha": "auto"}, {"alpha": "auto_po2"}, {"alpha": 2.0},
            {"alpha": "auto_po2", "scale_axis": 0},
            {"alpha": "auto_po2", "scale_axis": [0, 1]}]
  dom = dict(SPEC[cls])[p]
  for c in probes:
    for v in dom(full_kw(cls, {k: w for k, w in c.items()
                               if k in dict(SPEC[cls])})):
      if not any(_same(v, w) for w in vals):
        vals.append(v)
  return vals


def _hash_config(cls, n):
  """n-th pseudo-random admissible configuration (hash-driven, no RNG)."""
  kw = {}
  for p, dom in SPEC[cls]:
    vals = dom(full_kw(cls, kw))
    kw[p] = vals[core.jhash([cls, n, p]) % len(vals)]
  return kw


def pairwise(cls, pool=40, max_cases=400):
  """Greedy pairwise-covering set of admissible configurations: every pair of
  (option=value, option=value) that is jointly admissible occurs in at least
  one returned configuration.  Deterministic (hash-driven candidates)."""
  params = [p for p, _ in SPEC[cls]]
  vals = {p: _all_values(cls, p) for p in params}

  def pairs_of(kwf):
    items = [(p, jkey(kwf[p])) for p in params]
    return set(itertools.combinations(items, 2))

  # feasible pairs: found in a large deterministic sample or by direct
  # construction on top of an enabling context
  want = set()
  sample = [_hash_config(cls, n) for n in range(600)]
  for kw in sample:
    want |= pairs_of(full_kw(cls, kw))
  direct = {}
  ctxs = [{}, {"alpha": "auto"}, {"alpha": "auto_po2"}, {"alpha": 2.0},
          {"alpha": "auto_po2", "scale_axis": 0},
          {"alpha": "auto_po2", "scale_axis": [0, 1]}]
  ctxs = [{k: v for k, v in c.items() if k in vals} for c in ctxs]
  for (p1, p2) in itertools.combinations(params, 2):
    for v1 in vals[p1]:
      for v2 in vals[p2]:
        pr = ((p1, jkey(v1)), (p2, jkey(v2)))
        if pr in want:
          continue
        for c in ctxs:
          kw = dict(c)
          kw[p1] = v1
          kw[p2] = v2
          if admissible(cls, kw):
            want.add(pr)
            direct[pr] = kw
            break
  uncovered = set(want)
  out = []
  n = 0
  stall = 0
  while uncovered and len(out) < max_cases:
    best, gain = None, 0
    for _ in range(pool):
      kw = sample[n % len(sample)] if n < len(sample) else _hash_config(cls, n)
      n += 1
      g = len(pairs_of(full_kw(cls, kw)) & uncovered)
      if g > gain:
        best, gain = kw, g
    if best is None:
      stall += 1
      if stall < 3:
        continue
      # finish by direct construction
      pr = sorted(uncovered)[0]
      kw = direct.get(pr)
      if kw is None:
        # pair only seen inside sampled configurations: take that one
        kw = next(k for k in sample if pr in pairs_of(full_kw(cls, k)))
      best = kw
    else:
      stall = 0
    uncovered -= pairs_of(full_kw(cls, best))
    out.append(nondefault(cls, best))
  return out, len(want), len(uncovered)


def full_product(cls, limit=5000):
  """All admissible configurations, or None if there are more than limit."""
  out = [{}]
  for p, dom in SPEC[cls]:
    nxt = []
    for kw in out:
      for v in dom(full_kw(cls, kw)):
        nxt.append(dict(kw, **{p: v}))
    out = nxt
    if len(out) > limit * 8:
      return None
  if len(out) > limit:
    return None
  return [nondefault(cls, kw) for kw in out]


_lat_cache = {}


def lattice(tier):
  """Deterministic list of configs {"cls","kw"[,"single"]} (non-default
  options only): first, for every class, the one-option-at-a-time cases and
  the pairwise cover (= the quick lattice); in the thorough tier followed by
  the full admissible product of every class that has at most 1600
  configurations."""
  if tier in _lat_cache:
    return _lat_cache[tier]
  cfgs, seen, info = [], set(), {}

  def add(cls, kw, o=None):
    k = cls + jkey(kw)
    if k not in seen:
      seen.add(k)
      c = {"cls": cls, "kw": kw}
      if o is not None:
        c["single"] = o
      cfgs.append(c)

  for cls in CLASSES:
    sg = singles(cls)
    pw, npairs, left = pairwise(cls)
    info[cls] = {"singles": len(sg), "pairwise_cases": len(pw),
                 "pairs": npairs, "pairs_uncovered": left}
    for kw, o in sg:
      add(cls, kw, o)
    for kw in pw:
      add(cls, kw)
  if tier == "thorough":
    for cls in CLASSES:
      fp = full_product(cls, limit=1600)
      info[cls]["full_product"] = None if fp is None else len(fp)
      for kw in fp or []:
        add(cls, kw)
  _lat_cache[tier] = (cfgs, info)
  return _lat_cache[tier]


# ---------------------------------------------------------------------------
# Hypothesis strategy


def config_strategy(classes=None, text_only=False):
  """Draws {"cls", "kw"}: every option independently default / non-default,
  domains resolved in SPEC order so the result is admissible by construction."""
  from hypothesis import strategies as st  # pylint: disable=g-import-not-at-top

  @st.composite
  def cfg(draw):
    cls = draw(st.sampled_from(classes or CLASSES))
    kw = {}
    for p, dom in SPEC[cls]:
      vals = dom(full_kw(cls, kw))
      if text_only:
        vals = [v for v in vals if textable(v)]
      if len(vals) > 1 and draw(st.integers(0, 2)) > 0:
        kw[p] = draw(st.sampled_from(vals))
    return {"cls": cls, "kw": nondefault(cls, kw)}
  return cfg()


def probe_strategy():
  from hypothesis import strategies as st  # pylint: disable=g-import-not-at-top
  pool = [0.0, 0.41, -0.41, 0.3, -0.3, 0.75, -1.0, 1.0, 1.5, -2.5, 3.0, 6.5,
          -12.0, 0.05, -0.07, 0.0078125, 0.12]
  elem = st.one_of(
      st.sampled_from(pool),
      st.floats(min_value=-16.0, max_value=16.0, width=32, allow_nan=False),
      st.floats(min_value=-1.0, max_value=1.0, width=32, allow_nan=False))

  @st.composite
  def pr(draw):
    if draw(st.integers(0, 3)) == 0:
      return draw(st.sampled_from(sorted(PROBE_SHAPES)))
    shape = draw(st.sampled_from(HYP_SHAPES))
    n = int(np.prod(shape))
    xs = draw(st.lists(elem, min_size=n, max_size=n))
    return {"shape": shape, "xs": [float(np.float32(v)) for v in xs]}
  return pr()
