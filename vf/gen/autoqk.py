"""C20 generators: reference-model / limit / configuration descriptions (plain
JSON values), the recording tuner stub, fixed specs for exhaustive DFS, and the
descriptions used for the forgiving-factor size model.

A *spec* is
  {"input": [dims], "layers": [layer dicts], "limit": [[key, entry], ...]
   (ordered: dictionary order matters for regular-expression keys),
   "layer_indexes": null | [int] (may be empty = nothing selected),
   "li_form": "list"|"tuple"|"range"|"set"|"frozenset" (container handed to the
   hyper-model; absent = "list"), "route": "hypermodel"|"autoqkeras" (who
   constructs the hyper-model; absent = "hypermodel"), "tune_filters": "none"|"layer"|"block",
   "tune_exc": regex, "activation_bits": int,
   "qconfig": "default" | {section: [[string, bits], ...]}}
and a *trial case* is {"kind": "trial", "spec": spec, "decisions": [int]}: the
k-th choice point with more than one option takes option decisions[k] % arity
(0 when the list is exhausted) - every assignment reachable through the tuner
interface is some decision list.
"""
import copy

from hypothesis import strategies as st

from vf.ref import autoqk as R

# ---------------------------------------------------------------------------
# tuner stub


class EmptyChoice(ValueError):
  """keras_tuner raises ValueError('`values` must be provided') as well."""


class RecordingHP(object):
  """Stands in for keras_tuner.HyperParameters: same retrieval semantics (a
  name that was already registered returns its stored value), every new name
  is a choice point."""

  def __init__(self, decisions):
    self.decisions = list(decisions)
    self.rec = []          # (name, values, chosen_index)
    self.values = {}
    self.used = 0

  def _pick(self, name, values):
    if name in self.values:
      return self.values[name]
    values = list(values)
    if not values:
      e = EmptyChoice("`values` must be provided for %s" % name)
      e.choice_name = name
      raise e
    if len(values) == 1:
      k = 0
    else:
      d = self.decisions[self.used] if self.used < len(self.decisions) else 0
      self.used += 1
      k = d % len(values)
    self.rec.append((name, values, k))
    self.values[name] = values[k]
    return values[k]

  def Choice(self, name, values, default=None, **kw):  # pylint: disable=invalid-name
    return self._pick(name, values)

  def Fixed(self, name, value, **kw):  # pylint: disable=invalid-name
    return self._pick(name, [value])

  def arities(self):
    return [len(v) for _, v, _ in self.rec if len(v) > 1]

  def effective(self):
    return [k for _, v, k in self.rec if len(v) > 1]


class StubTuner(object):
  """custom_tuner for AutoQKeras(...): stores what the wrapper hands over and
  never builds, searches or writes anything."""

  def __init__(self, hypermodel, **kwargs):
    self.hypermodel = hypermodel
    self.kwargs = kwargs

  def search_space_summary(self):
    pass


# ---------------------------------------------------------------------------
# model builder (stock Keras, functional chain, explicit names)


def build_model(spec, units_override=None):
  import tensorflow as tf  # pylint: disable=g-import-not-at-top
  L = tf.keras.layers
  ov = units_override or {}
  x = xi = L.Input(tuple(spec["input"]), name="input")
  for l in spec["layers"]:
    k, n = l["k"], l["name"]
    if k == "Dense":
      x = L.Dense(ov.get(n, l["units"]), activation=l.get("act"),
                  use_bias=l.get("use_bias", True), name=n)(x)
    elif k == "Conv2D":
      x = L.Conv2D(ov.get(n, l["filters"]), l["ks"], padding=l.get("padding", "valid"),
                   activation=l.get("act"), use_bias=l.get("use_bias", True),
                   name=n)(x)
    elif k == "Conv1D":
      x = L.Conv1D(ov.get(n, l["filters"]), l["ks"], padding=l.get("padding", "valid"),
                   activation=l.get("act"), use_bias=l.get("use_bias", True),
                   name=n)(x)
    elif k == "DepthwiseConv2D":
      x = L.DepthwiseConv2D(l["ks"], padding=l.get("padding", "valid"),
                            activation=l.get("act"),
                            use_bias=l.get("use_bias", True), name=n)(x)
    elif k == "SeparableConv2D":
      x = L.SeparableConv2D(ov.get(n, l["filters"]), l["ks"],
                            padding=l.get("padding", "valid"),
                            activation=l.get("act"),
                            use_bias=l.get("use_bias", True), name=n)(x)
    elif k == "Activation":
      x = L.Activation(l["act"], name=n)(x)
    elif k == "BatchNormalization":
      x = L.BatchNormalization(name=n)(x)
    elif k == "Flatten":
      x = L.Flatten(name=n)(x)
    elif k == "MaxPooling2D":
      x = L.MaxPooling2D(2, name=n)(x)
    elif k == "Dropout":
      x = L.Dropout(0.25, name=n)(x)
    elif k == "LSTM":
      x = L.LSTM(l["units"], return_sequences=l.get("rs", False),
                 use_bias=l.get("use_bias", True), name=n)(x)
    elif k == "GRU":
      x = L.GRU(l["units"], return_sequences=l.get("rs", False),
                reset_after=l.get("reset_after", False),
                use_bias=l.get("use_bias", True), name=n)(x)
    elif k == "SimpleRNN":
      x = L.SimpleRNN(l["units"], return_sequences=l.get("rs", False),
                      use_bias=l.get("use_bias", True), name=n)(x)
    elif k == "Bidirectional":
      inner = L.LSTM(l["units"], return_sequences=l.get("rs", False))
      x = L.Bidirectional(inner, name=n)(x)
    else:
      raise ValueError("unknown layer kind %r" % k)
  return tf.keras.models.Model(xi, x)


def limit_dict(spec):
  """A fresh dict in the order of the spec (the hyper-model edits it)."""
  d = {}
  for k, v in spec["limit"]:
    d[k] = copy.deepcopy(v)
  return d


def qconfig_dict(spec):
  if spec.get("qconfig", "default") == "default":
    return None
  return {sec: {s: b for s, b in pairs}
          for sec, pairs in spec["qconfig"].items()}


# ---------------------------------------------------------------------------
# quantizer-string pools for generated configurations.  No string prints like
# quantized_relu(N,0) / quantized_tanh(N) / quantized_sigmoid(N), i.e. like
# what model_quantize substitutes from `activation_bits`, so "came from the
# configuration" is decidable from the printed form.

POOL = {
    "kernel": R.DEFAULT_QCONFIG["kernel"] + [
        ["quantized_bits(3,0,1)", 3], ["quantized_bits(6,0,1,alpha=1.0)", 6],
        ["quantized_bits(16,4,1)", 16], ["quantized_po2(3,1)", 3]],
    "bias": R.DEFAULT_QCONFIG["bias"] + [
        ["quantized_bits(2,0,1)", 2], ["quantized_bits(6,2,1)", 6],
        ["quantized_bits(16,7,1)", 16]],
    "activation": R.DEFAULT_QCONFIG["activation"] + [
        ["quantized_relu(2,1)", 2], ["quantized_relu(6,2)", 6],
        ["quantized_relu(5,1)", 5]],
    "linear": R.DEFAULT_QCONFIG["linear"] + [
        ["quantized_bits(3,1)", 3], ["quantized_bits(6,3)", 6]],
    "recurrent_activation": [
        ["binary", 1], ["quantized_sigmoid(3)", 3], ["quantized_sigmoid(5)", 5],
        ["quantized_sigmoid(8)", 8]],
}
SECTIONS = ["kernel", "bias", "activation", "linear"]


@st.composite
def qconfig_st(draw, need_ra):
  if not need_ra and draw(st.integers(0, 9)) < 4:
    return "default"
  qc = {}
  for sec in SECTIONS + (["recurrent_activation"] if need_ra else []):
    pool = POOL[sec]
    n = draw(st.integers(1, min(5, len(pool))))
    idx = sorted(draw(st.lists(st.integers(0, len(pool) - 1), min_size=n,
                               max_size=n, unique=True)))
    qc[sec] = [list(pool[i]) for i in idx]
  return qc


# ---------------------------------------------------------------------------
# layer stacks

NONLIN = ["relu", "tanh", "sigmoid", "elu"]


def _act_st(final=False):
  if final:
    return st.sampled_from([None, "softmax", "linear", "sigmoid"])
  return st.sampled_from([None, None, "relu", "relu", "tanh", "linear",
                          "sigmoid", "elu"])


@st.composite
def vec_layers(draw):
  layers = []
  nblocks = draw(st.integers(1, 3))
  special = draw(st.integers(0, 5)) == 0   # names that are prefixes of others
  for i in range(nblocks):
    nm = ("fc%d" % i) if special else ("dense_%d" % i)
    layers.append({"k": "Dense", "name": nm, "units": draw(st.integers(2, 6)),
                   "act": draw(_act_st()),
                   "use_bias": draw(st.integers(0, 4)) > 0})
    if draw(st.integers(0, 3)) == 0:
      layers.append({"k": "BatchNormalization", "name": "bn_%d" % i})
    if layers[-1].get("act") in (None, "linear") and draw(st.integers(0, 2)) > 0:
      layers.append({"k": "Activation", "name": "act_%d" % i,
                     "act": draw(st.sampled_from(["relu", "relu", "tanh",
                                                  "linear", "sigmoid"]))})
    if draw(st.integers(0, 7)) == 0:
      layers.append({"k": "Dropout", "name": "drop_%d" % i})
  fa = draw(_act_st(final=True))
  sep_softmax = fa == "softmax" and draw(st.booleans())
  layers.append({"k": "Dense", "name": "fc" if special else "dense",
                 "units": draw(st.integers(2, 4)),
                 "act": None if sep_softmax else fa, "use_bias": True})
  if sep_softmax:
    layers.append({"k": "Activation", "name": "softmax", "act": "softmax"})
  return [6], layers


@st.composite
def img_layers(draw):
  layers = []
  h = 6
  c = draw(st.integers(1, 2))
  inp = [h, h, c]
  nconv = draw(st.integers(1, 3))
  for i in range(nconv):
    kind = draw(st.sampled_from(["Conv2D", "Conv2D", "Conv2D", "DepthwiseConv2D",
                                 "SeparableConv2D"]))
    ks = draw(st.integers(1, min(3, h)))
    pad = draw(st.sampled_from(["valid", "same"]))
    nm = {"Conv2D": "conv2d_%d", "DepthwiseConv2D": "dw_%d",
          "SeparableConv2D": "sep_%d"}[kind] % i
    l = {"k": kind, "name": nm, "ks": ks, "padding": pad,
         "act": draw(_act_st()), "use_bias": draw(st.integers(0, 4)) > 0}
    if kind != "DepthwiseConv2D":
      l["filters"] = draw(st.integers(2, 4))
    layers.append(l)
    if pad == "valid":
      h = h - ks + 1
    if draw(st.integers(0, 3)) == 0:
      layers.append({"k": "BatchNormalization", "name": "bn_%d" % i})
    if l["act"] in (None, "linear") and draw(st.integers(0, 2)) > 0:
      layers.append({"k": "Activation", "name": "act_%d" % i,
                     "act": draw(st.sampled_from(["relu", "relu", "tanh",
                                                  "linear"]))})
    if h >= 4 and draw(st.integers(0, 4)) == 0:
      layers.append({"k": "MaxPooling2D", "name": "pool_%d" % i})
      h = h // 2
  layers.append({"k": "Flatten", "name": "flatten"})
  fa = draw(_act_st(final=True))
  sep_softmax = fa == "softmax" and draw(st.booleans())
  layers.append({"k": "Dense", "name": "dense", "units": draw(st.integers(2, 4)),
                 "act": None if sep_softmax else fa, "use_bias": True})
  if sep_softmax:
    layers.append({"k": "Activation", "name": "softmax", "act": "softmax"})
  return inp, layers


@st.composite
def seq_layers(draw):
  layers = []
  inp = [3, draw(st.integers(2, 3))]
  kind = draw(st.sampled_from(["LSTM", "GRU", "SimpleRNN", "Bidirectional"]))
  if draw(st.integers(0, 2)) == 0:
    layers.append({"k": "Conv1D", "name": "conv1d_0", "filters": 2, "ks": 1,
                   "padding": "valid", "act": draw(_act_st()), "use_bias": True})
  layers.append({"k": kind, "name": {"LSTM": "lstm_0", "GRU": "gru_0",
                                     "SimpleRNN": "rnn_0",
                                     "Bidirectional": "bi_0"}[kind],
                 "units": draw(st.integers(2, 3))})
  if kind == "GRU":
    layers[-1]["reset_after"] = draw(st.booleans())
  layers.append({"k": "Dense", "name": "dense", "units": 2,
                 "act": draw(_act_st(final=True)), "use_bias": True})
  return inp, layers


# ---------------------------------------------------------------------------
# limits


def _cls_of(l):
  return l["k"]


def _name_patterns(layers):
  """Candidate regular expressions over the layer names of this model."""
  names = [l["name"] for l in layers]
  cands = set()
  for n in names:
    cands.add("^%s$" % n)
    if "_" in n:
      stem, idx = n.rsplit("_", 1)
      cands.add("^%s_.*$" % stem)
      cands.add("^%s_[0-9]$" % stem)
      cands.add("^.*_%s$" % idx)
      cands.add(stem)            # un-anchored: re.match = prefix match
    else:
      cands.add(n)               # e.g. "dense" also matches dense_0, dense_1
  return sorted(cands)


def _min_bits(pairs):
  return min(b for _, b in pairs)


@st.composite
def _entry_st(draw, pairs, allow_list=True):
  """A limit entry for one role: max bits (>= smallest configured width, so
  the allowed set is never empty) or an explicit list of configured strings."""
  if allow_list and draw(st.integers(0, 4)) == 0:
    n = draw(st.integers(1, min(3, len(pairs))))
    idx = draw(st.lists(st.integers(0, len(pairs) - 1), min_size=n,
                        max_size=n, unique=True))
    return [pairs[i][0] for i in idx]
  lo = _min_bits(pairs)
  widths = sorted(set(b for _, b in pairs if b >= lo) | {lo, 4, 8, 16})
  widths = [w for w in widths if w >= lo]
  # tight limits (== a configured width) are the interesting boundary
  return draw(st.sampled_from(widths))


@st.composite
def limit_st(draw, layers, qc_pairs, force_last_only=False):
  classes = []
  for l in layers:
    if l["k"] not in classes:
      classes.append(l["k"])
  act_pairs = qc_pairs["activation"]
  lin_pairs = qc_pairs["linear"]

  def act_entry(matched_layers):
    lin = any(l["k"] == "Activation" and l["act"] == "linear"
              for l in matched_layers)
    if lin:
      lo = max(_min_bits(act_pairs), _min_bits(lin_pairs))
      return draw(st.sampled_from([w for w in (lo, 2, 3, 4, 8, 16) if w >= lo]))
    return draw(_entry_st(act_pairs))

  def full_entry(matched_layers, rnn):
    e = [draw(_entry_st(qc_pairs["kernel"])), draw(_entry_st(qc_pairs["bias"]))]
    if rnn:
      # "RNN":[weight,bias,recurrent,activation]; the activation entry also
      # bounds the recurrent activation, so it is a width admitting both
      e.append(draw(_entry_st(qc_pairs["kernel"])))
      lo = max(_min_bits(act_pairs), _min_bits(qc_pairs["recurrent_activation"]))
      e.append(draw(st.sampled_from([w for w in (lo, 3, 4, 5, 8, 16) if w >= lo])))
    else:
      e.append(act_entry(matched_layers))
    return e

  pairs = []
  # ---- 'default': absent (8), one number, or a list in the documented shape
  # of a limit list ([kernel, bias, activation] / [kernel, bias, recurrent,
  # activation]; the constructor asserts 3 <= len <= 4) with entries that
  # differ per role wherever the configuration allows it
  kmin, bmin = _min_bits(qc_pairs["kernel"]), _min_bits(qc_pairs["bias"])
  amin = _min_bits(act_pairs)
  if "recurrent_activation" in qc_pairs:
    amin = max(amin, _min_bits(qc_pairs["recurrent_activation"]))
  lo_all = max(kmin, bmin, amin)

  def cand(pairs_, lo, avoid=()):
    ws = sorted(set(b for _, b in pairs_ if b >= lo) |
                set(w for w in (2, 3, 4, 6, 8, 16) if w >= lo))
    pref = [w for w in ws if w not in avoid]
    return pref or ws

  dkind = draw(st.sampled_from(["none", "none", "scalar", "list3", "list4",
                                "list4"]))
  if dkind == "none" and lo_all > 8:
    dkind = "scalar"
  if dkind == "none":
    default = None
  elif dkind == "scalar":
    default = draw(st.sampled_from([w for w in (4, 8, 16) if w >= lo_all]))
  else:
    dk = draw(st.sampled_from(cand(qc_pairs["kernel"], kmin)))
    db = draw(st.sampled_from(cand(qc_pairs["bias"], bmin, avoid=(dk,))))
    dr = draw(st.sampled_from(cand(qc_pairs["kernel"], kmin, avoid=(db,))))
    da = draw(st.sampled_from(cand(act_pairs, amin, avoid=(db, dr))))
    default = [dk, db, da] if dkind == "list3" else [dk, db, dr, da]
  weight_layers = [l for l in layers if l["k"] in R.WEIGHT_CLASSES]
  if force_last_only:
    last = weight_layers[-1]
    pairs.append(["^%s$" % last["name"], full_entry([last], last["k"] in R.RNN_CLASSES)])
    if draw(st.booleans()) and any(l["k"] == "Activation" for l in layers):
      pairs.append(["Activation", [act_entry([l for l in layers if l["k"] == "Activation"])]])
  else:
    for c in classes:
      ml = [l for l in layers if l["k"] == c]
      if c in R.WEIGHT_CLASSES:
        if draw(st.integers(0, 7)) == 0:
          continue                       # class outside the limits
        e = full_entry(ml, c in R.RNN_CLASSES)
        # 'default replaces missing values': every length 0..full; a short
        # recurrent list needs the 4-entry default (the constructor asserts it)
        if c in R.RNN_CLASSES:
          if dkind == "list4" and draw(st.integers(0, 1)) == 0:
            e = e[:draw(st.integers(0, 3))]
        elif draw(st.integers(0, 2)) == 0:
          e = e[:draw(st.integers(0, 2))]
        pairs.append([c, e])
      elif c == "Activation":
        if draw(st.integers(0, 5)) == 0:
          continue
        pairs.append([c, [act_entry(ml)]])
      elif c == "BatchNormalization":
        if draw(st.booleans()):
          pairs.append([c, []])
    npat = draw(st.sampled_from([0, 1, 1, 2, 2]))
    import re  # pylint: disable=g-import-not-at-top
    cands = _name_patterns(layers)
    relevant = lambda l: l["k"] in R.WEIGHT_CLASSES or l["k"] == "Activation"  # pylint: disable=g-long-lambda
    multi = [p for p in cands
             if len([l for l in layers if re.match(p, l["name"]) and relevant(l)]) >= 2]
    pats = []
    for _ in range(npat):
      if multi and draw(st.integers(0, 2)) > 0:
        p = draw(st.sampled_from(multi))     # a real group (>= 2 layers)
      else:
        p = draw(st.sampled_from(cands))
      if p not in pats:
        pats.append(p)
    # effective membership: the first matching key (dictionary order) wins
    taken = set()
    ppairs = []
    for p in pats:
      ml = [l for l in layers if re.match(p, l["name"]) and l["name"] not in taken]
      taken.update(l["name"] for l in ml)
      wl = [l for l in ml if l["k"] in R.WEIGHT_CLASSES]
      al = [l for l in ml if l["k"] == "Activation"]
      if not wl:
        # documented form for activation groups: "^act_[0123]$": [4]
        # (also used for keys that end up matching no quantizable layer)
        e = [act_entry(al)]
      else:
        e = full_entry(ml, any(l["k"] in R.RNN_CLASSES for l in wl))
        if any(l["act"] == "linear" for l in al) and isinstance(e[0], list):
          e[0] = 8 if _min_bits(qc_pairs["kernel"]) <= 8 else 16
      ppairs.append([p, e])
    # class keys never match the (lower-case) layer names, so only the relative
    # order of the regular-expression keys matters
    pairs = (ppairs + pairs) if draw(st.booleans()) else (pairs + ppairs)
  pairs = [list(p) for p in pairs]
  # ---- sometimes one entry that NO configured string of its role satisfies
  # (numeric limit below the narrowest configured width): the library may
  # refuse to build a trial, but a trial that is built must respect it
  if draw(st.integers(0, 7)) == 0:
    slots = []
    for pi, (k, e) in enumerate(pairs):
      if not isinstance(e, list) or not e or len(e) == 4 or k in R.RNN_CLASSES:
        continue
      if k == "BatchNormalization":
        continue
      if len(e) == 1 and (k == "Activation" or k not in R.WEIGHT_CLASSES):
        slots.append((pi, 0, act_pairs))
        continue
      slots.append((pi, 0, qc_pairs["kernel"]))
      if len(e) >= 2:
        slots.append((pi, 1, qc_pairs["bias"]))
      if len(e) >= 3:
        slots.append((pi, 2, act_pairs))
    if slots:
      pi, pos, sec = draw(st.sampled_from(slots))
      pairs[pi][1] = list(pairs[pi][1])
      pairs[pi][1][pos] = _min_bits(sec) - 1
  if default is not None:
    pairs.append(["default", default])
  return pairs


LI_FORMS = ("list", "tuple", "range", "set", "frozenset")


def layer_indexes_value(spec):
  """The object handed to the hyper-model as `layer_indexes`: None or a
  container of layer ids in the spec's container form (the documentation only
  says 'layers whose ids are in layer_indexes')."""
  li = spec["layer_indexes"]
  form = spec.get("li_form", "list")
  if li is None:
    return None
  li = [int(i) for i in li]
  if form == "list":
    return list(li)
  if form == "tuple":
    return tuple(li)
  if form == "set":
    return set(li)
  if form == "frozenset":
    return frozenset(li)
  if form == "range":
    if not li:
      return range(0)
    if len(li) == 1:
      return range(li[0], li[0] + 1)
    step = li[1] - li[0]
    r = range(li[0], li[-1] + (1 if step > 0 else -1), step)
    if list(r) != li:
      raise ValueError("li_form 'range' needs an arithmetic progression: %r" % (li,))
    return r
  raise ValueError("unknown li_form %r" % (form,))


@st.composite
def layer_indexes_st(draw, n):
  """(layer_indexes, container form) for a model of n layers (InputLayer = 0).
  Every selection size 0..n is reachable - nothing selected, a single layer
  (possibly only the InputLayer), proper subsets, everything - in every
  container form; lists/tuples may be unsorted."""
  mode = draw(st.integers(0, 9))
  if mode <= 3:
    return None, "list"
  if mode <= 5:
    # notebook style: everything but the input and the last layer
    form = draw(st.sampled_from(LI_FORMS))
    return list(range(1, n - 1)), form
  form = draw(st.sampled_from(LI_FORMS))
  size = draw(st.sampled_from(["empty", "empty", "one", "all", "some", "some",
                               "some", "some"]))
  if form == "range":
    if size == "empty":
      return [], form                      # handed over as range(0)
    if size == "one":
      a = draw(st.integers(0, n - 1))
      return [a], form
    if size == "all":
      return list(range(n)), form
    a = draw(st.integers(0, n - 2))
    step = draw(st.sampled_from([1, 1, 2]))
    b = draw(st.integers(min(a + step + 1, n), n))
    return list(range(a, b, step)), form
  if size == "empty":
    return [], form
  if size == "all":
    k = n
  elif size == "one":
    k = 1
  else:
    k = draw(st.integers(1, n - 1))
  idx = draw(st.lists(st.integers(0, n - 1), min_size=k, max_size=k, unique=True))
  if form in ("list", "tuple") and draw(st.booleans()):
    return list(idx), form                 # drawn order (unsorted)
  return sorted(idx), form


@st.composite
def spec_st(draw):
  fam = draw(st.sampled_from(["vec", "vec", "vec", "img", "img", "img", "seq"]))
  inp, layers = draw({"vec": vec_layers, "img": img_layers,
                      "seq": seq_layers}[fam]())
  need_ra = fam == "seq"
  qc = draw(qconfig_st(need_ra))
  spec = {"input": inp, "layers": layers, "qconfig": qc}
  qc_pairs = R.qconfig_pairs(spec)
  tune = "none" if fam == "seq" else draw(st.sampled_from(
      ["none", "none", "none", "layer", "block"]))
  last_only = tune != "none" and draw(st.booleans())
  spec["limit"] = draw(limit_st(layers, qc_pairs, force_last_only=last_only))
  n = len(layers) + 1                  # + InputLayer
  spec["layer_indexes"], spec["li_form"] = draw(layer_indexes_st(n))
  spec["tune_filters"] = tune
  names = [l["name"] for l in layers]
  if last_only:
    spec["tune_exc"] = "^$"
  else:
    spec["tune_exc"] = draw(st.sampled_from(
        ["^$", "^$", "^dense$", "^dense", "^%s$" % draw(st.sampled_from(names))]))
  spec["activation_bits"] = draw(st.sampled_from([2, 4, 4, 6]))
  # usage route: hyper-model built directly, or by the AutoQKeras wrapper
  spec["route"] = draw(st.sampled_from(
      ["hypermodel", "hypermodel", "hypermodel", "autoqkeras"]))
  return spec


@st.composite
def trial_case_st(draw):
  spec = draw(spec_st())
  dec = draw(st.lists(st.integers(0, 59), min_size=16, max_size=16))
  return {"kind": "trial", "spec": spec, "decisions": dec}


# ---------------------------------------------------------------------------
# fixed specs for exhaustive enumeration (small choice trees)

_SMALL_QC = {
    "kernel": [["binary", 1], ["ternary", 2], ["quantized_bits(4,0,1)", 4],
               ["quantized_bits(8,0,1)", 8]],
    "bias": [["quantized_bits(4,0,1)", 4], ["quantized_bits(8,3,1)", 8]],
    "activation": [["quantized_relu(3,1)", 3], ["quantized_relu(4,2)", 4],
                   ["quantized_relu(8,2)", 8]],
    "linear": [["binary", 1], ["quantized_bits(4,1)", 4],
               ["quantized_bits(8,2)", 8]],
}


def dfs_specs(tier):
  specs = []
  # A: regular-expression groups + class limits + explicit list (48 leaves)
  specs.append({
      "input": [6],
      "layers": [
          {"k": "Dense", "name": "dense_0", "units": 5, "act": "relu", "use_bias": True},
          {"k": "Activation", "name": "act_0", "act": "relu"},
          {"k": "Dense", "name": "dense_1", "units": 4, "act": None, "use_bias": True},
          {"k": "Activation", "name": "act_1", "act": "tanh"},
          {"k": "Dense", "name": "dense", "units": 3, "act": None, "use_bias": True},
          {"k": "Activation", "name": "softmax", "act": "softmax"}],
      "limit": [["Dense", [4, 4, 4]], ["Activation", [8]],
                ["^dense_[01]$", [2, 8, 4]], ["^act_[01]$", [4]]],
      "layer_indexes": None, "tune_filters": "none", "tune_exc": "^$",
      "activation_bits": 4, "qconfig": _SMALL_QC, "arities": [2, 3, 2, 2, 2]})
  # B: layers outside the limits and outside layer_indexes (32 leaves)
  specs.append({
      "input": [6, 6, 1],
      "layers": [
          {"k": "Conv2D", "name": "conv2d_0", "filters": 3, "ks": 3, "padding": "valid", "act": "relu", "use_bias": True},
          {"k": "BatchNormalization", "name": "bn_0"},
          {"k": "Conv2D", "name": "conv2d_1", "filters": 2, "ks": 1, "padding": "same", "act": None, "use_bias": True},
          {"k": "Activation", "name": "act_1", "act": "relu"},
          {"k": "DepthwiseConv2D", "name": "dw_2", "ks": 2, "padding": "valid", "act": None, "use_bias": False},
          {"k": "Flatten", "name": "flatten"},
          {"k": "Dense", "name": "dense", "units": 3, "act": None, "use_bias": True},
          {"k": "Activation", "name": "softmax", "act": "softmax"}],
      "limit": [["Conv2D", [2, 4, 4]], ["Dense", [2]], ["Activation", [4]]],
      "layer_indexes": [1, 2, 3, 4, 5, 6],
      "tune_filters": "none", "tune_exc": "^$",
      "activation_bits": 6, "qconfig": _SMALL_QC, "arities": [2, 2, 2, 2, 2]})
  # C: per-layer filter tuning of the only quantized (last) layer (20 leaves)
  specs.append({
      "input": [5],
      "layers": [
          {"k": "Dense", "name": "fc_0", "units": 6, "act": "relu", "use_bias": True},
          {"k": "Dense", "name": "fc_1", "units": 3, "act": None, "use_bias": True},
          {"k": "Activation", "name": "softmax", "act": "softmax"}],
      "limit": [["^fc_1$", [["binary", "quantized_bits(4,0,1)"], 8, 4]]],
      "layer_indexes": None, "tune_filters": "layer", "tune_exc": "^$",
      "activation_bits": 4, "qconfig": _SMALL_QC, "arities": [2, 5, 2]})
  # D: block filter tuning with an exception pattern (2*2*... leaves)
  specs.append({
      "input": [5],
      "layers": [
          {"k": "Dense", "name": "fc_0", "units": 4, "act": None, "use_bias": True},
          {"k": "Activation", "name": "act_0", "act": "linear"},
          {"k": "Dense", "name": "dense", "units": 3, "act": "softmax", "use_bias": True}],
      "limit": [["Dense", [1, 4, 4]], ["Activation", [4]], ["default", 4]],
      "layer_indexes": None, "tune_filters": "block", "tune_exc": "^fc",
      "activation_bits": 4, "qconfig": _SMALL_QC, "arities": [5, 2]})
  # D2: block filter tuning that changes a layer feeding another quantized layer
  specs.append({
      "input": [4],
      "layers": [
          {"k": "Dense", "name": "fc_0", "units": 3, "act": "relu", "use_bias": True},
          {"k": "Dense", "name": "dense", "units": 2, "act": None, "use_bias": True}],
      "limit": [["Dense", [1, 4, 4]]],
      "layer_indexes": None, "tune_filters": "block", "tune_exc": "^$",
      "activation_bits": 4, "qconfig": _SMALL_QC, "arities": [5, 2]})
  # G: short class lists completed from a 4-entry 'default' whose entries all
  # differ ([kernel, bias, recurrent, activation]); bias strings of 4 widths
  specs.append({
      "input": [4, 2],
      "layers": [
          {"k": "Conv1D", "name": "conv1d_0", "filters": 2, "ks": 1, "padding": "valid", "act": "relu", "use_bias": True},
          {"k": "Flatten", "name": "flatten"},
          {"k": "Dense", "name": "dense", "units": 2, "act": None, "use_bias": True}],
      "limit": [["Dense", [4]], ["Conv1D", []], ["default", [2, 4, 8, 3]]],
      "layer_indexes": None, "tune_filters": "none", "tune_exc": "^$",
      "activation_bits": 4,
      "qconfig": {
          "kernel": [["binary", 1], ["ternary", 2], ["quantized_bits(4,0,1)", 4],
                     ["quantized_bits(8,0,1)", 8]],
          "bias": [["quantized_bits(2,0,1)", 2], ["quantized_bits(4,0,1)", 4],
                   ["quantized_bits(6,2,1)", 6], ["quantized_bits(8,3,1)", 8]],
          "activation": [["quantized_relu(3,1)", 3], ["quantized_relu(4,2)", 4],
                         ["quantized_relu(8,2)", 8]],
          "linear": [["quantized_bits(4,1)", 4]]},
      "arities": [2, 3, 2, 2]})
  # H: a bias limit that no configured bias string satisfies (one leaf)
  specs.append({
      "input": [4],
      "layers": [
          {"k": "Dense", "name": "fc_0", "units": 3, "act": None, "use_bias": True},
          {"k": "Activation", "name": "relu_0", "act": "relu"},
          {"k": "Dense", "name": "fc_1", "units": 2, "act": None, "use_bias": True}],
      "limit": [["Dense", [1, 2, 4]], ["Activation", [4]]],
      "layer_indexes": None, "tune_filters": "none", "tune_exc": "^$",
      "activation_bits": 4, "qconfig": _SMALL_QC, "arities": []})
  # I: boundary values of the layer selection on one model, one container form
  # each: nothing selected (no choice point, one leaf: the trial is the
  # reference), only the InputLayer, only the last layer, every layer
  # (the weight choice points are registered for every layer under the limits
  # before the selection is looked at, so each variant still has >= 4 leaves)
  for li, form, route, ar in (
      ([], "tuple", "hypermodel", [2, 2]), ([], "range", "autoqkeras", [2, 2]),
      ([0], "range", "hypermodel", [2, 2]), ([3], "frozenset", "hypermodel", [2, 2]),
      ([0, 1, 2, 3], "set", "autoqkeras", [2, 2, 2])):
    specs.append({
        "input": [4],
        "layers": [
            {"k": "Dense", "name": "fc_0", "units": 3, "act": None, "use_bias": True},
            {"k": "Activation", "name": "relu_0", "act": "relu"},
            {"k": "Dense", "name": "fc_1", "units": 2, "act": None, "use_bias": True}],
        "limit": [["Dense", [2, 4, 4]], ["Activation", [4]]],
        "layer_indexes": li, "li_form": form, "route": route,
        "tune_filters": "none", "tune_exc": "^$",
        "activation_bits": 4, "qconfig": _SMALL_QC, "arities": ar})
  if tier != "quick":
    # E: default configuration, conv stack with a group and list limits
    specs.append({
        "input": [6, 6, 1],
        "layers": [
            {"k": "Conv2D", "name": "conv2d_0", "filters": 2, "ks": 3, "padding": "valid", "act": None, "use_bias": True},
            {"k": "Activation", "name": "act_0", "act": "relu"},
            {"k": "Conv2D", "name": "conv2d_1", "filters": 2, "ks": 1, "padding": "valid", "act": None, "use_bias": True},
            {"k": "Activation", "name": "act_1", "act": "relu"},
            {"k": "Conv2D", "name": "conv2d_2", "filters": 2, "ks": 1, "padding": "valid", "act": None, "use_bias": False},
            {"k": "Activation", "name": "act_2", "act": "linear"},
            {"k": "Flatten", "name": "flatten"},
            {"k": "Dense", "name": "dense", "units": 3, "act": "softmax", "use_bias": True}],
        "limit": [["Dense", [1, 8, 4]], ["Conv2D", [4, 8, 4]], ["Activation", [4]],
                  ["^conv2d_0$", [["binary", "ternary", "quantized_bits(2,1,1,alpha=1.0)"], 8, 4]],
                  ["^conv2d_[12]$", [1, 4, 4]], ["^act_[01]$", [3]]],
        "layer_indexes": list(range(1, 8)), "tune_filters": "none",
        "tune_exc": "^$", "activation_bits": 4, "qconfig": "default",
        "arities": [3, 2, 2, 3, 4, 2, 3]})
    # F: recurrent layer, 4-entry limit
    qc = copy.deepcopy(_SMALL_QC)
    qc["recurrent_activation"] = [["binary", 1], ["quantized_sigmoid(5)", 5]]
    specs.append({
        "input": [3, 2],
        "layers": [
            {"k": "LSTM", "name": "lstm_0", "units": 2},
            {"k": "Dense", "name": "dense", "units": 2, "act": None, "use_bias": True}],
        "limit": [["LSTM", [2, 4, 2, 4]], ["Dense", [1, 4, 4]]],
        "layer_indexes": None, "tune_filters": "none", "tune_exc": "^$",
        "activation_bits": 4, "qconfig": qc, "arities": [2, 2, 2]})
  return specs


# ---------------------------------------------------------------------------
# Part B: forgiving factor

@st.composite
def delta_case_st(draw):
  # rate = k/16 and delta = k/8 are exact in float32 (the class stores float32)
  rate = draw(st.integers(17, 256)) / 16.0
  dp = draw(st.integers(1, 400)) / 8.0
  dn = draw(st.integers(1, 400)) / 8.0
  ref_i = draw(st.one_of(st.integers(1, 4096), st.integers(1, 2 ** 40)))
  stress = draw(st.sampled_from([1.0, 1.0, 0.5, 2.0, 1.5]))
  mode = draw(st.integers(0, 3))
  ref = ref_i * stress
  if mode == 0:
    t1 = draw(st.integers(1, 2 ** 40))
  elif mode == 1:       # neighbourhood of the reference
    t1 = max(1, int(ref) + draw(st.integers(-3, 3)))
  else:
    t1 = max(1, int(ref * draw(st.sampled_from([0.25, 0.5, 0.75, 1.0, 1.5, 2.0, 4.0]))) +
             draw(st.integers(-2, 2)))
  t2 = t1 + draw(st.one_of(st.integers(1, 3), st.integers(1, 2 ** 20)))
  return {"kind": "delta", "delta_p": dp, "delta_n": dn, "rate": rate,
          "ref_int": ref_i, "stress": stress, "t1": t1, "t2": t2}


_B_KQ = [["binary", 1], ["ternary", 2], ["stochastic_ternary", 2],
         ["quantized_bits(3,0,1)", 3], ["quantized_bits(4,0,1)", 4],
         ["quantized_bits(6,2,1,alpha=1.0)", 6], ["quantized_bits(8,0,1)", 8],
         ["quantized_po2(4,1)", 4], ["quantized_bits(16,4,1)", 16]]
_B_BQ = [["quantized_bits(2,0,1)", 2], ["quantized_bits(4,0,1)", 4],
         ["quantized_bits(8,3,1)", 8], ["quantized_po2(4,8)", 4],
         ["quantized_bits(12,3,1)", 12]]
_B_AQ = [["binary", 1], ["ternary", 2], ["quantized_relu(3,1)", 3],
         ["quantized_relu(4,2)", 4], ["quantized_relu(6,2)", 6],
         ["quantized_tanh(5)", 5], ["quantized_sigmoid(7)", 7],
         ["quantized_bits(8,2)", 8], ["quantized_relu_po2(4,4)", 4],
         ["quantized_relu(16,8)", 16]]


@st.composite
def size_case_st(draw):
  t = draw(st.sampled_from([8, 8, 16, 32, 4]))
  o = t if draw(st.booleans()) else draw(st.sampled_from([8, 16, 32]))
  i_bits = draw(st.sampled_from([8, 16, 1]))
  soft_ok = (o == t)      # softmax/sigmoid outputs: only where output == reference width
  fam = draw(st.sampled_from(["vec", "img", "seq1d"]))
  layers = []

  def wl(kind, name, final=False):
    l = {"k": kind, "name": name, "use_bias": draw(st.integers(0, 3)) > 0}
    q = kind.startswith("Q")
    if q:
      if draw(st.integers(0, 5)) > 0:
        s, b = draw(st.sampled_from(_B_KQ))
        l["kq"], l["kq_bits"] = s, b
      if l["use_bias"] and draw(st.integers(0, 3)) > 0:
        s, b = draw(st.sampled_from(_B_BQ))
        l["bq"], l["bq_bits"] = s, b
    acts = [None, None, "linear", "relu", "tanh", "elu"]
    if soft_ok:
      acts += ["softmax"] if final else []
    if q:
      acts += ["Q", "Q", "Q"]
    a = draw(st.sampled_from(acts))
    if a == "Q":
      s, b = draw(st.sampled_from(_B_AQ))
      l["act"], l["act_bits"] = s, b
    else:
      l["act"] = a
    return l

  def act_layer(name):
    q = draw(st.booleans())
    if q:
      s, b = draw(st.sampled_from(_B_AQ))
      return {"k": "QActivation", "name": name, "act": s, "act_bits": b}
    acts = ["relu", "tanh", "linear", "elu"] + (["softmax", "sigmoid"] if soft_ok else [])
    return {"k": "Activation", "name": name, "act": draw(st.sampled_from(acts))}

  def maybe_q(base):
    return ("Q" + base) if draw(st.booleans()) else base

  if fam == "img":
    h = draw(st.integers(4, 7))
    inp = [h, h, draw(st.integers(1, 3))]
    for i in range(draw(st.integers(1, 3))):
      base = draw(st.sampled_from(["Conv2D", "Conv2D", "DepthwiseConv2D"]))
      l = wl(maybe_q(base), "c%d" % i)
      l["ks"] = draw(st.integers(1, min(3, h)))
      l["padding"] = draw(st.sampled_from(["valid", "same"]))
      if base == "Conv2D":
        l["filters"] = draw(st.integers(1, 4))
      if l["padding"] == "valid":
        h = h - l["ks"] + 1
      layers.append(l)
      if draw(st.booleans()):
        layers.append(act_layer("a%d" % i))
      if h >= 4 and draw(st.integers(0, 3)) == 0:
        layers.append({"k": "MaxPooling2D", "name": "p%d" % i})
        h //= 2
    layers.append({"k": "Flatten", "name": "flatten"})
  elif fam == "seq1d":
    n = draw(st.integers(3, 6))
    inp = [n, draw(st.integers(1, 3))]
    for i in range(draw(st.integers(1, 2))):
      l = wl(maybe_q("Conv1D"), "c%d" % i)
      l["ks"] = draw(st.integers(1, min(2, n)))
      l["padding"] = draw(st.sampled_from(["valid", "same"]))
      l["filters"] = draw(st.integers(1, 4))
      if l["padding"] == "valid":
        n = n - l["ks"] + 1
      layers.append(l)
      if draw(st.booleans()):
        layers.append(act_layer("a%d" % i))
    layers.append({"k": "Flatten", "name": "flatten"})
  else:
    inp = [draw(st.integers(2, 7))]
  nd = draw(st.integers(1, 3))
  for i in range(nd):
    l = wl(maybe_q("Dense"), "d%d" % i, final=(i == nd - 1))
    l["units"] = draw(st.integers(1, 6))
    layers.append(l)
    if l.get("act") != "softmax" and draw(st.booleans()):
      layers.append(act_layer("da%d" % i))
  cfgk = draw(st.sampled_from(["default", "default", "params_only",
                               "acts_only", "per_class"]))
  return {"kind": "size", "input": inp, "layers": layers, "ref_bits": t,
          "output_bits": o, "input_bits": i_bits, "config": cfgk,
          "stress": draw(st.sampled_from([1.0, 1.0, 0.5, 2.0])),
          "delta_p": draw(st.integers(1, 80)) / 4.0,
          "delta_n": draw(st.integers(1, 80)) / 4.0,
          "rate": draw(st.integers(17, 64)) / 16.0}


def build_size_model(spec, strip=False):
  """Builds the (partly quantized) model of a size spec; strip=True builds its
  unquantized twin (reference model)."""
  import tensorflow as tf  # pylint: disable=g-import-not-at-top
  import qkeras  # pylint: disable=g-import-not-at-top
  L = tf.keras.layers
  x = xi = L.Input(tuple(spec["input"]), name="input")
  for l in spec["layers"]:
    k, n = l["k"], l["name"]
    q = k.startswith("Q") and not strip
    base = k[1:] if k.startswith("Q") else k
    act = l.get("act")
    if strip and l.get("act_bits"):
      act = "relu"
    kw = {}
    if q and base in ("Dense", "Conv2D", "Conv1D"):
      kw = {"kernel_quantizer": l.get("kq"), "bias_quantizer": l.get("bq")}
    elif q and base == "DepthwiseConv2D":
      kw = {"depthwise_quantizer": l.get("kq"), "bias_quantizer": l.get("bq")}
    mod = qkeras if q else L
    cname = ("Q" + base) if q else base
    if base == "Dense":
      x = getattr(mod, cname)(l["units"], activation=act, use_bias=l["use_bias"], name=n, **kw)(x)
    elif base in ("Conv2D", "Conv1D"):
      x = getattr(mod, cname)(l["filters"], l["ks"], padding=l["padding"], activation=act,
                              use_bias=l["use_bias"], name=n, **kw)(x)
    elif base == "DepthwiseConv2D":
      x = getattr(mod, cname)(l["ks"], padding=l["padding"], activation=act,
                              use_bias=l["use_bias"], name=n, **kw)(x)
    elif base == "Activation":
      if q:
        x = qkeras.QActivation(act, name=n)(x)
      else:
        x = L.Activation(act, name=n)(x)
    elif base == "Flatten":
      x = L.Flatten(name=n)(x)
    elif base == "MaxPooling2D":
      x = L.MaxPooling2D(2, name=n)(x)
    else:
      raise ValueError(k)
  return tf.keras.models.Model(xi, x)


def size_config(kind):
  if kind == "default":
    return {"default": ["parameters", "activations"]}
  if kind == "params_only":
    return {"default": ["parameters"]}
  if kind == "acts_only":
    return {"default": ["activations"]}
  return {"QDense": ["parameters", "activations"], "Dense": ["parameters", "activations"],
          "QConv2D": ["parameters", "activations"], "Conv2D": ["parameters"],
          "QConv1D": ["parameters"], "Conv1D": ["parameters", "activations"],
          "DepthwiseConv2D": ["parameters", "activations"],
          "QDepthwiseConv2D": ["activations"],
          "Activation": ["activations"], "QActivation": ["activations"],
          "default": ["activations"]}
