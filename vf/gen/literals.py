"""Grammar of quantizer-call strings (C10).

A *text case* is JSON:
    {"mode": "stub" | "order" | "quant" | "exotic",
     "head": name,
     "items": [[key_or_None, kind, spelling], ...],
     "sp":    [spaces after the i-th comma, ...]}
and is rendered by `render(case)` to
    head(item, item, key=item, ...)
in two spellings: the quantizer-string form (number lists are space separated,
`[1 2 3]`, the form binary.__str__'s callers and safe_eval's ListofNums use)
and the Python form (the same text with `[1, 2, 3]`), which the reference
evaluates with `ast`.

Literal kinds of the *sound* grammar (equality oracle):
    int    decimal, optional '-', no leading zeros, no underscores
    float  [-]digits.digits | [-].digits | [-]digits. | mantissa e/E [+-] exp
    bool   True | False
    none   None
    str    '...' or "..." with identifier-like content [A-Za-z0-9_]* (all
           documented string arguments are: 'auto', 'auto_po2', 'rnd', 'floor',
           variable names); includes the look-alikes 'True', 'None', '12'
    list   [n n ...] with >= 2 numbers, keyword position only
    list1  [n]      a one-element number list, keyword position only
Whitespace appears only after commas (the only form used in the repository).

Everything else (spaces around '=', quotes containing separators, nested
calls, attribute access, arithmetic, unquoted words, hex, comma lists,
positional lists ...) is generated only in mode "exotic", for the
no-code-execution / rejects-or-returns clause, never for the equality oracle.
"""
import ast
import keyword

SENTINEL = "__verif_sentinel__"

STR_CONTENTS = ["auto", "auto_po2", "rnd", "floor", "True", "False", "None",
                "12", "1e5", "0", "x", "kernel_0", "_", "A9", ""]

EXOTIC = [
    SENTINEL + "()", SENTINEL + "(1)", "a=" + SENTINEL + "()",
    "alpha=" + SENTINEL + "(2)", SENTINEL, SENTINEL + ".__call__",
    "x.__class__", "__import__('os').system('true')",
    "a=__import__('os').getcwd()", "[" + SENTINEL + "() 1]",
    "lambda: 0", "1 if " + SENTINEL + "() else 2", "'a'+'b'", "1+1", "(1)",
    "{1:2}", "a = 1", "b =2", "c= 3", "'a,b'", "'a)b'", "\"x=1\"", "[1, 2]",
    "0x10", "1_000", "nan", "inf", "auto", "[1 2 3]", "- 1", "a=", "=1", "",
    " ", "a=[1  2]", "a=[]", "a=[1 x]", "True False", "'unterminated",
    "eval('1')", "exec('x=1')", "a=b=1", "*[1]", "**{}", "1,", ")(", "((",
    "a=" + SENTINEL, "a='" + SENTINEL + "()'", "f'{" + SENTINEL + "()}'",
]


# ---------------------------------------------------------------------------
# rendering


def item_text(it, python=False):
  key, kind, sp = it
  if python and kind in ("list", "list1"):
    sp = "[" + ", ".join(sp[1:-1].split(" ")) + "]"
  return sp if key is None else key + "=" + sp


def render(case, python=False):
  sp = case.get("sp") or [0]
  out = []
  for i, it in enumerate(case["items"]):
    if i:
      out.append("," + " " * sp[(i - 1) % len(sp)])
    out.append(item_text(it, python))
  return case["head"] + "(" + "".join(out) + ")" + case.get("tail", "")


# ---------------------------------------------------------------------------
# reference: Python's own evaluation of the call expression


def py_eval_call(pytext):
  """(args, kwargs) of `name(...)` evaluated with ast.literal_eval per
  argument.  Raises SyntaxError / ValueError exactly when Python would not
  accept the text as a call with literal arguments."""
  node = ast.parse(pytext, mode="eval").body
  if not isinstance(node, ast.Call) or not isinstance(node.func, ast.Name):
    raise ValueError("not a plain call")
  args = [ast.literal_eval(a) for a in node.args]
  kwargs = {}
  for kw in node.keywords:
    if kw.arg is None:
      raise ValueError("** argument")
    kwargs[kw.arg] = ast.literal_eval(kw.value)
  return node.func.id, args, kwargs


def same_value(a, b):
  """Equality including type (1 is not 1.0 is not True); floats by repr so
  that -0.0 != 0.0 and nan == nan."""
  if type(a) is not type(b):
    return False
  if isinstance(a, float):
    return repr(a) == repr(b)
  if isinstance(a, list):
    return len(a) == len(b) and all(same_value(x, y) for x, y in zip(a, b))
  return a == b


PLAIN = (int, float, bool, str, type(None))


def is_plain(v):
  if isinstance(v, list):
    return all(is_plain(x) for x in v)
  return isinstance(v, PLAIN)


# ---------------------------------------------------------------------------
# spelling of a given value (used to print lattice configurations)


def spellings(v):
  """Alternative spellings of a JSON value inside the sound grammar:
  list of (kind, text)."""
  if v is None:
    return [("none", "None")]
  if isinstance(v, bool):
    return [("bool", "True" if v else "False")]
  if isinstance(v, int):
    return [("int", str(v))]
  if isinstance(v, float):
    out = [repr(v)]
    if v == int(v) and abs(v) < 1e6:
      out += ["%d." % int(v), "%de0" % int(v), "%.1fE+0" % v]
    else:
      out += ["%e" % v, ("%r" % v).replace("0.", ".", 1)
              if repr(v).startswith("0.") else "%r" % v]
    keep = []
    for t in out:
      try:
        ok = same_value(ast.literal_eval(t), v)
      except Exception:  # pylint: disable=broad-except
        ok = False
      if ok and t not in keep:
        keep.append(t)
    return [("float", t) for t in keep]
  if isinstance(v, str):
    return [("str", "'" + v + "'"), ("str", '"' + v + '"')]
  if isinstance(v, list):
    inner = " ".join(spellings(e)[0][1] for e in v)
    return [("list" if len(v) > 1 else "list1", "[" + inner + "]")]
  raise ValueError(v)


# ---------------------------------------------------------------------------
# Hypothesis strategies


def _strategies():
  from hypothesis import strategies as st  # pylint: disable=g-import-not-at-top

  ints = st.one_of(st.integers(-12, 130), st.integers(-10 ** 6, 10 ** 12))
  int_sp = ints.map(str)

  digits = st.text("0123456789", min_size=1, max_size=4)
  nz_int = st.integers(0, 9999).map(str)
  sign = st.sampled_from(["", "-"])
  exp = st.builds(lambda e, s, n: e + s + str(n), st.sampled_from("eE"),
                  st.sampled_from(["", "+", "-"]), st.integers(0, 12))
  mant = st.one_of(
      st.builds(lambda a, b: a + "." + b, nz_int, digits),
      st.builds(lambda b: "." + b, digits),
      st.builds(lambda a: a + ".", nz_int))
  float_sp = st.one_of(
      st.builds(lambda s, m: s + m, sign, mant),
      st.builds(lambda s, m, e: s + m + e, sign, st.one_of(mant, nz_int), exp))

  ident = st.one_of(
      st.sampled_from(STR_CONTENTS),
      st.text("abcdefghijklmnopqrstuvwxyzABCDEFGHIJKLMNOPQRSTUVWXYZ_0123456789",
              min_size=0, max_size=8))
  str_sp = st.builds(lambda q, c: q + c + q, st.sampled_from("'\""), ident)

  num_sp = st.one_of(int_sp, float_sp)
  list_sp = st.lists(num_sp, min_size=2, max_size=5).map(
      lambda l: "[" + " ".join(l) + "]")
  list1_sp = num_sp.map(lambda t: "[" + t + "]")

  scalar = st.one_of(
      st.tuples(st.just("int"), int_sp),
      st.tuples(st.just("float"), float_sp),
      st.tuples(st.just("bool"), st.sampled_from(["True", "False"])),
      st.tuples(st.just("none"), st.just("None")),
      st.tuples(st.just("str"), str_sp))
  kwval = st.one_of(scalar, scalar, st.tuples(st.just("list"), list_sp),
                    st.tuples(st.just("list1"), list1_sp))
  key = st.one_of(
      st.sampled_from(["alpha", "bits", "integer", "symmetric", "scale_axis",
                       "use_stochastic_rounding", "a", "b", "_k", "x1"]),
      st.from_regex(r"[a-z_][a-z0-9_]{0,6}", fullmatch=True)).filter(
          lambda k: not keyword.iskeyword(k))
  return st, scalar, kwval, key


def stub_case_strategy(heads):
  """Sound grammar: positional arguments, then keyword arguments."""
  st, scalar, kwval, key = _strategies()

  @st.composite
  def case(draw):
    head = draw(st.sampled_from(heads))
    npos = draw(st.integers(0, 4))
    items = [[None, k, t] for k, t in
             draw(st.lists(scalar, min_size=npos, max_size=npos))]
    keys = draw(st.lists(key, min_size=0, max_size=4, unique=True))
    for k in keys:
      kind, t = draw(kwval)
      items.append([k, kind, t])
    sp = draw(st.lists(st.integers(0, 2), min_size=1, max_size=3))
    return {"mode": "stub", "head": head, "items": items, "sp": sp}
  return case()


def order_case_strategy(heads):
  """At least one positional argument after a keyword argument."""
  st, scalar, kwval, key = _strategies()

  @st.composite
  def case(draw):
    head = draw(st.sampled_from(heads))
    pre = [[None, k, t] for k, t in draw(st.lists(scalar, max_size=2))]
    keys = draw(st.lists(key, min_size=1, max_size=3, unique=True))
    kws = []
    for k in keys:
      kind, t = draw(kwval)
      kws.append([k, kind, t])
    pos = [[None, k, t] for k, t in
           draw(st.lists(scalar, min_size=1, max_size=2))]
    cut = draw(st.integers(1, len(kws)))
    items = pre + kws[:cut] + pos + kws[cut:]
    sp = draw(st.lists(st.integers(0, 2), min_size=1, max_size=3))
    return {"mode": "order", "head": head, "items": items, "sp": sp}
  return case()


def exotic_case_strategy(heads):
  """Hostile / out-of-grammar fragments mixed with sound literals."""
  st, scalar, kwval, key = _strategies()

  @st.composite
  def case(draw):
    head = draw(st.sampled_from(heads))
    n = draw(st.integers(1, 4))
    items = []
    have = False
    for _ in range(n):
      if draw(st.integers(0, 2)) > 0 or not have:
        items.append([None, "exotic", draw(st.sampled_from(EXOTIC))])
        have = True
      elif draw(st.booleans()):
        k, t = draw(scalar)
        items.append([None, k, t])
      else:
        k, t = draw(kwval)
        items.append([draw(key), k, t])
    sp = draw(st.lists(st.integers(0, 2), min_size=1, max_size=3))
    tail = draw(st.sampled_from(["", "", "", ")", "(", "()", ".x", " "]))
    return {"mode": "exotic", "head": head, "items": items, "sp": sp,
            "tail": tail}
  return case()
